#!/bin/bash
# Must-fail corpus. Each case is a patch against /repo that keeps it compiling and its test suite green but breaks a
# property; the owning check must report a VIOLATION on a scratch worktree with the patch applied.
#   selftest/mutants/<prop>__<name>.patch          seeded/<id>/patch.diff (+ meta.json with "property")
# usage: selftest.sh [filter-substring...]
set -u
export GOFLAGS=-mod=mod GOPROXY=off GOSUMDB=off GOTOOLCHAIN=local
VERIF="$(cd "$(dirname "$0")" && pwd)"
REPO="${VERIF_REPO_BASE:-/repo}"
cases=()
for p in "$VERIF"/selftest/mutants/*.patch; do [ -f "$p" ] && cases+=("$p"); done
for d in "$VERIF"/seeded/*/; do [ -f "$d/patch.diff" ] && cases+=("$d/patch.diff"); done
fail=0; n=0
run_case() {
  local patch="$1" prop name wt out rc
  if [[ "$patch" == */patch.diff ]]; then
    name="seeded/$(basename "$(dirname "$patch")")"
    prop=$(python3 -c "import json,sys; print(json.load(open(sys.argv[1]))['property'])" "$(dirname "$patch")/meta.json")
  else
    name="$(basename "$patch" .patch)"; prop="${name%%__*}"
  fi
  wt=$(mktemp -d /tmp/govc-selftest-XXXXXX); rmdir "$wt"
  git -C "$REPO" worktree add -q --detach "$wt" HEAD >/dev/null 2>&1 || { echo "SELFTEST-ERROR $name: cannot create worktree"; return 1; }
  if ! git -C "$wt" apply "$patch" 2>/dev/null; then
    echo "SELFTEST-ERROR $name: patch does not apply"; git -C "$REPO" worktree remove --force "$wt"; return 1
  fi
  out=$(VERIF_REPO="$wt" GOVC_REPLAY_DIR="$wt.replay" "$VERIF/bin/govc" check -prop "$prop" -tier quick -no-evidence 2>&1); rc=$?
  git -C "$REPO" worktree remove --force "$wt" >/dev/null 2>&1; rm -rf "$wt" "$wt.replay"
  if [ $rc -eq 1 ] && grep -q "^VIOLATION property=$prop " <<<"$out"; then
    echo "SELFTEST-OK   $name ($prop): $(grep -c '^VIOLATION' <<<"$out") violation line(s); first: $(grep -m1 'failed:' <<<"$out" | cut -c1-140)"
    return 0
  fi
  echo "SELFTEST-MISS $name ($prop): exit $rc, no VIOLATION"; echo "$out" | tail -3
  return 1
}
export -f run_case; export VERIF REPO
"$VERIF/check" build
sel=()
for c in "${cases[@]}"; do
  skip=0
  if [ $# -gt 0 ]; then skip=1; for f in "$@"; do [[ "$c" == *"$f"* ]] && skip=0; done; fi
  [ $skip -eq 1 ] && continue
  sel+=("$c")
done
n=${#sel[@]}
# SELFTEST_JOBS cases at a time (each case runs its own solver processes; default 3)
res=$(mktemp)
printf '%s\n' "${sel[@]}" | xargs -P "${SELFTEST_JOBS:-3}" -I{} bash -c 'run_case "$1"' _ {} | tee "$res"
fail=$(grep -c -v '^SELFTEST-OK' "$res" | head -1)
fail=$(grep -c '^SELFTEST-MISS\|^SELFTEST-ERROR' "$res")
rm -f "$res"
git -C "$REPO" worktree prune
echo "selftest: $n cases, $fail missed"
[ "$fail" -eq 0 ]
