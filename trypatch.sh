#!/bin/bash
# trypatch.sh <prop> <patch> [govc binary]: run the check of <prop> on a scratch worktree of /repo (HEAD + uncommitted
# contract files) with the patch applied; /repo itself is not touched. The worktree is removed afterwards.
export GOFLAGS=-mod=mod GOPROXY=off GOSUMDB=off GOTOOLCHAIN=local
prop="$1"; patch="$2"; bin="${3:-/verif/bin/govc}"
wt=$(mktemp -d /tmp/trypatch-XXXXXX); rmdir "$wt"
git -C /repo worktree add -q --detach "$wt" HEAD || exit 2
# carry uncommitted contract edits over (contracts under development)
(cd /repo && git diff -- '*verif_contracts.go') | git -C "$wt" apply 2>/dev/null
if ! git -C "$wt" apply "$patch"; then echo "patch does not apply"; git -C /repo worktree remove --force "$wt"; exit 2; fi
cd /verif && VERIF_DIR=/verif VERIF_REPO="$wt" GOVC_REPLAY_DIR="$wt.replay" "$bin" check -prop "$prop" -no-evidence 2>&1 | grep -v "^KNOWN-FINDING\|x_generator_coverage" | grep -v "^VIOLATION.*x_generator" | tail -${TRY_TAIL:-6} | cut -c1-330
grep -h '"replay_detail"' "$wt.replay/$prop"/*.json 2>/dev/null | sort | uniq -c | head -3 | cut -c1-400
git -C /repo worktree remove --force "$wt"; rm -rf "$wt" "$wt.replay"; git -C /repo worktree prune
