#!/bin/bash
# trypatch.sh <prop> <patch>: apply a patch to /repo, run the check, undo. (uncommitted work in /repo is stashed)
prop="$1"; patch="$2"
cd /repo && git stash -q -u 2>/dev/null; st=$?
git apply "$patch" || { git stash pop -q 2>/dev/null; echo "patch does not apply"; exit 2; }
cd /verif && GOVC_REPLAY_DIR=/tmp/rp_$prop ./bin/govc check -prop "$prop" -no-evidence 2>&1 | grep -v "^KNOWN-FINDING" | tail -6 | cut -c1-330
grep -h '"replay_detail"' /tmp/rp_$prop/$prop/*.json 2>/dev/null | sort | uniq -c | head -3 | cut -c1-400
rm -rf /tmp/rp_$prop
cd /repo && git checkout -- . && git clean -fdq -e verif_contracts.go >/dev/null 2>&1; git stash pop -q 2>/dev/null; git status --short | head -3
