#!/bin/bash
# trypatch.sh <prop> <patch>: apply a patch to /repo, run the check, undo it straight afterwards.
prop="$1"; patch="$2"
cd /repo && git apply "$patch" || { echo "patch does not apply"; exit 2; }
cd /verif && GOVC_REPLAY_DIR=/tmp/rp_$prop ./bin/govc check -prop "$prop" -no-evidence 2>&1 | grep -v "^KNOWN-FINDING" | tail -6 | cut -c1-330
grep -h '"replay_detail"' /tmp/rp_$prop/$prop/*.json 2>/dev/null | sort | uniq -c | head -3 | cut -c1-400
rm -rf /tmp/rp_$prop
cd /repo && git apply -R "$patch" && git status --short | head -3
