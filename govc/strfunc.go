package main

import (
	"encoding/hex"
	"fmt"
	"strings"
)

// evalStringFunc runs a string->string expression of the real package on the
// given inputs (in-package overlay test) and returns the outputs; a panic in
// the real code is returned as "PANIC:<msg>".
func (r *Run) evalStringFunc(pkgDir, pkgName, imports, fnExpr string, inputs []string) ([]string, error) {
	src := `package ` + pkgName + `

import (
	"encoding/hex"
	"encoding/json"
	"fmt"
	"os"
	"testing"
` + imports + `
)

func TestVerifReplayStr(t *testing.T) {
	data, err := os.ReadFile(os.Getenv("VERIF_REPLAY_INPUT"))
	if err != nil {
		t.Fatal(err)
	}
	var ins []string
	if err := json.Unmarshal(data, &ins); err != nil {
		t.Fatal(err)
	}
	f := ` + fnExpr + `
	for _, h := range ins {
		b, _ := hex.DecodeString(h)
		func() {
			defer func() {
				if p := recover(); p != nil {
					fmt.Println("RESULT PANIC:" + hex.EncodeToString([]byte(fmt.Sprint(p))))
				}
			}()
			fmt.Println("RESULT " + hex.EncodeToString([]byte(f(string(b)))))
		}()
	}
}
`
	var hexIns []string
	for _, in := range inputs {
		hexIns = append(hexIns, hex.EncodeToString([]byte(in)))
	}
	out, err := r.runReplayTest(pkgDir, src, hexIns, "TestVerifReplayStr")
	var res []string
	for _, line := range strings.Split(out, "\n") {
		line = strings.TrimSpace(line)
		if line != "RESULT" && !strings.HasPrefix(line, "RESULT ") {
			continue
		}
		v := strings.TrimSpace(strings.TrimPrefix(line, "RESULT"))
		if strings.HasPrefix(v, "PANIC:") {
			b, _ := hex.DecodeString(strings.TrimPrefix(v, "PANIC:"))
			res = append(res, "PANIC:"+string(b))
			continue
		}
		b, _ := hex.DecodeString(v)
		res = append(res, string(b))
	}
	if len(res) != len(inputs) {
		return nil, fmt.Errorf("replay produced %d results for %d inputs: %v\n%s", len(res), len(inputs), err, firstLines(out, 8))
	}
	return res, nil
}

// enumStrings lists all strings over alphabet up to maxLen.
func enumStrings(alphabet []string, maxLen int) []string {
	out := []string{""}
	level := []string{""}
	for l := 0; l < maxLen; l++ {
		var next []string
		for _, p := range level {
			for _, a := range alphabet {
				next = append(next, p+a)
			}
		}
		out = append(out, next...)
		level = next
	}
	return out
}
