package main

// Verification of generated code: every function literal passed to
// templruntime.GeneratedTemplate in the regenerated corpus is verified against
// the generated-code contract (contracts/generated.contract), twice: with the
// writer being an arbitrary writer and with it being a *runtime.Buffer.

import (
	"fmt"
	"go/ast"
	goparser "go/parser"
	"go/token"
	"go/types"
	"os"
	"path/filepath"
	"sort"
	"strconv"
	"strings"
)

type genInfo struct {
	closure *genClosure
	variant string
	props   map[string]bool // which property's hooks are active
}

const rtPkg = modulePath + "/runtime"

// loadGeneratedContract parses contracts/generated.contract and returns the
// template contracts by variant name.
func (r *Run) loadGeneratedContract() (map[string]*Contract, error) {
	path := filepath.Join(r.verif, "contracts", "generated.contract")
	data, err := os.ReadFile(path)
	if err != nil {
		return nil, err
	}
	cs := NewContractSet()
	cs.parse(string(data), path, "generated")
	if len(cs.Errors) > 0 {
		return nil, fmt.Errorf("%s", strings.Join(cs.Errors, "; "))
	}
	out := map[string]*Contract{}
	for _, c := range cs.Contracts {
		out[c.Name+"/"+c.Variant] = c
	}
	for k, v := range cs.Specs {
		r.e.cs.Specs[k] = v
	}
	return out, nil
}

// VerifyGenerated runs the generated-code contract over the corpus.
func (r *Run) VerifyGenerated(c *Corpus, props ...string) {
	tmpl, err := r.loadGeneratedContract()
	if err != nil {
		r.e.rejected["generated.contract"] = err.Error()
		return
	}
	pm := map[string]bool{}
	for _, p := range props {
		pm[p] = true
	}
	closures := r.generatedClosures(c)
	r.scriptTemplateContracts(c, tmpl, props)
	r.extraCov["programs"] = len(c.Metas) - len(c.Skip)
	r.extraCov["generated_closures"] = len(closures)
	var skipped []string
	for d, why := range c.Skip {
		skipped = append(skipped, d+": "+why)
	}
	sort.Strings(skipped)
	r.extraCov["corpus_skipped"] = skipped
	if pm["C13"] {
		r.childrenPlacement(closures)
	}
	if pm["C12"] {
		r.cssHoisting(closures)
	}
	for _, gc := range closures {
		kind := "BLOCK"
		if gc.topLevel {
			kind = "TEMPLATE"
		}
		for _, variant := range []string{"plain", "buffered"} {
			t := tmpl[kind+"/"+variant]
			if t == nil {
				r.e.rejected["generated.contract"] = "missing contract " + kind + "/" + variant
				return
			}
			cc := *t
			cc.Pkg = gc.pkg.PkgPath
			cc.Recv = ""
			if gc.decl.Recv != nil && len(gc.decl.Recv.List) > 0 {
				cc.Recv = recvTypeName(gc.decl.Recv.List[0].Type)
			}
			cc.Name = fmt.Sprintf("%s$%d", gc.decl.Name.Name, gc.ordinal)
			cc.Variant = variant
			cc.Props = props
			// default loop invariants for every loop of the closure
			cc.Loops = map[int]*LoopSpec{}
			nl := 0
			ast.Inspect(gc.lit.Body, func(x ast.Node) bool {
				if fl, ok := x.(*ast.FuncLit); ok && fl != gc.lit {
					return false
				}
				switch x.(type) {
				case *ast.ForStmt, *ast.RangeStmt:
					nl++
					if ls := t.Loops[0]; ls != nil {
						cc.Loops[nl] = ls
					}
				}
				return true
			})
			r.e.genInfo[cc.Key()] = &genInfo{closure: gc, variant: variant, props: pm}
			r.e.VerifyFunc(&cc)
		}
	}
}

func shortGenName(c *Contract) string {
	return "gen:" + filepath.Base(c.Pkg) + "." + c.Name + "/" + c.Variant
}

// ---------------------------------------------------------------------------
// Hooks at call sites of generated code

func htmlCtxOf(st *State) *Term {
	if t, ok := st.ghost["htmlctx"].(*Term); ok {
		return t
	}
	return Str("DATA")
}

// mapCtx applies f to every constant leaf of a (possibly ite-merged) context term.
func mapCtx(t *Term, f func(string) *Term) *Term {
	if t.IsStr() {
		return f(t.Str)
	}
	if t.Op == "ite" {
		return Ite(t.Args[0], mapCtx(t.Args[1], f), mapCtx(t.Args[2], f))
	}
	return nil
}

func (ec *evalCtx) genHook(call *ast.CallExpr, fn *types.Func, recv Value, args []Value) {
	gi := ec.fc.gen
	if gi == nil || fn == nil {
		return
	}
	full := fn.Origin().FullName()
	st := ec.st
	switch full {
	case rtPkg + ".WriteString":
		// static literal: advance the ghost HTML context
		lit, ok := args[2].(*Term)
		cur := htmlCtxOf(st)
		if !ok || !lit.IsStr() {
			ec.fc.oblige(st, "sink", False, call.Pos(), "templruntime.WriteString with a non-constant literal")
			return
		}
		next := mapCtx(cur, func(k string) *Term { return Str(advanceHTML(parseHTMLKey(k), lit.Str).Key()) })
		if next == nil {
			next = Var(ec.e().fresher.name("htmlctx.unknown"), SStr)
		}
		st.ghost["htmlctx"] = next
	case "(*" + rtPkg + ".Buffer).WriteString":
		if gi.props["C01"] || gi.props["C03"] {
			ec.sinkObligation(call, scalar(args[0]))
		}
		if gi.props["C04"] {
			ec.urlSinkObligation(call, scalar(args[0]))
		}
		if gi.props["C12"] {
			ec.scriptBeforeUseObligation(call)
		}
		// after a value the literal no longer ends with the $ of the constant text
		if cur := htmlCtxOf(st); cur != nil {
			if next := mapCtx(cur, func(k string) *Term { return Str(strings.TrimSuffix(k, ":dollar")) }); next != nil {
				st.ghost["htmlctx"] = next
			}
		}
	case "(" + modulePath + ".Component).Render":
		if gi.props["C13"] {
			ec.childrenObligation(call)
		}
		if gi.props["C01"] {
			ec.contextObligation(call, "a component is rendered", "DATA")
		}
	case modulePath + ".RenderAttributes":
		if gi.props["C01"] {
			ec.contextObligation(call, "spread attributes are rendered", "INTAG", "TAGNAME", "ATTRNAME", "AFTERNAME")
			// RenderAttributes writes  name  or  name="value"  runs, each with a leading space: afterwards the
			// tokenizer is after an attribute name or after a quoted value; take the weaker of the two.
			st.ghost["htmlctx"] = mapCtx(htmlCtxOf(st), func(k string) *Term {
				s := parseHTMLKey(k)
				return Str(htmlState{Mode: "AFTERNAME", Tag: s.Tag}.Key())
			})
		}
	case modulePath + ".RenderCSSItems", modulePath + ".RenderScriptItems":
		if gi.props["C01"] {
			ec.contextObligation(call, "a style / script element is emitted", "DATA")
		}
	}
}

func (ec *evalCtx) contextObligation(call *ast.CallExpr, what string, want ...string) {
	cur := htmlCtxOf(ec.st)
	goal := mapCtx(cur, func(k string) *Term {
		for _, w := range want {
			if parseHTMLKey(k).Mode == w {
				return True
			}
		}
		return False
	})
	if goal == nil {
		goal = False
	}
	ec.fc.oblige(ec.st, "sink", goal, call.Pos(), fmt.Sprintf("%s in HTML context %s (required: %s)", what, ctxText(cur), strings.Join(want, " or ")))
}

func ctxText(t *Term) string {
	if t.IsStr() {
		return t.Str
	}
	return "not statically known"
}

// sinkLanguage: the language a dynamic value written in context k must belong to ("" = no dynamic write allowed).
func sinkLanguage(k string) string {
	s := parseHTMLKey(k)
	switch s.Mode {
	case "DATA":
		return "TEXT_SAFE"
	case "ATTR_DQ":
		return "DQ_ATTR_SAFE"
	case "SCRIPT":
		switch jsTop(s.Js) {
		case "", "{":
			return "JS_BARE_SAFE"
		case "'":
			return "JS_SQ_SINK"
		case "\"":
			return "JS_DQ_SINK"
		case "`":
			if s.Dol {
				return "JS_BT_AFTER_DOLLAR_SINK" // the literal so far ends with $: a value that starts with { opens an interpolation
			}
			return "JS_BT_SINK"
		}
	}
	return ""
}

func (ec *evalCtx) sinkObligation(call *ast.CallExpr, arg *Term) {
	cur := htmlCtxOf(ec.st)
	e := ec.e()
	var hyps []*Term
	goal := mapCtx(cur, func(k string) *Term {
		lang := sinkLanguage(k)
		if lang == "" {
			return False
		}
		// instantiate every declared single-parameter inclusion lemma that concludes membership in lang
		for _, lm := range e.cs.Lemmas {
			if a, b, ok := inclusionLemma(lm); ok && b == lang {
				hyps = append(hyps, Implies(e.inL(arg, a), e.inL(arg, b)))
				e.usedLemmas[lm.Name] = true
			}
		}
		return e.inL(arg, lang)
	})
	if goal == nil {
		goal = False
	}
	for _, h := range hyps {
		ec.st.Assume(h)
	}
	ec.fc.oblige(ec.st, "sink", goal, call.Pos(), fmt.Sprintf("dynamic value %s written in HTML context %s must be safe there", exprText(call.Args[0]), ctxText(cur)))
}

// inclusionLemma recognises  lemma n(x): inL(x, A) ==> inL(x, B).
func inclusionLemma(lm *Lemma) (string, string, bool) {
	if len(lm.Params) != 1 || lm.Hyps == nil {
		return "", "", false
	}
	h, ok := lm.Hyps.(*ast.CallExpr)
	c, ok2 := lm.Concl.(*ast.CallExpr)
	if !ok || !ok2 || exprString(h.Fun) != "inL" || exprString(c.Fun) != "inL" || len(h.Args) != 2 || len(c.Args) != 2 {
		return "", "", false
	}
	if exprString(h.Args[0]) != lm.Params[0] || exprString(c.Args[0]) != lm.Params[0] {
		return "", "", false
	}
	return exprString(h.Args[1]), exprString(c.Args[1]), true
}

// childrenObligation (C13): a component called without a block must find the
// children slot empty; a call with a block finds exactly that block.
func (ec *evalCtx) childrenObligation(call *ast.CallExpr) {
	if len(call.Args) < 1 {
		return
	}
	sc := &evalCtx{fc: ec.fc, st: ec.st, spec: true, pkg: ec.pkg, pol: 1}
	slot := sc.specCall(&ast.CallExpr{Fun: ast.NewIdent("slot")})
	withBlock := false
	if c0, ok := ast.Unparen(call.Args[0]).(*ast.CallExpr); ok {
		if f := calleeFunc(ec.info, c0); f != nil && f.FullName() == modulePath+".WithChildren" {
			withBlock = true
		}
	}
	if withBlock {
		return // WithChildren's contract installs exactly the block
	}
	ec.fc.oblige(ec.st, "children", ec.eqValues(slot, nilMarker{}), call.Pos(),
		"component "+exprText(call.Fun)+" is called without a block: the children slot must be empty")
}

// isGeneratedTemplateFunc: fn is declared in a corpus package and its body is
// `return templruntime.GeneratedTemplate(...)`, i.e. it is a generated template
// whose closure is verified against the TEMPLATE contract in this same run.
func (e *Engine) isGeneratedTemplateFunc(fn *types.Func) bool {
	if fn == nil || fn.Pkg() == nil || !strings.HasPrefix(fn.Pkg().Path(), "verifcorpus/") {
		return false
	}
	recv := ""
	if sig, ok := fn.Type().(*types.Signature); ok && sig.Recv() != nil {
		t := sig.Recv().Type()
		if p, ok := t.(*types.Pointer); ok {
			t = p.Elem()
		}
		if n, ok := t.(*types.Named); ok {
			recv = n.Obj().Name()
		}
	}
	fd := e.funcDecls[contractKey(fn.Pkg().Path(), recv, fn.Name())]
	if fd == nil || fd.Body == nil || len(fd.Body.List) != 1 {
		return false
	}
	rs, ok := fd.Body.List[0].(*ast.ReturnStmt)
	if !ok || len(rs.Results) != 1 {
		return false
	}
	call, ok := rs.Results[0].(*ast.CallExpr)
	if !ok {
		return false
	}
	pkg := e.funcPkg[contractKey(fn.Pkg().Path(), recv, fn.Name())]
	f := calleeFunc(pkg.TypesInfo, call)
	return f != nil && f.FullName() == rtPkg+".GeneratedTemplate"
}

// genPostHook: facts available after a call in generated code.
func (ec *evalCtx) genPostHook(call *ast.CallExpr, fn *types.Func, result Value) {
	gi := ec.fc.gen
	if gi == nil || fn == nil || !gi.props["C13"] {
		return
	}
	if fn.Origin().FullName() != "("+modulePath+".Component).Render" {
		return
	}
	sel, ok := ast.Unparen(call.Fun).(*ast.SelectorExpr)
	if !ok {
		return
	}
	rc, ok := ast.Unparen(sel.X).(*ast.CallExpr)
	if !ok {
		return
	}
	if !ec.e().isGeneratedTemplateFunc(calleeFunc(ec.info, rc)) {
		return
	}
	// the callee is a generated template: its TEMPLATE contract (proved in this run) leaves the slot empty on success
	res, ok := result.(*Term)
	if !ok {
		return
	}
	sc := &evalCtx{fc: ec.fc, st: ec.st, spec: true, pkg: ec.pkg, pol: -1}
	slot := sc.specCall(&ast.CallExpr{Fun: ast.NewIdent("slot")})
	ec.st.Assume(Implies(Eq(res, Int(0)), ec.eqValues(slot, nilMarker{})))
}

// scriptTemplateContracts: every generated script template (a function of a
// corpus package returning templ.ComponentScript) gets the SCRIPTFUNC contract
// of contracts/generated.contract; it is registered (so that call sites in
// template closures use it) and verified against the generated body.
func (r *Run) scriptTemplateContracts(c *Corpus, tmpl map[string]*Contract, props []string) {
	t := tmpl["SCRIPTFUNC/"]
	if t == nil {
		return
	}
	for _, p := range c.Pkgs {
		for _, f := range p.Syntax {
			if !strings.HasSuffix(p.Fset.Position(f.Pos()).Filename, "_templ.go") {
				continue
			}
			for _, d := range f.Decls {
				fd, ok := d.(*ast.FuncDecl)
				if !ok || fd.Body == nil || fd.Type.Results == nil || len(fd.Type.Results.List) != 1 {
					continue
				}
				rt := p.TypesInfo.TypeOf(fd.Type.Results.List[0].Type)
				if rt == nil || types.TypeString(rt, nil) != modulePath+".ComponentScript" {
					continue
				}
				cc := *t
				cc.Pkg = p.PkgPath
				cc.Recv = ""
				if fd.Recv != nil && len(fd.Recv.List) > 0 {
					cc.Recv = recvTypeName(fd.Recv.List[0].Type)
				}
				cc.Name = fd.Name.Name
				cc.Variant = ""
				cc.Props = props
				cc.Loops = map[int]*LoopSpec{}
				r.e.cs.Contracts[cc.Key()] = &cc
				r.e.VerifyFunc(&cc)
			}
		}
	}
}

// urlSinkObligation (C04): a dynamic value in <a href> or <form action> must be
// attribute-escaped and must come from a variable of static type templ.SafeURL
// (so that a plain string does not compile).
func (ec *evalCtx) urlSinkObligation(call *ast.CallExpr, arg *Term) {
	cur := htmlCtxOf(ec.st)
	isURLSink := false
	known := mapCtx(cur, func(k string) *Term {
		s := parseHTMLKey(k)
		if s.Mode == "ATTR_DQ" && ((s.Tag == "a" && s.Attr == "href") || (s.Tag == "form" && s.Attr == "action")) {
			isURLSink = true
		}
		return True
	})
	if known == nil {
		ec.fc.oblige(ec.st, "sink", False, call.Pos(), "URL sink check: HTML context not statically known")
		return
	}
	if !isURLSink {
		return
	}
	typed := false
	if esc, ok := ast.Unparen(call.Args[0]).(*ast.CallExpr); ok {
		if f := calleeFunc(ec.info, esc); f != nil && f.FullName() == modulePath+".EscapeString" && len(esc.Args) == 1 {
			if conv, ok := ast.Unparen(esc.Args[0]).(*ast.CallExpr); ok && len(conv.Args) == 1 {
				if tv, ok := ec.info.Types[conv.Fun]; ok && tv.IsType() {
					if t := ec.info.TypeOf(conv.Args[0]); t != nil && types.TypeString(t, nil) == modulePath+".SafeURL" {
						typed = true
						if types.Identical(t, types.Typ[types.String]) || types.AssignableTo(types.Typ[types.String], t) {
							// an alias of string (or any type a plain string variable is assignable to) gates nothing
							ec.fc.oblige(ec.st, "sink", False, call.Pos(), "href/action value "+exprText(conv.Args[0])+": templ.SafeURL must be a defined type that a plain string is not assignable to - it is "+types.TypeString(types.Unalias(t), nil))
						}
						if why := ec.urlVarGate(conv.Args[0]); why != "" {
							ec.fc.oblige(ec.st, "sink", False, call.Pos(), "href/action value "+exprText(conv.Args[0])+": "+why)
						}
					}
				}
			}
		}
	}
	ec.fc.oblige(ec.st, "sink", Bool(typed), call.Pos(), "href/action value "+exprText(call.Args[0])+" must be templ.EscapeString(string(v)) with v of static type templ.SafeURL")
	// and it must be attribute-safe like any other attribute value
	e := ec.e()
	for _, lm := range e.cs.Lemmas {
		if a, b, ok := inclusionLemma(lm); ok && b == "DQ_ATTR_SAFE" {
			ec.st.Assume(Implies(e.inL(arg, a), e.inL(arg, b)))
			e.usedLemmas[lm.Name] = true
		}
	}
	ec.fc.oblige(ec.st, "sink", e.inL(arg, "DQ_ATTR_SAFE"), call.Pos(), "href/action value must be attribute-escaped")
}

// urlVarGate: the compile-time gate behind "a plain string does not compile". The variable written at a URL sink
// must receive the template's expression in a way that makes the Go type checker demand a templ.SafeURL:
//
//	var v templ.SafeURL = <expr>                     (assignability is the gate), or
//	v[, err] = f(...)  with f a function of the templ module whose declared (uninstantiated) parameters - errors
//	                   aside - are all templ.SafeURL, or any function outside the templ module that returns a SafeURL
//
// Returns "" when every definition of v is of one of these forms.
func (ec *evalCtx) urlVarGate(x ast.Expr) string {
	id, ok := ast.Unparen(x).(*ast.Ident)
	if !ok {
		return "" // an expression of static type SafeURL written in place: the type checker has seen it
	}
	obj := ec.info.Uses[id]
	if obj == nil || ec.fc.body == nil {
		return ""
	}
	safeURL := modulePath + ".SafeURL"
	why := ""
	defs := 0
	declaredOnly := false
	ast.Inspect(ec.fc.body, func(n ast.Node) bool {
		switch n := n.(type) {
		case *ast.ValueSpec:
			for i, name := range n.Names {
				if ec.info.Defs[name] != obj {
					continue
				}
				if n.Type == nil || types.TypeString(ec.info.TypeOf(n.Type), nil) != safeURL {
					why = "its declaration does not name the type templ.SafeURL"
				}
				if i < len(n.Values) {
					defs++
				} else {
					declaredOnly = true
				}
			}
		case *ast.AssignStmt:
			for _, l := range n.Lhs {
				lid, ok := ast.Unparen(l).(*ast.Ident)
				if !ok || (ec.info.Uses[lid] != obj && ec.info.Defs[lid] != obj) {
					continue
				}
				defs++
				if n.Tok == token.DEFINE {
					why = "it is defined with := (no declared type gates the expression)"
					continue
				}
				if len(n.Rhs) != 1 {
					continue // v = e with e checked against v's declared type by the compiler
				}
				callx, ok := ast.Unparen(n.Rhs[0]).(*ast.CallExpr)
				if !ok {
					continue
				}
				f := calleeFunc(ec.info, callx)
				if f == nil || f.Pkg() == nil || !strings.HasPrefix(f.Pkg().Path(), modulePath) {
					continue
				}
				sig, _ := f.Origin().Type().(*types.Signature)
				if sig == nil {
					continue
				}
				for i := 0; i < sig.Params().Len(); i++ {
					pt := sig.Params().At(i).Type()
					if sl, ok := pt.(*types.Slice); ok && sig.Variadic() && i == sig.Params().Len()-1 {
						pt = sl.Elem()
					}
					ts := types.TypeString(pt, nil)
					if ts != safeURL && ts != "error" {
						why = "it is filled by " + f.FullName() + ", whose parameter " + sig.Params().At(i).Name() + " has declared type " + ts + " - a value that is not a templ.SafeURL compiles there"
					}
				}
			}
		}
		return true
	})
	if why == "" && defs == 0 && declaredOnly {
		why = "it is declared but never filled"
	}
	return why
}

// scriptBeforeUseObligation (C12): where the call of a script template is written
// into an attribute, its function definition must already be registered as
// emitted in this context (the generator hoists templ.RenderScriptItems in front
// of the element).
func (ec *evalCtx) scriptBeforeUseObligation(call *ast.CallExpr) {
	sel, ok := ast.Unparen(call.Args[0]).(*ast.SelectorExpr)
	if !ok || sel.Sel.Name != "Call" {
		return
	}
	t := ec.info.TypeOf(sel.X)
	if t == nil || types.TypeString(t, nil) != modulePath+".ComponentScript" {
		return
	}
	sv, ok := ec.derefQuiet(ec.eval(sel.X)).(*StructV)
	if !ok {
		return
	}
	name, ok := sv.F["Name"].(*Term)
	if !ok {
		return
	}
	cvp := ec.e().renderCV(ec.st)
	cvs := ec.st.heap[cvp.Obj].(*StructV)
	ss, ok := cvs.F["ss"].(*MapV)
	if !ok {
		return
	}
	ec.fc.oblige(ec.st, "sink", Select(ss.Dom, Concat(Str("script_"), name)), call.Pos(),
		"the script template "+exprText(sel.X)+" is called from an attribute: its definition must have been emitted (registered) before this point")
}

// SweepGeneratorWrites (C01): the generated-code obligations are checked on a corpus, so an emission path of the
// generator that no corpus template reaches would escape them. This sweep reads the generator's own source: every
// string constant from which it builds a dynamic write - text containing "templ_7745c5c3_Buffer.WriteString(" - must
// continue with the escaper ("templ.EscapeString("), except at the two places where the value is made safe by other
// means: the call of a script template in an on* attribute (continues with <var>.Call, C03) and the contents of a
// script element (writeScriptContents: the value comes from the ScriptContent* functions, C03).
func (r *Run) SweepGeneratorWrites() {
	path := filepath.Join(r.repo, "generator", "generator.go")
	fset := token.NewFileSet()
	file, err := goparser.ParseFile(fset, path, nil, 0)
	if err != nil {
		r.e.rejected["generator.SweepGeneratorWrites"] = err.Error()
		return
	}
	const marker = "templ_7745c5c3_Buffer.WriteString("
	n, total := 0, 0
	for _, d := range file.Decls {
		fd, ok := d.(*ast.FuncDecl)
		if !ok || fd.Body == nil {
			continue
		}
		// flatten every + chain into its pieces (string constants and other expressions)
		seen := map[ast.Expr]bool{}
		ast.Inspect(fd.Body, func(nd ast.Node) bool {
			be, ok := nd.(ast.Expr)
			if !ok || seen[be] {
				return true
			}
			var pieces []ast.Expr
			var flat func(e ast.Expr)
			flat = func(e ast.Expr) {
				seen[e] = true
				if b, ok := e.(*ast.BinaryExpr); ok && b.Op == token.ADD {
					flat(b.X)
					flat(b.Y)
					return
				}
				if p, ok := e.(*ast.ParenExpr); ok {
					flat(p.X)
					return
				}
				pieces = append(pieces, e)
			}
			switch be.(type) {
			case *ast.BinaryExpr, *ast.BasicLit:
				flat(be)
			default:
				return true
			}
			lit := func(e ast.Expr) (string, bool) {
				bl, ok := e.(*ast.BasicLit)
				if !ok || bl.Kind != token.STRING {
					return "", false
				}
				s, err := strconv.Unquote(bl.Value)
				return s, err == nil
			}
			for i, p := range pieces {
				s, ok := lit(p)
				if !ok {
					continue
				}
				for off := 0; ; {
					k := strings.Index(s[off:], marker)
					if k < 0 {
						break
					}
					total++
					rest := s[off+k+len(marker):]
					off += k + len(marker)
					okWrite := false
					switch {
					case strings.HasPrefix(rest, "templ.EscapeString("):
						okWrite = true
					case rest == "" && i+2 < len(pieces):
						if nx, isLit := lit(pieces[i+2]); isLit && strings.HasPrefix(nx, ".Call)") {
							okWrite = true // the call text of a script template (validated name, JSON + HTML-escaped arguments: C03)
						} else if fd.Name.Name == "writeScriptContents" {
							okWrite = true // contents of a script element: produced by the ScriptContent* functions (C03)
						}
					}
					if !okWrite {
						n++
						pos := fset.Position(p.Pos())
						r.e.addObl(&Obligation{Name: fmt.Sprintf("generator.%s#dynwrite.%d", fd.Name.Name, n), Kind: "site", Func: "generator." + fd.Name.Name, Goal: False, Verdict: "sat", Solver: "engine",
							Pos: fmt.Sprintf("%s:%d", pos.Filename, pos.Line), Note: "the generator emits a write of a dynamic value that is not wrapped in templ.EscapeString (and is neither a script template call nor script element contents): " + strconv.Quote(s)})
					}
				}
			}
			return true
		})
	}
	r.e.notes = appendUnique(r.e.notes, fmt.Sprintf("generator source sweep: %d constants from which generator.go builds a dynamic write continue with templ.EscapeString( or are one of the two C03 positions", total))
	if total == 0 {
		r.e.addObl(&Obligation{Name: "generator#dynwrite.none", Kind: "site", Func: "generator", Goal: False, Verdict: "sat", Solver: "engine", Note: "no dynamic write found in generator/generator.go: the sweep does not recognise how the generator emits writes any more"})
	}
}

// childrenPlacement (C13, "children are rendered where the callee places its children slot"): a block closure is
// verified on its own, so what a variable it captures holds is not known there. The variable a children expression
// renders must therefore be the one the enclosing template body read from the context on entry - declared by
// `v := templ.GetChildren(ctx)` directly in the template's own closure, not in the closure of a block (where the slot
// has been cleared by whoever renders the block). One obligation per children expression.
func (r *Run) childrenPlacement(closures []*genClosure) {
	top := map[*ast.FuncDecl]*genClosure{}
	for _, gc := range closures {
		if gc.topLevel {
			top[gc.decl] = gc
		}
	}
	for _, gc := range closures {
		info := gc.pkg.TypesInfo
		k := 0
		ast.Inspect(gc.lit.Body, func(x ast.Node) bool {
			if fl, ok := x.(*ast.FuncLit); ok && fl != gc.lit {
				return false
			}
			call, ok := x.(*ast.CallExpr)
			if !ok {
				return true
			}
			sel, ok := ast.Unparen(call.Fun).(*ast.SelectorExpr)
			if !ok || sel.Sel.Name != "Render" {
				return true
			}
			id, ok := ast.Unparen(sel.X).(*ast.Ident)
			if !ok {
				return true
			}
			obj := info.Uses[id]
			if obj == nil {
				return true
			}
			// where was it declared, and by what?
			t := top[gc.decl]
			if t == nil {
				return true
			}
			var declIn *ast.FuncLit
			fromChildren := false
			var stack []*ast.FuncLit
			var walk func(n ast.Node) bool
			walk = func(n ast.Node) bool {
				if fl, ok := n.(*ast.FuncLit); ok {
					stack = append(stack, fl)
					ast.Inspect(fl.Body, func(m ast.Node) bool {
						if m == nil {
							return true
						}
						if _, ok := m.(*ast.FuncLit); ok {
							return walk(m)
						}
						if as, ok := m.(*ast.AssignStmt); ok && len(as.Lhs) == 1 && len(as.Rhs) == 1 {
							if l, ok := as.Lhs[0].(*ast.Ident); ok && info.Defs[l] == obj {
								declIn = stack[len(stack)-1]
								if c, ok := ast.Unparen(as.Rhs[0]).(*ast.CallExpr); ok {
									if f := calleeFunc(info, c); f != nil && f.FullName() == modulePath+".GetChildren" {
										fromChildren = true
									}
								}
							}
						}
						return true
					})
					stack = stack[:len(stack)-1]
					return false
				}
				return true
			}
			walk(t.lit)
			if !fromChildren {
				return true
			}
			pos := gc.pkg.Fset.Position(call.Pos())
			k++
			name := fmt.Sprintf("%s#children.placement.%d", gc.name, k)
			o := &Obligation{Name: name, Kind: "children", Func: gc.name, Goal: True, Verdict: "unsat", Solver: "engine", Pos: fmt.Sprintf("%s:%d", pos.Filename, pos.Line),
				Note: "the children expression renders the children the enclosing template received (read from the context in the template's own closure)"}
			if declIn != t.lit {
				o.Goal, o.Verdict = False, "sat"
				o.Note = "the children expression renders " + id.Name + ", which is read from the context inside a block closure (where the slot has been cleared), not the children the enclosing template received: they are not rendered where the template places its slot"
			}
			r.e.addObl(o)
			return true
		})
	}
}

// cssHoisting (C12, before-use half for component classes): the generator declares the items of a class expression
// as  var v = []any{...}  and must hand exactly that variable to templ.RenderCSSItems before the attribute is written
// from templ.CSSClasses(v) - earlier in the statement list of the use or of a statement list that encloses it, so that it runs whenever the use runs, whatever happened in
// branches or loops before. One obligation per use.
func (r *Run) cssHoisting(closures []*genClosure) {
	for _, gc := range closures {
		info := gc.pkg.TypesInfo
		k := 0
		var visitList func(list []ast.Stmt, outer map[types.Object]bool)
		var visit func(n ast.Node, hoisted map[types.Object]bool)
		visitList = func(list []ast.Stmt, outer map[types.Object]bool) {
			// what an enclosing statement list has handed over before this point dominates every use in here
			hoisted := map[types.Object]bool{}
			for k, v := range outer {
				hoisted[k] = v
			}
			for _, st := range list {
				// templ_7745c5c3_Err = templ.RenderCSSItems(ctx, buf, v...)
				if as, ok := st.(*ast.AssignStmt); ok && len(as.Rhs) == 1 {
					if call, ok := ast.Unparen(as.Rhs[0]).(*ast.CallExpr); ok {
						if f := calleeFunc(info, call); f != nil && f.FullName() == modulePath+".RenderCSSItems" && call.Ellipsis.IsValid() && len(call.Args) == 3 {
							if id, ok := ast.Unparen(call.Args[2]).(*ast.Ident); ok && info.Uses[id] != nil {
								hoisted[info.Uses[id]] = true
							}
						}
					}
				}
				// uses in this statement itself (not inside nested statement lists, which are visited on their own)
				ast.Inspect(st, func(n ast.Node) bool {
					switch n.(type) {
					case *ast.BlockStmt, *ast.FuncLit, *ast.CaseClause:
						return false
					}
					call, ok := n.(*ast.CallExpr)
					if !ok || len(call.Args) != 1 {
						return true
					}
					tv, ok := info.Types[call.Fun]
					if !ok || !tv.IsType() || types.TypeString(tv.Type, nil) != modulePath+".CSSClasses" {
						return true
					}
					id, ok := ast.Unparen(call.Args[0]).(*ast.Ident)
					if !ok || info.Uses[id] == nil {
						return true
					}
					k++
					pos := gc.pkg.Fset.Position(call.Pos())
					o := &Obligation{Name: fmt.Sprintf("%s#csshoist.%d", gc.name, k), Kind: "site", Func: gc.name, Goal: True, Verdict: "unsat", Solver: "engine", Pos: fmt.Sprintf("%s:%d", pos.Filename, pos.Line),
						Note: "the class items " + id.Name + " are handed to templ.RenderCSSItems in the statement list of their use, before it"}
					if !hoisted[info.Uses[id]] {
						o.Goal, o.Verdict = False, "sat"
						o.Note = "the class attribute is written from templ.CSSClasses(" + id.Name + "), but " + id.Name + " is not handed to templ.RenderCSSItems earlier in the statement list of the use (or in one that encloses it): when an earlier occurrence did not run, the class name is used without its rule"
					}
					r.e.addObl(o)
					return true
				})
				visit(st, hoisted)
			}
		}
		visit = func(n ast.Node, hoisted map[types.Object]bool) {
			ast.Inspect(n, func(m ast.Node) bool {
				if m == n {
					return true
				}
				switch x := m.(type) {
				case *ast.FuncLit:
					return false // a block closure is a closure of its own
				case *ast.BlockStmt:
					visitList(x.List, hoisted)
					return false
				case *ast.CaseClause:
					visitList(x.Body, hoisted)
					return false
				}
				return true
			})
		}
		visitList(gc.lit.Body.List, nil)
	}
}
