package main

import "strings"

// C20 replay: the real Handler.modifyResponse on responses of every kind the
// property names (skip marker, non-HTML, identity / gzip / br / unsupported
// encodings, CSP nonces).

const c20Harness = `package proxy

import (
	"bytes"
	"compress/gzip"
	"fmt"
	"io"
	"log/slog"
	"net/http"
	"net/url"
	"strconv"
	"strings"
	"testing"

	"github.com/andybalholm/brotli"
	"golang.org/x/net/html"
)

// verifDOM renders the parsed document with every reload script removed, and says how many there were and whether
// each was the last child of the body element.
func verifDOM(doc string) (rendered string, scripts int, lastOfBody bool) {
	root, err := html.Parse(strings.NewReader(doc))
	if err != nil {
		return "", -1, false
	}
	lastOfBody = true
	var walk func(n *html.Node)
	walk = func(n *html.Node) {
		for c := n.FirstChild; c != nil; {
			next := c.NextSibling
			isReload := false
			if c.Type == html.ElementNode && c.Data == "script" {
				for _, a := range c.Attr {
					if a.Key == "src" && strings.Contains(a.Val, "/_templ/reload/script.js") {
						isReload = true
					}
				}
			}
			if isReload {
				scripts++
				if !(n.Type == html.ElementNode && n.Data == "body" && c.NextSibling == nil) {
					lastOfBody = false
				}
				n.RemoveChild(c)
			} else {
				walk(c)
			}
			c = next
		}
	}
	walk(root)
	var b bytes.Buffer
	html.Render(&b, root)
	return b.String(), scripts, lastOfBody
}

func verifResp(hdr map[string]string, body []byte) *http.Response {
	u, _ := url.Parse("http://localhost/page")
	r := &http.Response{StatusCode: 200, Header: http.Header{}, Body: io.NopCloser(bytes.NewReader(body)), ContentLength: int64(len(body)),
		Request: &http.Request{Method: "GET", URL: u, Header: http.Header{}}}
	for k, v := range hdr {
		r.Header.Set(k, v)
	}
	r.Header.Set("Content-Length", strconv.Itoa(len(body)))
	return r
}

func verifEncode(enc string, doc string) []byte {
	var b bytes.Buffer
	switch enc {
	case "gzip":
		w := gzip.NewWriter(&b)
		w.Write([]byte(doc))
		w.Close()
	case "br":
		w := brotli.NewWriter(&b)
		w.Write([]byte(doc))
		w.Close()
	default:
		b.WriteString(doc)
	}
	return b.Bytes()
}

func verifDecode(enc string, data []byte) (string, error) {
	switch enc {
	case "gzip":
		zr, err := gzip.NewReader(bytes.NewReader(data))
		if err != nil {
			return "", err
		}
		out, err := io.ReadAll(zr)
		return string(out), err
	case "br":
		out, err := io.ReadAll(brotli.NewReader(bytes.NewReader(data)))
		return string(out), err
	}
	return string(data), nil
}

func TestVerifReplayC20(t *testing.T) {
	target, _ := url.Parse("http://localhost:1")
	h := New(slog.New(slog.NewTextHandler(io.Discard, nil)), "localhost", 0, target)
	seen := map[string]bool{}
	report := func(tag, msg string) {
		if !seen[tag] {
			seen[tag] = true
			fmt.Println("REPLAY-CONFIRMED [" + tag + "] " + strings.ReplaceAll(msg, "\n", "\\n"))
		}
	}
	doc := "<html><head><title>é</title></head><body>" + strings.Repeat("<p>日本語 &amp; text that compresses well</p>", 60) + "<script>var x = 1;</script></body></html>"
	// 1. pass-through cases: byte-identical body, same headers, same length
	type pt struct {
		name string
		hdr  map[string]string
		body []byte
	}
	opaque := []byte{0x28, 0xb5, 0x2f, 0xfd, 0x00, 0x58, 0x3c, 0x62, 0x6f, 0x64, 0x79, 0x3e, 0xff, 0xfe, 0x00, 0x01}
	pts := []pt{
		{"skip marker", map[string]string{"Content-Type": "text/html", "templ-skip-modify": "true"}, []byte(doc)},
		{"non-HTML", map[string]string{"Content-Type": "application/json"}, []byte("{\"a\":\"<body></body>\"}")},
		{"unsupported encoding zstd", map[string]string{"Content-Type": "text/html; charset=utf-8", "Content-Encoding": "zstd"}, opaque},
		{"unsupported encoding deflate", map[string]string{"Content-Type": "text/html", "Content-Encoding": "deflate"}, opaque},
		{"unsupported encoding on HTML text", map[string]string{"Content-Type": "text/html", "Content-Encoding": "compress"}, []byte("<p>x")},
	}
	for _, c := range pts {
		r := verifResp(c.hdr, c.body)
		before := r.Header.Clone()
		err := h.modifyResponse(r)
		got, _ := io.ReadAll(r.Body)
		tag := "passthrough"
		if strings.Contains(c.name, "unsupported") {
			tag = "unsupported-encoding"
		}
		if err != nil || !bytes.Equal(got, c.body) || r.ContentLength != int64(len(c.body)) || fmt.Sprint(before) != fmt.Sprint(r.Header) {
			report(tag, fmt.Sprintf("%s (%v): the response must pass through byte-identical, but the body went from %q to %q, Content-Length header %q -> %q (err=%v)", c.name, c.hdr, c.body, got, before.Get("Content-Length"), r.Header.Get("Content-Length"), err))
		}
	}
	// 2. rewritten responses: the length field and header describe the bytes sent, the encoding header still describes them,
	// the decoded document has exactly one more script element, carrying the nonce when there is one
	identityOut := map[string]string{}
	for _, enc := range []string{"", "gzip", "br"} {
		for _, csp := range []string{"", "default-src 'self'; script-src 'self' 'nonce-abc123'", "script-src 'nonce-n1' 'nonce-n2'; img-src *", "script-src 'nonce' nonce- 'n'", "default-src 'self' 'nonce-STYLE'; img-src *; script-src 'self' 'nonce-abc123'", "default-src 'nonce-STYLE'; script-src 'self'", "style-src 'nonce-STYLE'"} {
			hdr := map[string]string{"Content-Type": "text/html; charset=utf-8"}
			if enc != "" {
				hdr["Content-Encoding"] = enc
			}
			if csp != "" {
				hdr["Content-Security-Policy"] = csp
			}
			r := verifResp(hdr, verifEncode(enc, doc))
			var perr interface{}
			err := func() (err error) {
				defer func() { perr = recover() }()
				return h.modifyResponse(r)
			}()
			if perr != nil {
				report("rewrite", fmt.Sprintf("encoding %q csp %q: modifyResponse panics: %v", enc, csp, perr))
				continue
			}
			if err != nil {
				report("rewrite", fmt.Sprintf("encoding %q csp %q: error %v", enc, csp, err))
				continue
			}
			sent, _ := io.ReadAll(r.Body)
			if r.ContentLength != int64(len(sent)) || r.Header.Get("Content-Length") != strconv.Itoa(len(sent)) {
				report("rewrite", fmt.Sprintf("encoding %q: %d bytes sent but ContentLength=%d, Content-Length header %q", enc, len(sent), r.ContentLength, r.Header.Get("Content-Length")))
			}
			if r.Header.Get("Content-Encoding") != enc {
				report("rewrite", fmt.Sprintf("encoding %q: Content-Encoding header became %q", enc, r.Header.Get("Content-Encoding")))
			}
			out, err := verifDecode(enc, sent)
			if err != nil {
				report("rewrite", fmt.Sprintf("encoding %q: the bytes sent do not decode: %v", enc, err))
				continue
			}
			// the browser must decode the same document whatever the encoding was
			if enc == "" {
				identityOut[csp] = out
			} else if want, ok := identityOut[csp]; ok && out != want {
				report("rewrite", fmt.Sprintf("encoding %q csp %q: the decoded document (%d bytes) differs from the one sent for the identity encoding (%d bytes): it ends in %q", enc, csp, len(out), len(want), out[max(0, len(out)-60):]))
			}
			if strings.Count(out, "<script") != strings.Count(doc, "<script")+1 || !strings.Contains(out, "/_templ/reload/script.js") {
				report("rewrite", fmt.Sprintf("encoding %q: expected exactly one reload script to be added, got %q", enc, out))
			}
			wantNonce := ""
			if strings.Contains(csp, "nonce-abc123") {
				wantNonce = "abc123"
			} else if strings.Contains(csp, "nonce-n1") {
				wantNonce = "n1"
			}
			if wantNonce != "" && !strings.Contains(out, "nonce=\""+wantNonce+"\"") {
				report("rewrite", fmt.Sprintf("encoding %q csp %q: the reload script does not carry nonce %q: %q", enc, csp, wantNonce, out))
			}
			if wantNonce == "" && strings.Contains(out, "script.js\" nonce=") {
				report("rewrite", fmt.Sprintf("encoding %q: a nonce was added without a CSP nonce: %q", enc, out))
			}
		}
	}
	// 2b. a document without a body element (frameset page): nothing can be inserted, but what is sent must still be
	// described by its headers and decode under the announced encoding to the original document
	{
		fs := "<!DOCTYPE html><html><head><title>frames</title></head><frameset cols=\"50%,50%\"><frame src=\"a.html\"><frame src=\"b.html\"></frameset></html>"
		for _, enc := range []string{"", "gzip", "br"} {
			hdr := map[string]string{"Content-Type": "text/html; charset=utf-8"}
			if enc != "" {
				hdr["Content-Encoding"] = enc
			}
			r := verifResp(hdr, verifEncode(enc, fs))
			if err := h.modifyResponse(r); err != nil {
				continue
			}
			sent, _ := io.ReadAll(r.Body)
			if r.ContentLength != int64(len(sent)) || r.Header.Get("Content-Length") != strconv.Itoa(len(sent)) {
				report("rewrite", fmt.Sprintf("frameset page, encoding %q: %d bytes sent but ContentLength=%d, Content-Length header %q", enc, len(sent), r.ContentLength, r.Header.Get("Content-Length")))
			}
			out, err := verifDecode(r.Header.Get("Content-Encoding"), sent)
			if err != nil || !strings.Contains(out, "<frameset") {
				report("rewrite", fmt.Sprintf("frameset page, encoding %q: the bytes sent (%q...) do not decode under the announced encoding %q to the document: %v", enc, sent[:min(len(sent), 24)], r.Header.Get("Content-Encoding"), err))
			}
		}
	}
	// 3. HTMX requests are marked
	{
		rt := &roundTripper{}
		req := &http.Request{Header: http.Header{}}
		req.Header.Set("HX-Request", "true")
		resp := verifResp(map[string]string{"Content-Type": "text/html"}, []byte(doc))
		rt.setShouldSkipResponseModificationHeader(req, resp)
		if err := h.modifyResponse(resp); err != nil {
			report("htmx", fmt.Sprintf("error %v", err))
		}
		got, _ := io.ReadAll(resp.Body)
		if string(got) != doc {
			report("htmx", fmt.Sprintf("the response to an HX-Request must pass through, got %q", got))
		}
	}
	// 2c. documents in which the text of a body end tag also occurs where it is not a tag (script string, comment,
	// textarea, attribute value), or in which end tags are omitted: the parsed result must be the parsed original
	// plus one reload script as the last child of body
	for _, d := range []string{
		"<html><head></head><body><p>x</p><script>console.log(\"<body></body>\")</script>",
		"<html><body><p>x</p></body></html><!-- old: <body>...</body> -->",
		"<body><textarea></body></textarea><p>after</p>",
		"<html><body><a title=\"</body>\">x</a></body></html>",
		"<p>no body tag at all",
		"<html><body><p>one</p></BODY ></html>",
	} {
		for _, enc := range []string{"", "gzip"} {
			hdr := map[string]string{"Content-Type": "text/html"}
			if enc != "" {
				hdr["Content-Encoding"] = enc
			}
			r := verifResp(hdr, verifEncode(enc, d))
			if err := h.modifyResponse(r); err != nil {
				report("rewrite", fmt.Sprintf("document %q encoding %q: error %v", d, enc, err))
				continue
			}
			sent, _ := io.ReadAll(r.Body)
			out, err := verifDecode(enc, sent)
			if err != nil {
				report("rewrite", fmt.Sprintf("document %q encoding %q: the bytes sent do not decode: %v", d, enc, err))
				continue
			}
			want, _, _ := verifDOM(d)
			got, n, last := verifDOM(out)
			if n != 1 || !last || got != want {
				report("rewrite", fmt.Sprintf("document %q encoding %q is rewritten to %q: parsed, it holds %d reload script elements (as the last child of body: %v) and the rest of the document is %q, want exactly one, last in body, and %q", d, enc, out, n, last, got, want))
			}
		}
	}
	if len(seen) == 0 {
		fmt.Println("REPLAY-NOT-REPRODUCED bounded search: 6 documents with body end tags in non-tag positions / omitted end tags in 2 encodings, 5 pass-through responses, 3 encodings x 7 CSP shapes rewritten and decoded, a frameset page in 3 encodings, 1 HTMX request")
	}
}
`

func replayC20(r *Run, o *Obligation) *ReplayResult {
	if r.replayOut == nil {
		r.replayOut = map[string]string{}
	}
	out, ok := r.replayOut["C20"]
	if !ok {
		out, _ = r.runReplayTest("cmd/templ/generatecmd/proxy", c20Harness, map[string]string{}, "TestVerifReplayC20")
		r.replayOut["C20"] = out
	}
	input := "the real Handler.modifyResponse on pass-through and rewritten responses"
	// an obligation of the pass-through clauses is confirmed by a pass-through discrepancy, the others by a rewrite one
	want := []string{"[rewrite]"}
	if strings.Contains(o.Name, "modifyResponse#") {
		switch {
		case strings.Contains(o.Name, "ensures.3"):
			want = []string{"[unsupported-encoding]"}
		case strings.Contains(o.Name, "ensures.5"), strings.Contains(o.Name, "ensures.4"):
			want = []string{"[rewrite]"}
		case strings.Contains(o.Name, "ensures.1"), strings.Contains(o.Name, "ensures.2"):
			want = []string{"[passthrough]"}
		}
	}
	if strings.Contains(o.Name, "setShouldSkip") {
		want = []string{"[htmx]"}
	}
	for _, w := range want {
		for _, line := range strings.Split(out, "\n") {
			if strings.Contains(line, "REPLAY-CONFIRMED "+w) {
				return &ReplayResult{Confirmed: true, Input: input, Detail: strings.TrimSpace(line)}
			}
		}
	}
	_, detail := replayVerdict(out)
	if strings.Contains(detail, "REPLAY-CONFIRMED") {
		detail = "REPLAY-NOT-REPRODUCED no discrepancy of the kind this obligation is about (" + strings.Join(want, " ") + ") on the bounded set"
	}
	return &ReplayResult{Confirmed: false, Input: input, Detail: detail}
}
