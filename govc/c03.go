package main

import (
	"encoding/json"
	"fmt"
	"strconv"
	"strings"
)

// jsUnescape decodes a string-literal body made of pass-through bytes and escapes.
func jsUnescape(s string) (string, bool) {
	var out []byte
	for i := 0; i < len(s); {
		if s[i] != '\\' {
			out = append(out, s[i])
			i++
			continue
		}
		n := 2
		if i+1 < len(s) && s[i+1] == 'u' {
			n = 6
		} else if i+1 < len(s) && s[i+1] == 'x' {
			n = 4
		}
		if i+n > len(s) {
			return "", false
		}
		v := jsUnitValue(s[i : i+n])
		if v < 0 {
			return "", false
		}
		out = append(out, []byte(string(rune(v)))...)
		i += n
	}
	return string(out), true
}

// replayC03Calls: script template / JSFuncCall arguments. The real JSFuncCall is rendered as a component (inline
// call inside a <script> element) and its Call is placed in an on* attribute; the outputs are read back the way the
// HTML tokenizer reads script data and a double-quoted attribute value.
func replayC03Calls(r *Run, o *Obligation) *ReplayResult {
	alpha := []string{"<", "/", ">", "!", "-", "&", "\"", "'", "script", "a", " ", "\\"}
	ins := enumStrings(alpha, 3)
	ins = append(ins, "</script>", "</script><script>alert(1)</script>", "<!--<script>", "&quot;", "\" onmouseover=\"x", "é😀\xff", "</SCRIPT >")
	outs, err := r.evalStringFunc(".", "templ", "\"bytes\"\n\"context\"", `func(s string) string {
		c := JSFuncCall("handle", s, []string{s}, map[string]any{"k": s})
		var b bytes.Buffer
		if err := c.Render(context.Background(), &b); err != nil { panic(err) }
		return b.String() + "\x00" + c.Call
	}`, ins)
	if err != nil {
		return &ReplayResult{Confirmed: false, Input: "JSFuncCall rendered by the real code", Detail: "REPLAY-NOT-REPRODUCED (replay harness error: " + firstLines(err.Error(), 3) + ")"}
	}
	for i, in := range ins {
		if strings.HasPrefix(outs[i], "PANIC:") {
			continue
		}
		parts := strings.SplitN(outs[i], "\x00", 2)
		if len(parts) != 2 {
			continue
		}
		el, call := parts[0], parts[1]
		body, ok := strings.CutPrefix(el, "<script>")
		body, ok2 := strings.CutSuffix(body, "</script>")
		if !ok || !ok2 || !reMatch(r.e.langs.Get("NO_SCRIPT_END"), body) {
			return &ReplayResult{Confirmed: true, Input: "bounded search: " + strconv.Quote(in), Detail: fmt.Sprintf("REPLAY-CONFIRMED templ.JSFuncCall(\"handle\", %s, ...) rendered as a component writes %s: the argument ends the script element or opens an HTML comment inside it", strconv.Quote(in), strconv.Quote(el))}
		}
		if !reMatch(r.e.langs.Get("DQ_ATTR_SAFE"), call) {
			return &ReplayResult{Confirmed: true, Input: "bounded search: " + strconv.Quote(in), Detail: fmt.Sprintf("REPLAY-CONFIRMED templ.JSFuncCall(\"handle\", %s, ...).Call = %s cannot be placed in a double-quoted on* attribute (not in DQ_ATTR_SAFE)", strconv.Quote(in), strconv.Quote(call))}
		}
	}
	return &ReplayResult{Confirmed: false, Input: fmt.Sprintf("bounded search over %d argument strings (HTML/JS-adversarial alphabet, length <= 3, plus known vectors), each as a string, in a slice and in a map", len(ins)), Detail: "REPLAY-NOT-REPRODUCED"}
}

// replayC03Contexts: sink obligations of the corpus directory script-contexts are replayed with the oracle that ships
// with it (an independent JavaScript lexer over the rendered script, adversarial values).
func replayC03Contexts(r *Run, o *Obligation) *ReplayResult {
	if r.replayOut == nil {
		r.replayOut = map[string]string{}
	}
	out, ok := r.replayOut["C03contexts"]
	if !ok {
		out, _ = r.runCorpusTest("x_script_contexts", "TestVerifReplayC03Contexts")
		r.replayOut["C03contexts"] = out
	}
	input := "corpus/script-contexts rendered by the generated code with adversarial values, read by an independent JavaScript lexer"
	if !strings.Contains(out, "SINKS-DONE") {
		return &ReplayResult{Input: input, Detail: "REPLAY-NOT-REPRODUCED (replay harness error: " + firstLines(out, 4) + ")"}
	}
	name := strings.TrimPrefix(o.Name, "x_script_contexts.")
	tmpl, rest, _ := strings.Cut(name, "$")
	ord := ""
	if k := strings.Index(rest, "#sink."); k >= 0 {
		ord = rest[k+len("#sink."):]
	}
	for _, l := range strings.Split(out, "\n") {
		if d, ok := strings.CutPrefix(l, "SINK "+tmpl+" "+ord+" CONFIRMED "); ok {
			return &ReplayResult{Confirmed: true, Input: input, Detail: "REPLAY-CONFIRMED template " + tmpl + ": " + d}
		}
	}
	return &ReplayResult{Input: input, Detail: "REPLAY-NOT-REPRODUCED the value written at this sink reads back as data for all adversarial values tried"}
}

// replayC03JSONScript: the JSON script element on strings that are themselves JSON documents, HTML-hostile ones among
// them: the body must not end the element or open a comment, and must decode back to the string.
func replayC03JSONScript(r *Run) *ReplayResult {
	ins := []string{"plain", "{\"comment\":\"</script><script>alert(document.cookie)</script>\"}", "[\"<!--<script>\"]", " {\"a\":1} ", "[1,2]", "\"quoted\"", "</script>", "<!--", "{\"a\":\"&\"}", "{}", "[]", "null", "{\"a\":\"\u2028\"}"}
	outs, err := r.evalStringFunc(".", "templ", "\"bytes\"\n\"context\"", `func(s string) string {
		var b bytes.Buffer
		if err := JSONScript("x", s).Render(context.Background(), &b); err != nil { panic(err) }
		return b.String()
	}`, ins)
	input := fmt.Sprintf("templ.JSONScript rendered with %d strings that are JSON documents / HTML-hostile", len(ins))
	if err != nil {
		return &ReplayResult{Input: input, Detail: "REPLAY-NOT-REPRODUCED (replay harness error: " + firstLines(err.Error(), 3) + ")"}
	}
	for i, in := range ins {
		out := outs[i]
		body, ok := strings.CutPrefix(out, "<script id=\"x\" type=\"application/json\">")
		body, ok2 := strings.CutSuffix(body, "</script>")
		var back string
		uerr := json.Unmarshal([]byte(body), &back)
		if !ok || !ok2 || !reMatch(r.e.langs.Get("NO_SCRIPT_END"), body) || uerr != nil || back != in {
			return &ReplayResult{Confirmed: true, Input: input, Detail: fmt.Sprintf("REPLAY-CONFIRMED templ.JSONScript(\"x\", %s) renders %s: the body ends the element / opens a comment, or does not decode back to the string (decoded %s, err %v)", strconv.Quote(in), strconv.Quote(out), strconv.Quote(back), uerr)}
		}
	}
	return &ReplayResult{Input: input, Detail: "REPLAY-NOT-REPRODUCED every string arrives as a JSON string inside one script element"}
}

func replayC03(r *Run, o *Obligation) *ReplayResult {
	if strings.HasPrefix(o.Name, "templ.JSONScriptElement") {
		return replayC03JSONScript(r)
	}
	if strings.HasPrefix(o.Name, "x_script_contexts.") && strings.Contains(o.Name, "#sink.") {
		return replayC03Contexts(r, o)
	}
	if strings.Contains(o.Name, "scriptElementParser") || strings.HasPrefix(o.Name, "v2.") || strings.HasPrefix(o.Name, "parser.") {
		return replayC03Quotes(r)
	}
	if strings.HasPrefix(o.Name, "templ.") || strings.HasPrefix(o.Name, "lemma:inl_") || strings.HasPrefix(o.Name, "lemma:dq_") {
		return replayC03Calls(r, o)
	}
	langs := []string{"SAFE_IN_SQ", "SAFE_IN_DQ", "SAFE_IN_BACKTICK", "NO_SCRIPT_END"}
	replayErr := ""
	check := func(ins []string) (string, string, bool) {
		outs, err := r.evalStringFunc("runtime", "runtime", "", `func(s string) string { r, err := ScriptContentInsideStringLiteral(s); if err != nil { panic(err) }; return r }`, ins)
		if err != nil {
			replayErr = err.Error()
			return "", err.Error(), false
		}
		for i, in := range ins {
			if strings.HasPrefix(outs[i], "PANIC:") {
				return in, "panic / error: " + outs[i], true
			}
			for _, l := range langs {
				if !reMatch(r.e.langs.Get(l), outs[i]) {
					return in, fmt.Sprintf("ScriptContentInsideStringLiteral(%s) = %s is not in %s", strconv.Quote(in), strconv.Quote(outs[i]), l), true
				}
			}
			if back, ok := jsUnescape(outs[i]); !ok || back != in {
				if strings.ToValidUTF8(in, "�") == in {
					return in, fmt.Sprintf("ScriptContentInsideStringLiteral(%s) = %s does not evaluate back to the input (got %s)", strconv.Quote(in), strconv.Quote(outs[i]), strconv.Quote(back)), true
				}
			}
		}
		return "", "", false
	}
	if o.HasWitness {
		// the witness is a member of the output language: map escape units back to their runes
		cands := []string{o.Witness}
		if back, ok := jsUnescape(o.Witness); ok && back != o.Witness {
			cands = append(cands, back)
		}
		if in, detail, bad := check(cands); bad {
			return &ReplayResult{Confirmed: true, Input: "language-lemma witness mapped to input " + strconv.Quote(in), Detail: "REPLAY-CONFIRMED " + detail}
		}
	}
	alpha := []string{"'", "\"", "`", "\\", "<", "/", "$", "{", "\n", "\r", "&", "a", " ", "\x00", "\xff", "-", "!", "+", "\x1f", "\x7f"}
	ins := enumStrings(alpha, 3)
	ins = append(ins, "</script>", "<!--", "${alert(1)}", "\\u0041", "a\\", " x", "é😀", "]]>", "\t\v\f\b")
	if in, detail, bad := check(ins); bad {
		return &ReplayResult{Confirmed: true, Input: "bounded search: " + strconv.Quote(in), Detail: "REPLAY-CONFIRMED " + detail}
	}
	return &ReplayResult{Confirmed: false, Input: fmt.Sprintf("bounded search over %d strings (JS-adversarial alphabet, length <= 3, plus known vectors)", len(ins)), Detail: "REPLAY-NOT-REPRODUCED" + map[bool]string{true: " (replay harness error: " + firstLines(replayErr, 3) + ")", false: ""}[replayErr != ""]}
}

// C03, quote state: the parser decides for every {{ }} in a script element whether it sits inside a JavaScript string
// literal (which picks the escaper). scriptElementParser is outside the executor's subset, so this is a bounded
// stand-in (quick tier too): script texts built from literals of the three kinds with escaped quotes, escaped
// backslashes and comments, with a Go expression at every position; an independent lexer says what each position is.
const c03QuoteHarness = `package parser

import (
	"fmt"
	"strings"
	"testing"
)

// verifInsideLiteral: is offset off of js inside a '...', "..." or backtick literal (comments skipped)?
func verifInsideLiteral(js string, off int) bool {
	var q byte
	for i := 0; i < off && i < len(js); i++ {
		c := js[i]
		if q != 0 {
			if c == '\\' {
				i++
				continue
			}
			if c == q {
				q = 0
			}
			continue
		}
		switch {
		case c == '\'' || c == '"' || c == 0x60:
			q = c
		case c == '/' && i+1 < len(js) && js[i+1] == '/':
			for i < len(js) && js[i] != '\n' {
				i++
			}
		case c == '/' && i+1 < len(js) && js[i+1] == '*':
			j := strings.Index(js[i+2:], "*/")
			if j < 0 {
				return false
			}
			i += j + 3
		}
	}
	return q != 0
}

func TestVerifReplayC03Quotes(t *testing.T) {
	pieces := []string{"var a = ", "'it\\'s '", "\"say \\\"hi\\\" \"", "\x60tick \\\x60 \x60", "'back\\\\'", "\"q'\"", "'d\"'", " + ", "// it's a comment\n", "/* \" */", ";\n", "'tail'"}
	n := 0
	for i := range pieces {
		for j := range pieces {
			for k := range pieces {
				parts := []string{pieces[i], pieces[j], pieces[k]}
				// a Go expression after each piece and inside each literal piece (after its first character and before its last)
				var variants []string
				for at := 0; at <= 3; at++ {
					variants = append(variants, strings.Join(parts[:at], "")+"{{ v }}"+strings.Join(parts[at:], ""))
				}
				for at := 0; at < 3; at++ {
					p := parts[at]
					if len(p) > 2 && (p[0] == '\'' || p[0] == '"' || p[0] == 0x60) {
						variants = append(variants, strings.Join(parts[:at], "")+p[:1]+"{{ v }}"+p[1:]+strings.Join(parts[at+1:], ""))
						variants = append(variants, strings.Join(parts[:at], "")+p[:len(p)-1]+"{{ v }}"+p[len(p)-1:]+strings.Join(parts[at+1:], ""))
					}
				}
				for _, js := range variants {
					src := "package p\n\ntempl t(v string) {\n\t<script>\n" + js + "\n</script>\n}\n"
					tf, err := ParseString(src)
					if err != nil {
						continue
					}
					want := verifInsideLiteral(strings.Replace(js, "{{ v }}", "", 1), strings.Index(js, "{{ v }}"))
					var got *bool
					for _, nd := range tf.Nodes {
						if ht, ok := nd.(HTMLTemplate); ok {
							for _, c := range ht.Children {
								if se, ok := c.(ScriptElement); ok {
									for _, sc := range se.Contents {
										if sc.GoCode != nil {
											b := sc.InsideStringLiteral
											got = &b
										}
									}
								}
							}
						}
					}
					if got == nil {
						continue
					}
					n++
					if *got != want {
						fmt.Printf("REPLAY-CONFIRMED script %q: the Go expression is %s a string literal, the parser marks it as %s (the value would be written with the wrong escaper)\n", js, map[bool]string{true: "inside", false: "outside"}[want], map[bool]string{true: "inside", false: "outside"}[*got])
						return
					}
				}
			}
		}
	}
	fmt.Printf("REPLAY-NOT-REPRODUCED bounded search: %d script texts (3 pieces out of 12: literals of the three kinds with escaped quotes and backslashes, comments, code) with a Go expression at every position agree with an independent lexer\n", n)
}
`

func replayC03Quotes(r *Run) *ReplayResult {
	if r.replayOut == nil {
		r.replayOut = map[string]string{}
	}
	out, ok := r.replayOut["C03quotes"]
	if !ok {
		out, _ = r.runReplayTest("parser/v2", c03QuoteHarness, map[string]string{}, "TestVerifReplayC03Quotes")
		r.replayOut["C03quotes"] = out
	}
	okc, detail := replayVerdict(out)
	return &ReplayResult{Confirmed: okc, Input: "script elements parsed by the real parser, quote state compared with an independent lexer", Detail: detail}
}
