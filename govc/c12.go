package main

import "strings"

// C12 replay (bounded): the real registry functions.
//  [css-forms] every item form that templ.CSSClasses turns into the name of a component class must get that
//              class's rule emitted by RenderCSSItems in a fresh context;
//  [once]      a script / class / once handle is emitted at most once per context however often it is used,
//              and contexts are independent.

const c12Harness = `package templ

import (
	"bytes"
	"context"
	"fmt"
	"io"
	"net/http/httptest"
	"strings"
	"testing"
)

func TestVerifReplayC12(t *testing.T) {
	seen := map[string]bool{}
	report := func(tag, msg string) {
		if !seen[tag] {
			seen[tag] = true
			fmt.Println("REPLAY-CONFIRMED [" + tag + "] " + strings.ReplaceAll(msg, "\n", "\\n"))
		}
	}
	cc := ComponentCSSClass{ID: "red_1234", Class: SafeCSS(".red_1234{color:red;}")}
	type form struct {
		name string
		v    any
	}
	forms := []form{
		{"ComponentCSSClass", cc},
		{"KeyValue[CSSClass,bool]", KV(CSSClass(cc), true)},
		{"[]KeyValue[CSSClass,bool]", []KeyValue[CSSClass, bool]{KV(CSSClass(cc), true)}},
		{"[]CSSClass", []CSSClass{cc}},
		{"CSSClasses", CSSClasses{cc}},
		{"func() CSSClass", func() CSSClass { return cc }},
		{"CSSClasses{[]KeyValue[CSSClass,bool]}", CSSClasses{[]KeyValue[CSSClass, bool]{KV(CSSClass(cc), true)}}},
		{"CSSClasses{CSSClasses{KV}}", CSSClasses{CSSClasses{KV(CSSClass(cc), true)}}},
	}
	for _, f := range forms {
		ctx := InitializeContext(context.Background())
		var b bytes.Buffer
		if err := RenderCSSItems(ctx, &b, f.v); err != nil {
			report("css-forms", fmt.Sprintf("%s: error %v", f.name, err))
			continue
		}
		names := CSSClasses{f.v}.String()
		if strings.Contains(names, cc.ID) && !strings.Contains(b.String(), string(cc.Class)) {
			report("css-forms", fmt.Sprintf("class item of form %s: the class attribute uses %q but RenderCSSItems emitted %q - the rule of the component class is never written", f.name, names, b.String()))
		}
		// second use in the same context: nothing more is emitted
		var b2 bytes.Buffer
		RenderCSSItems(ctx, &b2, f.v)
		if strings.Contains(b2.String(), string(cc.Class)) {
			report("once", fmt.Sprintf("class item of form %s: rule emitted a second time in the same context", f.name))
		}
	}
	// scripts: same script several times in one call, across calls, in two contexts
	s1 := ComponentScript{Name: "__templ_a_1", Function: "function __templ_a_1(){}", Call: "__templ_a_1()", CallInline: "__templ_a_1()"}
	s2 := ComponentScript{Name: "__templ_b_2", Function: "function __templ_b_2(){}", Call: "__templ_b_2()", CallInline: "__templ_b_2()"}
	for _, seq := range [][][]ComponentScript{{{s1, s1}}, {{s1}, {s1}}, {{s1, s2}, {s2, s1}, {s1}}, {{s2}, {s1, s2, s1}}} {
		ctx := InitializeContext(context.Background())
		var all bytes.Buffer
		for _, call := range seq {
			if err := RenderScriptItems(ctx, &all, call...); err != nil {
				report("once", fmt.Sprintf("RenderScriptItems: %v", err))
			}
		}
		for _, s := range []ComponentScript{s1, s2} {
			used := false
			for _, call := range seq {
				for _, x := range call {
					if x.Name == s.Name {
						used = true
					}
				}
			}
			n := strings.Count(all.String(), s.Function)
			if used && n != 1 {
				report("once", fmt.Sprintf("script %s used in the call sequence %v of one context is defined %d times: %q", s.Name, seq, n, all.String()))
			}
		}
		// an independent context emits again
		var other bytes.Buffer
		RenderScriptItems(InitializeContext(context.Background()), &other, s1)
		if strings.Count(other.String(), s1.Function) != 1 {
			report("once", "a fresh context did not emit the script definition")
		}
	}
	// one render, one registry: a layout that is given a block (the calls generated code makes, in its order) and the
	// page around it see the same record of what was emitted
	{
		cls := ComponentCSSClass{ID: "shared_1", Class: SafeCSS(".shared_1{color:green;}")}
		block := ComponentFunc(func(ctx context.Context, w io.Writer) error {
			ctx = InitializeContext(ctx)
			return RenderCSSItems(ctx, w, cls)
		})
		layout := ComponentFunc(func(ctx context.Context, w io.Writer) error {
			ctx = InitializeContext(ctx)
			children := GetChildren(ctx)
			ctx = ClearChildren(ctx)
			return children.Render(ctx, w)
		})
		page := ComponentFunc(func(ctx context.Context, w io.Writer) error {
			ctx = InitializeContext(ctx)
			if err := layout.Render(WithChildren(ctx, block), w); err != nil {
				return err
			}
			if err := RenderCSSItems(ctx, w, cls); err != nil {
				return err
			}
			return RenderScriptItems(ctx, w, s1)
		})
		var b bytes.Buffer
		if err := page.Render(context.Background(), &b); err != nil || strings.Count(b.String(), string(cls.Class)) != 1 {
			report("contexts", fmt.Sprintf("a page that uses class shared_1 inside the block it hands to a layout and again after the layout renders %q (err=%v): the rule must be emitted exactly once in the render", b.String(), err))
		}
	}
	// requests through one CSS middleware are separate contexts: every request gets the same page
	{
		reg := ComponentCSSClass{ID: "reg_1", Class: SafeCSS(".reg_1{color:red;}")}
		inl := ComponentCSSClass{ID: "inl_1", Class: SafeCSS(".inl_1{color:blue;}")}
		page := ComponentFunc(func(ctx context.Context, w io.Writer) error {
			if err := RenderCSSItems(ctx, w, reg, inl); err != nil {
				return err
			}
			return RenderScriptItems(ctx, w, s1)
		})
		mw := NewCSSMiddleware(Handler(page), reg)
		var first string
		for i := 1; i <= 3; i++ {
			rec := httptest.NewRecorder()
			mw.ServeHTTP(rec, httptest.NewRequest("GET", "/", nil))
			got := rec.Body.String()
			if i == 1 {
				first = got
				if strings.Contains(got, string(reg.Class)) || !strings.Contains(got, string(inl.Class)) || !strings.Contains(got, s1.Function) {
					report("contexts", fmt.Sprintf("behind NewCSSMiddleware(_, reg_1) a page using reg_1, inl_1 and script %s renders %q: the registered class must be left to the stylesheet, the other class and the script must be emitted", s1.Name, got))
				}
			} else if got != first {
				report("contexts", fmt.Sprintf("request %d through the same CSS middleware renders %q but request 1 rendered %q: the registry of one request leaks into the next", i, got, first))
			}
		}
	}
	if len(seen) == 0 {
		fmt.Println("REPLAY-NOT-REPRODUCED bounded search: 8 class item forms x 2 uses, 4 script call sequences, independent contexts, 3 requests through one CSS middleware")
	}
}
`

func replayC12(r *Run, o *Obligation) *ReplayResult {
	if r.replayOut == nil {
		r.replayOut = map[string]string{}
	}
	out, ok := r.replayOut["C12"]
	if !ok {
		out, _ = r.runReplayTest(".", c12Harness, map[string]string{}, "TestVerifReplayC12")
		r.replayOut["C12"] = out
	}
	if strings.HasPrefix(o.Name, "x_script_hoisting.") {
		hout, ok := r.replayOut["C12hoist"]
		if !ok {
			hout, _ = r.runCorpusTest("x_script_hoisting", "TestVerifReplayC12Hoist")
			r.replayOut["C12hoist"] = hout
		}
		okc, detail := replayVerdict(hout)
		return &ReplayResult{Confirmed: okc, Input: "corpus template /verif/corpus/script-hoisting rendered by the real generated code and runtime", Detail: detail}
	}
	input := "the real registry functions on 8 class item forms and 4 script call sequences"
	want := "[once]"
	if strings.Contains(o.Name, "renderCSSItemsToBuilder") && strings.Contains(o.Name, "C12-1") {
		want = "[css-forms]"
	}
	if strings.Contains(o.Name, "CSSMiddleware") || strings.Contains(o.Name, "getContext") || strings.Contains(o.Name, "InitializeContext") || strings.Contains(o.Name, "Children") {
		want = "[contexts]"
	}
	for _, line := range strings.Split(out, "\n") {
		if strings.Contains(line, "REPLAY-CONFIRMED "+want) {
			return &ReplayResult{Confirmed: true, Input: input, Detail: strings.TrimSpace(line)}
		}
	}
	_, detail := replayVerdict(out)
	if strings.Contains(detail, "REPLAY-CONFIRMED") {
		detail = "REPLAY-NOT-REPRODUCED no discrepancy of the kind this obligation is about (" + want + ") on the bounded set"
	}
	return &ReplayResult{Confirmed: false, Input: input, Detail: detail}
}
