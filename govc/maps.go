package main

import (
	"go/ast"
	"go/types"
)

func (e *Engine) emptyMap(st *State, m *types.Map) *MapV {
	ks := sortOfType(m.Key())
	ref := Var(e.fresher.name("map.ref"), SInt)
	if st != nil {
		st.Assume(Gt(ref, Int(0)))
	}
	mv := &MapV{Ref: ref, Dom: mk("const-false:"+ks.String(), SArr(ks, SBool)), Val: map[string]*Term{}, K: ks, Elem: m.Elem()}
	mv.Dom = constArray(ks, SBool, False)
	if opaqueElem(m.Elem()) {
		return mv
	}
	for _, leaf := range mapLeaves(m.Elem(), "") {
		mv.Val[leaf.name] = Var(e.fresher.name("map.init"+leaf.name), SArr(ks, leaf.sort))
	}
	return mv
}

func constArray(k, v *Sort, val *Term) *Term {
	return &Term{Op: "constarr", Sort: SArr(k, v), Args: []*Term{val}}
}

// mapGet returns m[k] (zero value when absent).
// opaqueElem: the element type holds pointers or slices the array encoding does not cover (e.g. a struct with a
// time.Time and a []string): the map's domain is tracked, its element values are not - every read gives an unknown.
func opaqueElem(t types.Type) bool {
	var has func(t types.Type, depth int) bool
	has = func(t types.Type, depth int) bool {
		if depth > 4 {
			return true
		}
		switch u := t.Underlying().(type) {
		case *types.Pointer, *types.Slice, *types.Chan:
			return !isStringLike(t)
		case *types.Struct:
			for i := 0; i < u.NumFields(); i++ {
				if has(u.Field(i).Type(), depth+1) {
					return true
				}
			}
		}
		return false
	}
	if _, isPtr := t.Underlying().(*types.Pointer); isPtr {
		return true // a map of pointers: which object a key refers to is not tracked
	}
	if _, isStruct := t.Underlying().(*types.Struct); !isStruct {
		return false
	}
	return has(t, 0)
}

func (ec *evalCtx) mapGet(m *MapV, k *Term) Value {
	if opaqueElem(m.Elem) {
		ec.e().notes = appendUnique(ec.e().notes, "maps whose element type holds pointers or slices inside a struct: domain tracked, element values unknown on every read")
		return ec.e().freshNamed(ec.st, ec.e().fresher.name("mapelem"), m.Elem, 1)
	}
	present := Select(m.Dom, k)
	zero := ec.e().zeroValue(ec.st, m.Elem)
	v := ec.mapLeafRead(m, m.Elem, "", k)
	return mergeValue(present, v, zero)
}

func (ec *evalCtx) mapLeafRead(m *MapV, t types.Type, prefix string, k *Term) Value {
	if im, ok := t.Underlying().(*types.Map); ok {
		inner := &MapV{Ref: Select(m.Val[prefix+"#ref"], k), Dom: Select(m.Val[prefix+"#dom"], k), Val: map[string]*Term{}, K: sortOfType(im.Key()), Elem: im.Elem()}
		for _, l := range mapLeaves(im.Elem(), "") {
			inner.Val[l.name] = Select(m.Val[prefix+"#val"+l.name], k)
		}
		return inner
	}
	if _, ok := t.Underlying().(*types.Interface); ok && !isErrorType(t) {
		return &IfaceV{Tag: Select(m.Val[prefix+"#tag"], k), Id: Select(m.Val[prefix+"#id"], k), Payloads: map[string]Value{}}
	}
	if st, ok := t.Underlying().(*types.Struct); ok && !isStringLike(t) {
		sv := &StructV{F: map[string]Value{}}
		for i := 0; i < st.NumFields(); i++ {
			f := st.Field(i)
			sv.Names = append(sv.Names, f.Name())
			sv.F[f.Name()] = ec.mapLeafRead(m, f.Type(), prefix+"."+f.Name(), k)
		}
		return sv
	}
	arr, ok := m.Val[prefix]
	if !ok {
		panic(unsupported("map leaf %q", prefix))
	}
	raw := Select(arr, k)
	if _, isFn := t.Underlying().(*types.Signature); isFn {
		return &FuncV{Name: "map element", Id: raw, Cands: m.Cands}
	}
	switch t.Underlying().(type) {
	case *types.Pointer:
		panic(unsupported("map with pointer values"))
	case *types.Map:
		panic(unsupported("nested map value read through generic path"))
	}
	return raw
}

func (ec *evalCtx) mapSet(m *MapV, k *Term, v Value) *MapV {
	if opaqueElem(m.Elem) {
		return &MapV{Ref: m.Ref, Dom: Store(m.Dom, k, True), Val: m.Val, K: m.K, Elem: m.Elem, Cands: m.Cands}
	}
	n := &MapV{Ref: m.Ref, Dom: Store(m.Dom, k, True), Val: map[string]*Term{}, K: m.K, Elem: m.Elem, Cands: m.Cands}
	for name, arr := range m.Val {
		n.Val[name] = arr
	}
	var set func(t types.Type, prefix string, v Value)
	set = func(t types.Type, prefix string, v Value) {
		if im, ok := t.Underlying().(*types.Map); ok {
			inner, ok := v.(*MapV)
			if !ok {
				panic(unsupported("map value of kind %T stored as a map", v))
			}
			n.Val[prefix+"#ref"] = Store(n.Val[prefix+"#ref"], k, inner.Ref)
			n.Val[prefix+"#dom"] = Store(n.Val[prefix+"#dom"], k, inner.Dom)
			for _, l := range mapLeaves(im.Elem(), "") {
				n.Val[prefix+"#val"+l.name] = Store(n.Val[prefix+"#val"+l.name], k, inner.Val[l.name])
			}
			return
		}
		if _, ok := t.Underlying().(*types.Interface); ok && !isErrorType(t) {
			iv, ok := v.(*IfaceV)
			if !ok {
				panic(unsupported("map value of kind %T stored as interface", v))
			}
			n.Val[prefix+"#tag"] = Store(n.Val[prefix+"#tag"], k, iv.Tag)
			n.Val[prefix+"#id"] = Store(n.Val[prefix+"#id"], k, iv.Id)
			return
		}
		if st, ok := t.Underlying().(*types.Struct); ok && !isStringLike(t) {
			sv := v.(*StructV)
			for i := 0; i < st.NumFields(); i++ {
				f := st.Field(i)
				set(f.Type(), prefix+"."+f.Name(), sv.F[f.Name()])
			}
			return
		}
		var leaf *Term
		switch x := v.(type) {
		case *Term:
			leaf = x
		case *IfaceV:
			leaf = x.Id
		case *FuncV:
			leaf = x.Id
		default:
			panic(unsupported("map value of kind %T", v))
		}
		n.Val[prefix] = Store(n.Val[prefix], k, leaf)
	}
	set(m.Elem, "", v)
	if _, nested := m.Elem.Underlying().(*types.Map); nested {
		// SSA-style naming: a map of maps is updated through long store/ite chains; give every
		// intermediate state a name so that queries stay small and the solver sees shared structure
		name := func(t *Term) *Term {
			if t == nil || t.Op == "var" {
				return t
			}
			c := Var(ec.e().fresher.name("mapst"), t.Sort)
			ec.st.Assume(Eq(c, t))
			return c
		}
		n.Dom = name(n.Dom)
		for l, arr := range n.Val {
			n.Val[l] = name(arr)
		}
	}
	return n
}

func (ec *evalCtx) mapLen(m *MapV) *Term {
	return App("maplen", SInt, m.Dom)
}

func (fc *FnCtx) execRangeMap(st *State, x *ast.RangeStmt, m *MapV, ls *LoopSpec, n int, keyObj, valObj types.Object) []Outcome {
	// iteration over a map: arbitrary order; the loop is cut with the declared
	// invariants; the body sees an arbitrary key in the domain.
	lbl := fc.labels[x]
	fc.checkInvariants(st, ls, n, "establish", nil, x.Pos())
	targets := fc.assignedIn(x.Body)
	head := st.Clone()
	fc.havoc(head, targets, ls.ModExtra)
	fc.havocGhosts(head, x.Body)
	fc.assumeInvariants(head, ls, nil)
	var outs []Outcome
	body := head.Clone()
	k := Var(fc.e.fresher.name("mapkey"), m.K)
	body.Assume(Select(m.Dom, k))
	if keyObj != nil {
		body.Declare(keyObj, k)
	}
	if valObj != nil {
		ec := fc.ec(body)
		body.Declare(valObj, ec.mapGet(m, k))
	}
	for _, o := range fc.execBlock(body, x.Body.List) {
		switch {
		case o.kind == oFall || (o.kind == oContinue && (o.label == "" || o.label == lbl)):
			fc.checkInvariants(o.st, ls, n, fc.phaseOf(o), nil, x.Pos())
		case o.kind == oBreak && (o.label == "" || o.label == lbl):
			outs = append(outs, Outcome{kind: oFall, st: o.st})
		default:
			outs = append(outs, o)
		}
	}
	exit := head.Clone()
	outs = append(outs, Outcome{kind: oFall, st: exit})
	return outs
}
