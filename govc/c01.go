package main

// C01 replay (bounded): the real runtime sinks on adversarial strings; the output is read back with the HTML5
// tokenizer of golang.org/x/net/html (a dependency of the repository) and must show exactly the attributes / text
// that went in.

import (
	"os"
	"os/exec"
	"path/filepath"
	"strings"
)

const c01Harness = `package templ

import (
	"bytes"
	"context"
	"fmt"
	"strings"
	"testing"

	"golang.org/x/net/html"
)

func verifAttrs(doc string) (string, []html.Attribute, string, bool) {
	z := html.NewTokenizer(strings.NewReader(doc))
	if z.Next() != html.StartTagToken {
		return "", nil, "", false
	}
	tok := z.Token()
	var text strings.Builder
	for {
		tt := z.Next()
		if tt == html.ErrorToken {
			break
		}
		if tt != html.TextToken {
			return tok.Data, tok.Attr, text.String(), false // more markup than was written
		}
		text.WriteString(z.Token().Data)
	}
	return tok.Data, tok.Attr, text.String(), true
}

func TestVerifReplayC01(t *testing.T) {
	alpha := []string{"\"", "'", "<", ">", "&", " ", "=", "/", "a", "&amp;", "&quot;", "&#34;", "&lt;", "\x00", "\xff", "\n", "\t", "é", "-->", "</div>", "\\"}
	var vals []string
	vals = append(vals, "")
	for _, a := range alpha {
		vals = append(vals, a)
		for _, b := range alpha {
			vals = append(vals, a+b, "x"+a+b+"y")
		}
	}
	ctx := context.Background()
	for _, v := range vals {
		if strings.ContainsAny(v, "\x00\r") {
			continue // preprocessed by the HTML input stream: outside any escaper
		}
		want := strings.ToValidUTF8(v, "�")
		// spread attributes: string, *string, KV(string, true)
		pv := v
		for form, attrs := range map[string]Attributes{
			"string":  {"data-a": v, "z": true},
			"*string": {"data-a": &pv, "z": true},
			"KV":      {"data-a": KV(v, true), "z": true},
		} {
			var b bytes.Buffer
			b.WriteString("<div")
			if err := RenderAttributes(ctx, &b, attrs); err != nil {
				continue
			}
			b.WriteString(">t")
			name, got, text, clean := verifAttrs(b.String())
			if !clean || name != "div" || text != "t" || len(got) != 2 || got[0].Key != "data-a" || strings.ToValidUTF8(got[0].Val, "�") != want || got[1].Key != "z" {
				fmt.Printf("REPLAY-CONFIRMED spread attribute value %q (as %s) renders as %q, which an HTML5 tokenizer reads as element %q with attributes %v and text %q\n", v, form, b.String(), name, got, text)
				return
			}
		}
		// element text through the escaper used by generated code
		{
			doc := "<p>" + EscapeString(v) + "</p>"
			z := html.NewTokenizer(strings.NewReader(doc))
			var toks []string
			var text strings.Builder
			for {
				tt := z.Next()
				if tt == html.ErrorToken {
					break
				}
				toks = append(toks, tt.String())
				if tt == html.TextToken {
					text.WriteString(z.Token().Data)
				}
			}
			okShape := (len(toks) == 3 && toks[0] == "StartTag" && toks[1] == "Text" && toks[2] == "EndTag") || (v == "" && len(toks) == 2)
			if !okShape || strings.ToValidUTF8(text.String(), "�") != want {
				fmt.Printf("REPLAY-CONFIRMED text %q escapes to %q, which an HTML5 tokenizer reads as %v with text %q\n", v, doc, toks, text.String())
				return
			}
		}
		// JSON script element: id and type attributes
		{
			var b bytes.Buffer
			if err := JSONScript(v, 1).WithType(v).Render(ctx, &b); err == nil {
				name, got, _, _ := verifAttrs(b.String())
				bad := name != "script"
				if v != "" {
					bad = bad || len(got) != 2 || got[0].Key != "id" || strings.ToValidUTF8(got[0].Val, "�") != want || got[1].Key != "type" || strings.ToValidUTF8(got[1].Val, "�") != want
				}
				if bad {
					fmt.Printf("REPLAY-CONFIRMED JSON script element with id/type %q renders as %q, read back as element %q with attributes %v\n", v, b.String(), name, got)
					return
				}
			}
		}
		// the style and script elements the runtime itself opens (CSS classes, script templates) under a CSP nonce
		{
			nctx := WithNonce(ctx, v)
			var b bytes.Buffer
			cls := ComponentCSSClass{ID: "c_1", Class: SafeCSS(".c_1{color:red;}")}
			sc := ComponentScript{Name: "__templ_s_1", Function: "function __templ_s_1(){}", Call: "__templ_s_1()", CallInline: "__templ_s_1()"}
			if RenderCSSItems(nctx, &b, cls) == nil && RenderScriptItems(nctx, &b, sc) == nil {
				z := html.NewTokenizer(strings.NewReader(b.String()))
				var shape []string
				bad := ""
				for {
					tt := z.Next()
					if tt == html.ErrorToken {
						break
					}
					tok := z.Token()
					shape = append(shape, tt.String()+":"+tok.Data)
					if tt == html.StartTagToken {
						for _, a := range tok.Attr {
							switch {
							case tok.Data == "style" && a.Key == "type" && a.Val == "text/css":
							case a.Key == "nonce" && strings.ToValidUTF8(a.Val, "�") == want:
							default:
								bad = fmt.Sprintf("attribute %s=%q on <%s>", a.Key, a.Val, tok.Data)
							}
						}
					}
				}
				okShape := len(shape) == 6 && shape[0] == "StartTag:style" && strings.HasPrefix(shape[1], "Text:") && shape[2] == "EndTag:style" && shape[3] == "StartTag:script" && strings.HasPrefix(shape[4], "Text:") && shape[5] == "EndTag:script"
				if !okShape || bad != "" {
					fmt.Printf("REPLAY-CONFIRMED with the CSP nonce %q, a CSS class and a script template render as %q, which an HTML5 tokenizer reads as %v %s\n", v, b.String(), shape, bad)
					return
				}
			}
		}
	}
	fmt.Printf("REPLAY-NOT-REPRODUCED bounded search: %d strings through spread attributes (3 forms), element text, the JSON script element and the nonce of runtime style / script elements, read back with the x/net/html tokenizer\n", len(vals))
}
`

// replayC01Gen: the generator of the tree under check on templates with a dynamic value at a text position and in
// attributes of several shapes (plain, through templ.JSONString / fmt.Sprint, conditional, boolean neighbour); the
// generated code is compiled and run with adversarial values and the output read back with the x/net/html tokenizer.
func replayC01Gen(r *Run) *ReplayResult {
	input := "templates with a dynamic value in text and attribute positions, generated by the real generator, compiled and rendered"
	scratch, err := os.MkdirTemp("", "govc-c01gen-")
	if err != nil {
		return &ReplayResult{Input: input, Detail: "REPLAY-NOT-REPRODUCED (replay harness error: " + err.Error() + ")"}
	}
	defer os.RemoveAll(scratch)
	gomod := "module verifgen\n\ngo 1.23.0\n\nrequire github.com/a-h/templ v0.0.0\n\nreplace github.com/a-h/templ => " + r.repo + "\n"
	os.WriteFile(filepath.Join(scratch, "go.mod"), []byte(gomod), 0o644)
	copyFile(filepath.Join(r.repo, "go.sum"), filepath.Join(scratch, "go.sum"))
	copyFile(filepath.Join(r.verif, "corpusgen", "main.go.txt"), filepath.Join(scratch, "cmd", "corpusgen", "main.go"))
	dir := filepath.Join(scratch, "corpus", "sinks")
	os.MkdirAll(dir, 0o755)
	tmpl := "package sinks\n\nimport \"fmt\"\n\ntempl Text(v string) {\n\t<div id=\"d\">{ v }</div>\n}\n\ntempl Attr(v string) {\n\t<div id=\"d\" data-v={ v }>x</div>\n}\n\ntempl AttrJSON(v string) {\n\t<div id=\"d\" data-v={ templ.JSONString(v) }>x</div>\n}\n\ntempl AttrSprint(v string) {\n\t<div id=\"d\" data-v={ fmt.Sprint(v) }>x</div>\n}\n\ntempl AttrCond(v string) {\n\t<div id=\"d\"\n\t\tif v != \"\" {\n\t\t\tdata-v={ v }\n\t\t}\n\t>x</div>\n}\n\ntempl AttrMixed(v string) {\n\t<input id=\"d\" disabled?={ v != \"\" } data-v={ v } title=\"t\"/>\n}\n\n// string literals written by the template author are values too: spelled with escapes, they must still be escaped\ntempl LitText(v string) {\n\t<div id=\"d\">{ \"\\x3cimg src=x onerror=alert(1)\\x3e\\u003cscript\\u003e\" }</div>\n}\n\ntempl LitAttr(v string) {\n\t<div id=\"d\" data-v={ \"\\x22 onmouseover=\\x22alert(1)\\042 \\u0027\" }>x</div>\n}\n\ntempl LitRaw(v string) {\n\t<div id=\"d\" data-v={ `\" onfocus=\"x` }>{ `<b>` }</div>\n}\n"
	os.WriteFile(filepath.Join(dir, "t.templ"), []byte(tmpl), 0o644)
	test := `package sinks

import (
	"bytes"
	"context"
	"fmt"
	"strings"
	"testing"

	"github.com/a-h/templ"
	"golang.org/x/net/html"
)

func TestSinks(t *testing.T) {
	vals := []string{"plain", "it's", "x' onmouseover='alert(1)", "\" autofocus onfocus=\"alert(1)", "'><script>alert(1)</script>", "</div><script>alert(1)</script>", "a&amp;b", "a<b>c"}
	comps := map[string]func(string) templ.Component{"Text": Text, "Attr": Attr, "AttrJSON": AttrJSON, "AttrSprint": AttrSprint, "AttrCond": AttrCond, "AttrMixed": AttrMixed, "LitText": LitText, "LitAttr": LitAttr, "LitRaw": LitRaw}
	for name, c := range comps {
		for _, v := range vals {
			var b bytes.Buffer
			if err := c(v).Render(context.Background(), &b); err != nil {
				continue
			}
			z := html.NewTokenizer(strings.NewReader(b.String()))
			starts, scripts := 0, 0
			extra := ""
			for {
				tt := z.Next()
				if tt == html.ErrorToken {
					break
				}
				tok := z.Token()
				if tt == html.StartTagToken || tt == html.SelfClosingTagToken {
					starts++
					if tok.Data == "script" {
						scripts++
					}
					for _, a := range tok.Attr {
						switch a.Key {
						case "id", "data-v", "title", "disabled":
						default:
							extra = a.Key
						}
					}
				}
			}
			if starts != 1 || scripts != 0 || extra != "" {
				fmt.Printf("GEN-SINK-BROKEN template %s with the value %q renders %q: an HTML5 tokenizer sees %d start tags, %d script elements, unexpected attribute %q\n", name, v, b.String(), starts, scripts, extra)
				return
			}
		}
	}
	fmt.Println("GEN-SINK-OK")
}
`
	os.WriteFile(filepath.Join(dir, "sinks_test.go"), []byte(test), 0o644)
	run := func(args ...string) (string, error) {
		cmd := exec.Command("go", args...)
		cmd.Dir = scratch
		cmd.Env = goEnv()
		out, err := cmd.CombinedOutput()
		return string(out), err
	}
	if out, err := run("run", "./cmd/corpusgen", filepath.Join(scratch, "corpus")); err != nil {
		return &ReplayResult{Input: input, Detail: "REPLAY-NOT-REPRODUCED (replay harness error: corpusgen: " + firstLines(out, 4) + ")"}
	}
	out, _ := run("test", "-v", "-vet=off", "-count=1", "-run", "TestSinks", "./corpus/sinks/")
	for _, l := range strings.Split(out, "\n") {
		if rest, ok := strings.CutPrefix(l, "GEN-SINK-BROKEN "); ok {
			return &ReplayResult{Confirmed: true, Input: input, Detail: "REPLAY-CONFIRMED " + rest}
		}
	}
	if strings.Contains(out, "GEN-SINK-OK") {
		return &ReplayResult{Input: input, Detail: "REPLAY-NOT-REPRODUCED 9 generated sink shapes (3 of them constant string literals spelled with escapes) x 8 adversarial values keep the structure the template author wrote"}
	}
	return &ReplayResult{Input: input, Detail: "REPLAY-NOT-REPRODUCED (replay harness error: " + firstLines(out, 6) + ")"}
}

func replayC01(r *Run, o *Obligation) *ReplayResult {
	if strings.HasPrefix(o.Name, "generator.") || strings.Contains(o.Name, "#sink") {
		if r.replayCache == nil {
			r.replayCache = map[string]*ReplayResult{}
		}
		if rr, ok := r.replayCache["C01gen"]; ok {
			return rr
		}
		rr := replayC01Gen(r)
		r.replayCache["C01gen"] = rr
		return rr
	}
	if r.replayOut == nil {
		r.replayOut = map[string]string{}
	}
	out, ok := r.replayOut["C01"]
	if !ok {
		out, _ = r.runReplayTest(".", c01Harness, map[string]string{}, "TestVerifReplayC01")
		r.replayOut["C01"] = out
	}
	okc, detail := replayVerdict(out)
	return &ReplayResult{Confirmed: okc, Input: "adversarial strings through the real runtime sinks, read back with the x/net/html tokenizer", Detail: detail}
}
