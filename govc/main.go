package main

import (
	"encoding/json"
	"flag"
	"fmt"
	"os"
	"path/filepath"
	"sort"
	"strconv"
	"strings"
	"time"
)

func strconvUnquote(s string) (string, error) { return strconv.Unquote(s) }
func strconvQuote(s string) string            { return strconv.Quote(s) }

type PropConfig struct {
	ID       string
	Packages []string
	Level    string // evidence level
	Assume   []string
	Replay   func(r *Run, o *Obligation) *ReplayResult
	// Extra generates additional obligations (e.g. call-site scans, corpus).
	Extra func(r *Run)
	// Corpus: the property also speaks about generated code; packages are then
	// loaded through the scratch corpus module (which replaces templ by the repository).
	Corpus     bool
	Also       string   // the contracts of this other property are verified in this run as well
	CorpusOnly []string // quick tier: restrict the corpus to these directories (empty = all)
	// Probes: obligation names with which the replay oracle is run in the thorough tier even though nothing failed
	// (a bounded search on the real code, reported as bounded and never counted as proof; a discrepancy is a violation).
	Probes []string
	// QuickProbes: probes that also run in the quick tier - bounded stand-ins for functions the verifier cannot reach
	// (stated as such in the claim), cheap enough to run on every change.
	QuickProbes []string
}

type Run struct {
	e           *Engine
	cfg         *PropConfig
	tier        Tier
	repo        string
	verif       string
	workdir     string
	seed        int
	t0          time.Time
	corpus      *Corpus
	replayCache map[string]*ReplayResult
	replayOut   map[string]string
	bounded     []map[string]interface{}
	extraCov    map[string]interface{}
}

func main() {
	if len(os.Args) < 2 {
		fmt.Fprintln(os.Stderr, "usage: govc check|lock|list ...")
		os.Exit(2)
	}
	switch os.Args[1] {
	case "strabs":
		// debugging aid: print the string abstraction of an SMT-LIB file
		data, _ := os.ReadFile(os.Args[2])
		q, ok := AbstractStringsQuery(string(data))
		if !ok {
			fmt.Fprintln(os.Stderr, "not abstractable")
			os.Exit(1)
		}
		fmt.Print(q)
		return
	case "check":
		os.Exit(cmdCheck(os.Args[2:]))
	case "lang":
		os.Exit(cmdLang(os.Args[2:]))
	case "dump-harness":
		// development aid: write a replay harness to stdout
		if len(os.Args) > 2 && os.Args[2] == "C17" {
			fmt.Print(c17Harness)
		}
		return
	case "sweep":
		os.Exit(cmdSweep(os.Args[2:]))
	default:
		fmt.Fprintln(os.Stderr, "unknown command", os.Args[1])
		os.Exit(2)
	}
}

func cmdCheck(args []string) int {
	fs := flag.NewFlagSet("check", flag.ExitOnError)
	prop := fs.String("prop", "", "property id")
	tierName := fs.String("tier", "quick", "quick|thorough")
	repo := fs.String("repo", envOr("VERIF_REPO", "/repo"), "repository root")
	verif := fs.String("verif", envOr("VERIF_DIR", "/verif"), "verif root")
	updateLock := fs.Bool("update-lock", false, "rewrite this property's section of obligations.lock.json")
	verbose := fs.Bool("v", false, "print every obligation")
	noEvidence := fs.Bool("no-evidence", false, "do not write the evidence file (selftest runs)")
	fs.Parse(args)
	cfg := propConfigs[*prop]
	if cfg == nil {
		fmt.Fprintf(os.Stderr, "no check for property %q\n", *prop)
		return 2
	}
	tier := quickTier
	if *tierName == "thorough" || os.Getenv("VERIF_TIER") == "thorough" {
		tier = thoroughTier
	}
	seed, _ := strconv.Atoi(os.Getenv("VERIF_SEED"))
	absRepo, _ := filepath.Abs(*repo)
	r := &Run{cfg: cfg, tier: tier, repo: absRepo, verif: *verif, seed: seed, t0: time.Now(), extraCov: map[string]interface{}{}}
	if wd := os.Getenv("GOVC_WORKDIR"); wd != "" {
		r.workdir = wd
		os.MkdirAll(wd, 0o755)
	} else {
		r.workdir, _ = os.MkdirTemp("", "govc-"+cfg.ID+"-")
		defer os.RemoveAll(r.workdir)
	}
	e := NewEngine(absRepo)
	e.prop = cfg.ID
	e.alsoProp = cfg.Also
	r.e = e
	if err := e.langs.LoadDir(filepath.Join(*verif, "contracts", "lang")); err != nil {
		fmt.Fprintln(os.Stderr, "lang:", err)
		return 2
	}
	if bad := e.langs.CheckExamples(nil); len(bad) > 0 {
		for _, b := range bad {
			fmt.Println("CHECK-ERROR", b)
		}
		return 2
	}
	var corpus *Corpus
	if cfg.Corpus {
		only := map[string]bool{}
		if tier.Name == "quick" {
			for _, d := range cfg.CorpusOnly {
				only[d] = true
			}
		}
		var err error
		corpus, err = r.BuildCorpus(only, cfg.ID)
		defer corpus.Remove()
		if err == nil {
			err = r.LoadCorpus(corpus)
		}
		if err != nil {
			fmt.Printf("CHECK-ERROR govc: cannot regenerate / load the template corpus: %v\n", err)
			return 2
		}
		r.corpus = corpus
	} else if err := e.Load(cfg.Packages...); err != nil {
		// The tree does not build with hooks on: that is a broken check environment, report as violation of the check's premise
		fmt.Printf("CHECK-ERROR govc: cannot load packages (the tree does not build with -tags=verif): %v\n", err)
		return 2
	}
	for _, msg := range e.cs.Errors {
		fmt.Println("contract error:", msg)
	}
	e.ProcessLangDirectives()
	e.InstantiateTemplates()
	contracts := e.ContractsFor(cfg.ID)
	for _, c := range contracts {
		if c.Inline {
			continue // verified in the context of each call site
		}
		if only := os.Getenv("GOVC_ONLY"); only != "" && !strings.Contains(c.Key(), only) {
			continue // development aid: one function at a time (never set by the registered commands)
		}
		e.VerifyFunc(c)
	}
	done := map[string]bool{}
	for _, lm := range e.LemmasFor(cfg.ID) {
		e.LemmaObligation(lm)
		done[lm.Name] = true
	}
	for _, n := range sortedKeys(e.usedLemmas) {
		if !done[n] {
			e.LemmaObligation(e.cs.Lemmas[n])
		}
	}
	if cfg.Extra != nil {
		cfg.Extra(r)
	}
	e.SweepConcurrency(cfg.ID)
	if cfg.ID == "C18" {
		e.SweepCallSites(cfg.ID)
	}
	if cfg.ID == "C05" {
		e.SweepStyleWriters(cfg.ID)
	}
	if cfg.ID == "C16" {
		e.SweepExpressionList(cfg.ID)
	}
	if cfg.ID == "C14" {
		e.SweepContextValueMaps(cfg.ID)
	}
	if cfg.ID == "C14" {
		e.SweepGlobals("C14", []string{modulePath + "/runtime", modulePath})
	}
	tGen := time.Since(r.t0).Seconds()
	e.Discharge(tier, filepath.Join(r.workdir, "smt"))
	r.extraCov["vc_generation_s"] = round2(tGen)
	if os.Getenv("GOVC_WARN") != "" {
		fmt.Printf("impure callees without contract or model: %s\n", strings.Join(sortedKeys(e.havockedImpure), "; "))
	}
	if os.Getenv("GOVC_TIMING") != "" {
		fmt.Printf("timing: load+vcgen %.1fs, discharge %.1fs, %d obligations\n", tGen, time.Since(r.t0).Seconds()-tGen, len(e.obls))
		for _, o := range e.obls {
			if o.Secs > 2 {
				fmt.Printf("  slow: %.1fs %s %s [%s]\n", o.Secs, o.Verdict, o.Name, o.Solver)
			}
		}
	}
	return r.report(*updateLock, *verbose, *noEvidence)
}

func envOr(k, d string) string {
	if v := os.Getenv(k); v != "" {
		return v
	}
	return d
}

type Failure struct {
	Name   string
	Reason string
	Obl    *Obligation
	Replay *ReplayResult
}

type ReplayResult struct {
	Confirmed bool
	Input     string
	Detail    string
	File      string
}

type lockFile map[string][]string

func loadLock(path string) lockFile {
	lf := lockFile{}
	data, err := os.ReadFile(path)
	if err == nil {
		json.Unmarshal(data, &lf)
	}
	return lf
}

func (r *Run) report(updateLock, verbose, noEvidence bool) int {
	e := r.e
	sort.SliceStable(e.obls, func(i, j int) bool { return e.obls[i].Name < e.obls[j].Name })
	var failures []*Failure
	for _, msg := range e.cs.Errors {
		failures = append(failures, &Failure{Name: "contract-syntax", Reason: msg})
	}
	for _, name := range sortedKeys(e.rejected) {
		failures = append(failures, &Failure{Name: name + "#rejected", Reason: e.rejected[name]})
	}
	discharged := 0
	total := 0
	byKind := map[string]int{}
	bySolver := map[string]int{}
	byVariant := map[string]int{}
	solverSecs := 0.0
	dup := map[string]bool{}
	for _, o := range e.obls {
		if dup[o.Name] {
			failures = append(failures, &Failure{Name: o.Name + "#duplicate", Reason: "engine error: duplicate obligation name"})
		}
		dup[o.Name] = true
	}
	exits, deadExits := map[string]int{}, map[string]int{}
	var deadNames []string
	names := map[string]bool{}
	for _, o := range e.obls {
		names[lockStem(o.Name)] = true
		if verbose {
			fmt.Printf("  %-8s %-70s %s %.2fs %s\n", o.Verdict, o.Name, o.Solver, o.Secs, o.Pos)
		}
		solverSecs += o.Secs
		if o.Cover {
			// cover: hypotheses must be satisfiable
			if o.Kind == "cover-exit" {
				exits[o.Func]++
				if o.Verdict == "unsat" {
					deadExits[o.Func]++
					deadNames = append(deadNames, o.Name)
				}
				continue
			}
			if o.Verdict == "unsat" {
				failures = append(failures, &Failure{Name: o.Name, Reason: "vacuous: the assumed preconditions / invariants are contradictory", Obl: o})
			}
			continue
		}
		total++
		byKind[o.Kind]++
		if o.Verdict == "unsat" {
			discharged++
			sv := o.Solver
			variant := "full query"
			if i := strings.Index(sv, " ("); i > 0 {
				variant = strings.TrimSuffix(sv[i+2:], ")")
			}
			if i := strings.IndexAny(sv, " ("); i > 0 {
				sv = sv[:i]
			}
			bySolver[sv]++
			byVariant[variant]++
			continue
		}
		failures = append(failures, &Failure{Name: o.Name, Reason: "obligation not discharged: " + o.Verdict + " — " + o.Note, Obl: o})
	}
	for fn, n := range exits {
		if deadExits[fn] == n {
			failures = append(failures, &Failure{Name: fn + "#cover.exit", Reason: "vacuous: no exit of the function is reachable under the assumed contracts (contradictory assumptions)"})
		}
	}
	sort.Strings(deadNames)
	r.extraCov["unreachable_exits"] = deadNames
	lockPath := filepath.Join(r.verif, "obligations.lock.json")
	if !updateLock {
		knownDead := map[string]bool{}
		for _, n := range loadLock(lockPath)[r.cfg.ID+"#dead-exits"] {
			knownDead[n] = true
		}
		// only for functions that exist on the reference tree: a function that is new (say a new test template) has
		// no reference to be compared with, and e.g. the error exit behind JoinStringErrs(<plain string>) is dead by design
		refFuncs := map[string]bool{}
		for _, n := range loadLock(lockPath)[r.cfg.ID] {
			if i := strings.Index(n, "#"); i > 0 {
				refFuncs[n[:i]] = true
			}
		}
		for _, n := range deadNames {
			fn := n
			if i := strings.Index(fn, "#"); i > 0 {
				fn = fn[:i]
			}
			if !refFuncs[fn] {
				continue
			}
			if !knownDead[lockStem(n)] && !knownDead[n] {
				failures = append(failures, &Failure{Name: n, Reason: "vacuity guard: this function exit is unreachable under the assumed contracts although it was reachable on the reference tree (contradictory assumptions would make every obligation behind it pass)"})
			}
		}
	}
	lock := loadLock(lockPath)
	if total == 0 {
		failures = append(failures, &Failure{Name: "vacuity", Reason: "no obligations were generated"})
	}
	if !updateLock {
		for _, n := range lock[r.cfg.ID] {
			if !names[n] {
				failures = append(failures, &Failure{Name: n, Reason: "obligation discharged on the reference tree is no longer generated (function, contract clause, loop or call site disappeared)"})
			}
		}
	}
	// thorough tier: the bounded oracles on the real code, whatever the verifier said
	probes := r.cfg.QuickProbes
	if r.tier.Name == "thorough" || os.Getenv("GOVC_PROBES") != "" {
		probes = append(append([]string{}, r.cfg.QuickProbes...), r.cfg.Probes...)
	}
	if len(probes) > 0 && r.cfg.Replay != nil {
		seenProbe := map[string]bool{}
		for _, p := range probes {
			if seenProbe[p] {
				continue
			}
			seenProbe[p] = true
			rr := r.cfg.Replay(r, &Obligation{Name: p, Verdict: "probe", Note: "oracle probe"})
			if rr == nil {
				continue
			}
			fmt.Printf("oracle probe %s (bounded, not counted as proof): %s\n", p, firstLines(rr.Detail, 1))
			r.bounded = append(r.bounded, map[string]interface{}{"oracle_probe": p, "explored": rr.Input, "result": rr.Detail, "discrepancy_found": rr.Confirmed})
			if rr.Confirmed {
				failures = append(failures, &Failure{Name: "oracle:" + p, Reason: "bounded oracle on the real code found a discrepancy: " + rr.Detail, Replay: rr})
			} else if !strings.Contains(rr.Detail, "REPLAY-NOT-REPRODUCED") || strings.Contains(rr.Detail, "harness error") || strings.Contains(rr.Detail, "did not run") {
				failures = append(failures, &Failure{Name: "oracle:" + p, Reason: "the bounded oracle did not run: " + firstLines(rr.Detail, 4)})
			}
		}
	}
	// known findings
	known := loadKnownFindings(filepath.Join(r.verif, "known_findings.txt"), r.cfg.ID)
	var viol []*Failure
	var knownHit []string
	for _, f := range failures {
		if kf := known.match(f); kf != nil {
			knownHit = append(knownHit, fmt.Sprintf("KNOWN-FINDING: property=%s obligation=%s %s", r.cfg.ID, f.Name, kf.What))
			continue
		}
		viol = append(viol, f)
	}
	for _, k := range knownHit {
		fmt.Println(k)
	}
	fmt.Printf("govc %s %s: %d functions under contract, %d obligations, %d discharged, %d cover queries, %d failures (%d known), %.1fs\n",
		r.cfg.ID, r.tier.Name, len(e.verified), total, discharged, len(e.obls)-total, len(failures), len(knownHit), time.Since(r.t0).Seconds())
	if updateLock && len(viol) > 0 {
		// record the unreachable exits of the reference tree even while other obligations still fail
		lock[r.cfg.ID+"#dead-exits"] = deadNames
		data, _ := json.MarshalIndent(lock, "", " ")
		os.WriteFile(lockPath, append(data, '\n'), 0o644)
	}
	if updateLock && len(viol) == 0 {
		var ns []string
		seen := map[string]bool{}
		for _, o := range e.obls {
			if lockable(o) && !seen[lockStem(o.Name)] {
				seen[lockStem(o.Name)] = true
				ns = append(ns, lockStem(o.Name))
			}
		}
		sort.Strings(ns)
		lock[r.cfg.ID] = ns
		lock[r.cfg.ID+"#dead-exits"] = deadNames
		data, _ := json.MarshalIndent(lock, "", " ")
		os.WriteFile(lockPath, append(data, '\n'), 0o644)
		fmt.Printf("lock updated: %d names for %s\n", len(ns), r.cfg.ID)
	}
	cov := map[string]interface{}{
		// obligations counted as proved or to be proved; the obligations behind the listed known findings are
		// reported separately (they are undischarged by definition)
		"obligations":               total - len(knownHit),
		"known_finding_obligations": len(knownHit),
		"discharged":                discharged,
		"checker_cmd":               fmt.Sprintf("/verif/check %s %s  (govc: VC generation over go/ast+go/types of %s; back ends z3-new 5.1.0, z3 4.8.12, cvc5 1.0, reglang derivatives)", r.cfg.ID, r.tier.Name, r.repo),
		"trusted_base":              r.trustedBase(),
		"functions_under_contract":  e.verified,
		"obligations_by_kind":       byKind,
		"discharged_by_backend":     bySolver,
		"discharged_by_query_kind":  byVariant,
		"solver_wall_s":             round2(solverSecs),
		"cover_queries":             len(e.obls) - total,
		"lemmas":                    r.lemmaList(),
		"languages":                 r.languageList(),
		// callees without contract or model. "pure": value-level library functions taken to be functions of their
		// arguments that change nothing; "impure": every other such callee - each call returns new unknowns and whatever
		// it can reach through its receiver and arguments is forgotten
		"havocked_calls":        sortedKeys(e.havocked),
		"havocked_calls_impure": sortedKeys(e.havockedImpure),
		"notes":                 e.notes,
		"samples":               r.samples(),
		"known_findings_hit":    knownHit,
	}
	for k, v := range r.extraCov {
		cov[k] = v
	}
	if len(r.bounded) > 0 {
		cov["bounded_subchecks_not_counted_as_proof"] = r.bounded
	}
	if len(viol) > 0 {
		return r.fail(viol, noEvidence, cov)
	}
	if !noEvidence {
		r.writeEvidence(cov, 0)
	}
	return 0
}

// The lock file guards against vacuity: it names the contract-level
// obligations (postconditions, loop invariants, lemmas, covers) discharged on
// the reference tree, without return / call-site ordinals so that harmless
// edits do not change the names.
func lockable(o *Obligation) bool {
	switch o.Kind {
	case "ensures", "invariant", "lemma", "cover", "sink", "site":
		return true
	}
	return false
}

func lockStem(n string) string {
	if i := strings.Index(n, "@"); i >= 0 {
		n = n[:i]
	}
	return n
}

func round2(f float64) float64 { return float64(int(f*100+0.5)) / 100 }

func (r *Run) trustedBase() []string {
	tb := []string{
		"govc VC generator (symbolic executor, encodings, contract parser) and the SMT solvers",
		"Go semantics as implemented by govc for the stated subset; int/int64 are mathematical integers, sized integers wrap exactly",
		"distinct pointer parameters do not alias; slice parameters do not alias the receiver's backing array (value semantics for slices)",
		"termination is not proved (partial correctness)",
	}
	tb = append(tb, sortedKeys(r.e.trusted)...)
	tb = append(tb, r.cfg.Assume...)
	return tb
}

func (r *Run) lemmaList() []map[string]string {
	var out []map[string]string
	for _, o := range r.e.obls {
		if o.Kind == "lemma" {
			out = append(out, map[string]string{"name": o.Name, "statement": o.Note, "verdict": o.Verdict, "backend": o.Solver})
		}
	}
	return out
}

func (r *Run) languageList() map[string]string {
	out := map[string]string{}
	for n := range r.e.langUsed {
		if s, ok := r.e.langs.src[n]; ok {
			out[n] = s
		} else if s, ok := r.e.langs.pending[n]; ok {
			out[n] = s
		}
	}
	return out
}

func (r *Run) samples() []map[string]string {
	var out []map[string]string
	kinds := map[string]int{}
	for _, o := range r.e.obls {
		if o.Cover || kinds[o.Kind] >= 1 || len(out) >= 6 {
			continue
		}
		kinds[o.Kind]++
		m := map[string]string{"name": o.Name, "kind": o.Kind, "pos": o.Pos, "note": o.Note, "verdict": o.Verdict, "backend": o.Solver}
		if o.LangLeft != nil {
			m["inclusion"] = "L(left) ⊆ L(right) decided by derivative-automaton emptiness of left ∩ ¬right"
		} else if o.Goal != nil {
			q := SMTQuery(o.Hyps, o.Goal, "", false)
			if len(q) > 1500 {
				q = q[:1500] + "\n…(truncated)"
			}
			m["smtlib"] = q
		}
		out = append(out, m)
	}
	return out
}

func (r *Run) writeEvidence(cov map[string]interface{}, violations int) {
	level := r.cfg.Level
	if level == "" {
		level = "proof"
	}
	ev := map[string]interface{}{
		"property_id": r.cfg.ID,
		"tier":        r.tier.Name,
		"seed":        r.seed,
		"level":       level,
		"coverage":    cov,
		"assumptions": r.trustedBase(),
		"wall_s":      round2(time.Since(r.t0).Seconds()),
		"violations":  violations,
	}
	if level == "other" {
		if _, ok := cov["explanation"]; !ok {
			cov["explanation"] = "partial claim: the obligations listed are proved; the parts of the property named under not_decided are outside this technique"
		}
	}
	os.MkdirAll(filepath.Join(r.verif, "evidence"), 0o755)
	data, _ := json.MarshalIndent(ev, "", " ")
	os.WriteFile(filepath.Join(r.verif, "evidence", r.cfg.ID+".json"), append(data, '\n'), 0o644)
}

func (r *Run) fail(viol []*Failure, noEvidence bool, cov map[string]interface{}) int {
	replayDir := filepath.Join(r.verif, "replay", r.cfg.ID)
	if rd := os.Getenv("GOVC_REPLAY_DIR"); rd != "" {
		replayDir = filepath.Join(rd, r.cfg.ID)
	}
	os.MkdirAll(replayDir, 0o755)
	sort.SliceStable(viol, func(i, j int) bool {
		// obligations that were generated and failed come first; bookkeeping failures (names missing from the lock) last
		if (viol[i].Obl != nil) != (viol[j].Obl != nil) {
			return viol[i].Obl != nil
		}
		// then functions the engine could not take (their reason is what the reader needs), then the rest
		ri, rj := strings.HasSuffix(viol[i].Name, "#rejected"), strings.HasSuffix(viol[j].Name, "#rejected")
		if ri != rj {
			return ri
		}
		return viol[i].Name < viol[j].Name
	})
	const maxReported = 25
	if len(viol) > maxReported {
		fmt.Printf("govc: %d failed obligations; reporting the first %d (all are listed in the evidence file)\n", len(viol), maxReported)
		if cov != nil {
			var all []string
			for _, f := range viol {
				all = append(all, f.Name)
			}
			cov["failed_obligations"] = all
		}
		viol = viol[:maxReported]
	}
	for _, f := range viol {
		rr := f.Replay
		if f.Obl != nil && r.cfg.Replay != nil {
			rr = r.cfg.Replay(r, f.Obl)
		} else if rr == nil && r.cfg.Replay != nil && !strings.HasPrefix(f.Name, "oracle:") && f.Name != "contract-syntax" {
			// a function that left the subset, or an obligation of the reference tree that is no longer generated: the
			// verifier has no verdict, but the bounded oracle of the property can still look for a failing input
			func() {
				defer func() { recover() }()
				rr = r.cfg.Replay(r, &Obligation{Name: f.Name, Verdict: "missing", Note: f.Reason})
			}()
		}
		file := filepath.Join(replayDir, sanitizeFile(f.Name)+".json")
		rec := map[string]interface{}{
			"property":   r.cfg.ID,
			"obligation": f.Name,
			"reason":     f.Reason,
		}
		if f.Obl != nil {
			rec["position"] = f.Obl.Pos
			rec["clause"] = f.Obl.Note
			rec["verdict"] = f.Obl.Verdict
			rec["solver"] = f.Obl.Solver
			out := f.Obl.Output
			if len(out) > 6000 {
				out = out[:6000] + "…"
			}
			rec["solver_output"] = out
			if f.Obl.HasWitness {
				rec["language_witness"] = strconv.Quote(f.Obl.Witness)
			}
		}
		suffix := " no-failing-input-found"
		if rr != nil {
			rec["replay_input"] = rr.Input
			rec["replay_detail"] = rr.Detail
			rec["replay_confirmed_on_real_code"] = rr.Confirmed
			if rr.Confirmed {
				suffix = ""
			}
		}
		data, _ := json.MarshalIndent(rec, "", " ")
		os.WriteFile(file, append(data, '\n'), 0o644)
		fmt.Printf("  failed: %s — %s\n", f.Name, firstLines(f.Reason, 2))
		fmt.Printf("VIOLATION property=%s replay=%s%s\n", r.cfg.ID, file, suffix)
	}
	if !noEvidence {
		if cov == nil {
			cov = map[string]interface{}{"obligations": 1, "discharged": 0, "checker_cmd": "/verif/check " + r.cfg.ID, "trusted_base": []string{}}
		}
		r.writeEvidence(cov, len(viol))
	}
	return 1
}

// ---------------------------------------------------------------------------
// known findings

type knownFinding struct {
	Kind       string // known | fixed
	Property   string
	Obligation string
	What       string
}

type knownSet []knownFinding

func loadKnownFindings(path, prop string) knownSet {
	data, err := os.ReadFile(path)
	if err != nil {
		return nil
	}
	var ks knownSet
	for _, line := range strings.Split(string(data), "\n") {
		line = strings.TrimSpace(line)
		if !strings.HasPrefix(line, "known:") {
			continue // "fixed:" entries suppress nothing
		}
		f := strings.Fields(strings.TrimPrefix(line, "known:"))
		kf := knownFinding{Kind: "known"}
		var rest []string
		for _, w := range f {
			switch {
			case strings.HasPrefix(w, "property="):
				kf.Property = strings.TrimPrefix(w, "property=")
			case strings.HasPrefix(w, "obligation="):
				kf.Obligation = strings.TrimPrefix(w, "obligation=")
			default:
				rest = append(rest, w)
			}
		}
		kf.What = strings.Join(rest, " ")
		if kf.Property == prop {
			ks = append(ks, kf)
		}
	}
	return ks
}

func (ks knownSet) match(f *Failure) *knownFinding {
	for i := range ks {
		pat := ks[i].Obligation
		if pat == f.Name {
			return &ks[i]
		}
		// a trailing * matches the obligations of one function / call site family
		if strings.HasSuffix(pat, "*") && strings.HasPrefix(f.Name, strings.TrimSuffix(pat, "*")) {
			return &ks[i]
		}
	}
	return nil
}

func cmdLang(args []string) int {
	// govc lang <dir> NAME [string]: print witness / membership (debug aid)
	le := NewLangEnv()
	le.LoadDir(args[0])
	r := le.Get(args[1])
	if len(args) > 2 {
		s, err := strconv.Unquote(`"` + args[2] + `"`)
		if err != nil {
			s = args[2]
		}
		fmt.Println(reMatch(r, s))
		return 0
	}
	w, ok, n, err := reWitness(r, 0)
	fmt.Printf("witness=%q nonempty=%v states=%d err=%v\n", w, ok, n, err)
	return 0
}
