package main

import "strings"

// C07 replay: the real parser, generator and source map are run on templates
// (the repository's generator/test-* templates plus crafted ones: multi-line
// expressions, multi-byte characters before and inside expressions, several
// declarations on one line) and the recorded tables are compared with the
// bytes of the two texts.

const c07Harness = `package generator

import (
	"bytes"
	"fmt"
	"os"
	"path/filepath"
	"reflect"
	"sort"
	"strings"
	"testing"
	"unicode/utf8"

	"github.com/a-h/templ/parser/v2"
)

// offsets of line starts
func verifLineStarts(s string) []int {
	out := []int{0}
	for i := 0; i < len(s); i++ {
		if s[i] == '\n' {
			out = append(out, i+1)
		}
	}
	return out
}

func verifOffset(starts []int, text string, line, col uint32) (int, bool) {
	if int(line) >= len(starts) {
		return 0, false
	}
	o := starts[line] + int(col)
	if o > len(text) {
		return 0, false
	}
	return o, true
}

// every parser.Expression reachable from the parsed file
func verifExpressions(v reflect.Value, out *[]parser.Expression, depth int) {
	if depth > 60 || !v.IsValid() {
		return
	}
	if v.Type() == reflect.TypeOf(parser.Expression{}) {
		*out = append(*out, v.Interface().(parser.Expression))
		return
	}
	switch v.Kind() {
	case reflect.Ptr, reflect.Interface:
		if !v.IsNil() {
			verifExpressions(v.Elem(), out, depth+1)
		}
	case reflect.Struct:
		for i := 0; i < v.NumField(); i++ {
			if v.Type().Field(i).IsExported() {
				verifExpressions(v.Field(i), out, depth+1)
			}
		}
	case reflect.Slice, reflect.Array:
		for i := 0; i < v.Len(); i++ {
			verifExpressions(v.Index(i), out, depth+1)
		}
	}
}

func verifCheckTemplate(name, src string) (msgs []string) {
	tf, err := parser.ParseString(src)
	if err != nil {
		return nil // not an accepted template: outside the property
	}
	var b bytes.Buffer
	op, err := Generate(tf, &b)
	if err != nil {
		return nil
	}
	gen := b.String()
	sStarts, gStarts := verifLineStarts(src), verifLineStarts(gen)
	sm := op.SourceMap
	// 1. every recorded forward entry: indexes agree with line/col, reverse entry inverts it
	stage1 := func() string {
	var lines []int
	for l := range sm.SourceLinesToTarget {
		lines = append(lines, int(l))
	}
	sort.Ints(lines)
	for _, l := range lines {
		var cols []int
		for c := range sm.SourceLinesToTarget[uint32(l)] {
			cols = append(cols, int(c))
		}
		sort.Ints(cols)
		for _, c := range cols {
			tp := sm.SourceLinesToTarget[uint32(l)][uint32(c)]
			so, ok1 := verifOffset(sStarts, src, uint32(l), uint32(c))
			to, ok2 := verifOffset(gStarts, gen, tp.Line, tp.Col)
			if !ok1 || !ok2 {
				return fmt.Sprintf("template %s: source position %d:%d maps to %d:%d, which is outside the text", name, l, c, tp.Line, tp.Col)
			}
			if int64(to) != tp.Index {
				return fmt.Sprintf("template %s: source position %d:%d maps to target %d:%d recorded with index %d, but that line/column is byte offset %d of the generated file", name, l, c, tp.Line, tp.Col, tp.Index, to)
			}
			_ = so // byte equality is checked per expression below: the entry just past the end of an expression line has no byte of its own
			back, ok := sm.SourcePositionFromTarget(tp.Line, tp.Col)
			if !ok || back.Line != uint32(l) || back.Col != uint32(c) || back.Index != int64(so) {
				return fmt.Sprintf("template %s: source position %d:%d (index %d) maps to target %d:%d, which maps back to %d:%d (index %d, found=%v)", name, l, c, so, tp.Line, tp.Col, back.Line, back.Col, back.Index, ok)
			}
		}
	}
	return ""
	}
	// 2. every Go expression of the file is covered: each rune start of each expression (and the position past
	// the end of each of its lines) has an entry pointing at the same byte
	stage2 := func() string {
	var exprs []parser.Expression
	verifExpressions(reflect.ValueOf(tf), &exprs, 0)
	for _, e := range exprs {
		if e.Value == "" || e.Range.To.Index <= e.Range.From.Index {
			continue
		}
		from := int(e.Range.From.Index)
		if from+len(e.Value) > len(src) || src[from:from+len(e.Value)] != e.Value {
			continue // the parser's own range does not hold the value (trimmed / synthesised expression): not a mapping question
		}
		if _, ok := sm.TargetPositionFromSource(e.Range.From.Line, e.Range.From.Col); !ok {
			// expressions that the generator does not emit verbatim (e.g. element names) are not mapped at all
			continue
		}
		line, col := e.Range.From.Line, e.Range.From.Col
		for i := 0; i < len(e.Value); {
			r, w := utf8.DecodeRuneInString(e.Value[i:])
			tp, ok := sm.TargetPositionFromSource(line, col)
			if !ok {
				return fmt.Sprintf("template %s: expression %q starting at %d:%d: byte offset %d (source %d:%d) has no target position", name, e.Value, e.Range.From.Line, e.Range.From.Col, i, line, col)
			}
			to, ok2 := verifOffset(gStarts, gen, tp.Line, tp.Col)
			if !ok2 || to+w > len(gen) || gen[to:to+w] != e.Value[i:i+w] {
				return fmt.Sprintf("template %s: expression %q: byte offset %d (source %d:%d) maps to target %d:%d, which does not hold %q", name, e.Value, i, line, col, tp.Line, tp.Col, e.Value[i:i+w])
			}
			if r == '\n' {
				line++
				col = 0
			} else {
				col += uint32(w)
			}
			i += w
		}
		// the position just past the last rune of the expression is mapped too (editors ask for it)
		if tp, ok := sm.TargetPositionFromSource(line, col); !ok {
			return fmt.Sprintf("template %s: expression %q starting at %d:%d: the position just past its end (source %d:%d) has no target position", name, e.Value, e.Range.From.Line, e.Range.From.Col, line, col)
		} else if to, ok2 := verifOffset(gStarts, gen, tp.Line, tp.Col); !ok2 || to < len(e.Value) || gen[to-len(e.Value):to] != e.Value {
			return fmt.Sprintf("template %s: expression %q: the position just past its end (source %d:%d) maps to target %d:%d, which is not just past the expression in the generated file", name, e.Value, line, col, tp.Line, tp.Col)
		}
	}
	return ""
	}
	// 3. symbol ranges: every top-level template / css / script / Go block has its range recorded, and the recorded
	// target range lies inside the generated text
	stage3 := func() string {
	for _, n := range tf.Nodes {
		var rng parser.Range
		switch n := n.(type) {
		case parser.HTMLTemplate:
			rng = n.Range
		case parser.CSSTemplate:
			rng = n.Range
		case parser.ScriptTemplate:
			rng = n.Range
		default:
			continue
		}
		tr, ok := sm.SymbolTargetRangeFromSource(rng.From.Line, rng.From.Col)
		if !ok {
			return fmt.Sprintf("template %s: the declaration starting at source %d:%d has no recorded symbol range", name, rng.From.Line, rng.From.Col)
		}
		if tr.From.Index < 0 || tr.To.Index > int64(len(gen)) || tr.From.Index > tr.To.Index {
			return fmt.Sprintf("template %s: the declaration starting at source %d:%d has target range %v outside the generated text", name, rng.From.Line, rng.From.Col, tr)
		}
		if back, ok := sm.SymbolSourceRangeFromTarget(tr.From.Line, tr.From.Col); !ok || back != rng {
			return fmt.Sprintf("template %s: the symbol range of the declaration at source %d:%d does not map back (%v, found=%v)", name, rng.From.Line, rng.From.Col, back, ok)
		}
	}
	return ""
	}
	for _, st := range []struct {
		tag string
		f   func() string
	}{{"positions", stage1}, {"bytes", stage2}, {"symbols", stage3}} {
		if m := st.f(); m != "" {
			msgs = append(msgs, "["+st.tag+"] "+m)
		}
	}
	return msgs
}

func TestVerifReplayC07(t *testing.T) {
	crafted := map[string]string{
		"multibyte-before": "package p\n\ntempl a(s string) {\n\t<p>é日本{ s }</p>\n}\n",
		"multibyte-inside": "package p\n\ntempl a() {\n\t<p>{ \"é日本\" + \"x\" }</p>\n}\n",
		"multiline-expr":   "package p\n\ntempl a(items []string) {\n\tfor _, it := range items {\n\t\t<li>{ it }</li>\n\t}\n\t<p>{ fmt.Sprintf(\"%s-%s\",\n\t\t\"a\",\n\t\t\"bé\") }</p>\n}\n",
		"multibyte-multiline": "package p\n\ntempl a(n string) {\n\tif n == \"生日快乐\" {\n\t\t<p>{ fmt.Sprintf(\"héllo %s\",\n\t\t\t\"wörld\",\n\t\t\tn) }</p>\n\t}\n}\n",
		"newline-after-brace": "package p\n\ntempl a(name string, long string) {\n\t<div\n\t\ttitle={\n\t\t\tfmt.Sprintf(\"é %s\",\n\t\t\t\tname)\n\t\t}\n\t>\n\t\t{\n\t\t\tlong +\n\t\t\t\t\"x\"\n\t\t}\n\t\t{  name }\n\t</div>\n}\n",
		"two-on-a-line":    "package p\n\ntempl a() { <a></a> } templ b() { <b></b> }\n",
		"if-else":          "package p\n\ntempl a(x int) {\n\tif x == 1 {\n\t\t<a></a>\n\t} else if x == 2 {\n\t\t<b></b>\n\t} else {\n\t\t<i></i>\n\t}\n\tswitch x {\n\tcase 1:\n\t\t<a></a>\n\tdefault:\n\t\t<b></b>\n\t}\n}\n",
		"attrs":            "package p\n\ntempl a(u string, ok bool, at templ.Attributes) {\n\t<a href={ templ.URL(u) } disabled?={ ok } { at... } if ok {\n\t\tclass=\"x\"\n\t}>{ u }</a>\n\t@b(u) {\n\t\t<i>{ u }</i>\n\t}\n\t@b(u)\n}\n\ntempl b(s string) {\n\t{ children... }\n}\n",
		"go-and-css":       "package p\n\nimport \"fmt\"\n\nvar x = fmt.Sprint(\"é\")\n\ncss c(w string) {\n\twidth: { w };\n}\n\nscript s(a string) {\n\talert(a)\n}\n\ntempl a() {\n\t<div class={ c(\"1px\") } onclick={ s(\"é\") }></div>\n}\n",
	}
	var names []string
	srcs := map[string]string{}
	for k, v := range crafted {
		names = append(names, "crafted/"+k)
		srcs["crafted/"+k] = v
	}
	files, _ := filepath.Glob("test-*/*.templ")
	for _, f := range files {
		data, err := os.ReadFile(f)
		if err == nil {
			names = append(names, f)
			srcs[f] = string(data)
		}
	}
	sort.Strings(names)
	checked := 0
	failed := false
	seenTag := map[string]bool{}
	for _, n := range names {
		for _, msg := range verifCheckTemplate(n, srcs[n]) {
			tag := msg[:strings.Index(msg, "]")+1]
			if !seenTag[tag] {
				seenTag[tag] = true
				fmt.Println("REPLAY-CONFIRMED " + strings.ReplaceAll(msg, "\n", "\\n"))
			}
			failed = true
		}
		checked++
	}
	if !failed {
		fmt.Printf("REPLAY-NOT-REPRODUCED bounded search: %d templates (generator/test-* and crafted ones) generated and compared byte by byte\n", checked)
	}
}
`

func replayC07(r *Run, o *Obligation) *ReplayResult {
	if r.replayOut == nil {
		r.replayOut = map[string]string{}
	}
	out, ok := r.replayOut["C07"]
	if !ok {
		out, _ = r.runReplayTest("generator", c07Harness, map[string]string{}, "TestVerifReplayC07")
		r.replayOut["C07"] = out
	}
	// the oracle prints one line per kind of discrepancy; an obligation is confirmed by the kind it is about
	want := []string{"[bytes]", "[positions]"}
	if strings.Contains(o.Name, "Symbol") {
		want = []string{"[symbols]"}
	}
	okc, detail := false, ""
	for _, w := range want {
		for _, line := range strings.Split(out, "\n") {
			if !okc && strings.Contains(line, "REPLAY-CONFIRMED "+w) {
				okc, detail = true, strings.TrimSpace(line)
			}
		}
	}
	if !okc {
		_, detail = replayVerdict(out)
		if strings.Contains(detail, "REPLAY-CONFIRMED") {
			detail = "REPLAY-NOT-REPRODUCED no discrepancy of the kind this obligation is about (" + strings.Join(want, " ") + ") on the bounded template set"
		}
	}
	return &ReplayResult{Confirmed: okc, Input: "templates generated with the real parser and generator, tables compared with the bytes of both texts", Detail: detail}
}
