package main

import "strings"

// C10 replay (bounded): a real generated component (generator/test-text) against writers that fail at every byte
// position, cancelled contexts, and render sequences sharing the buffer pool.

const c10Harness = `package testtext

import (
	"bytes"
	"context"
	"errors"
	"fmt"
	"io"
	"strings"
	"testing"

	"github.com/a-h/templ"
	templruntime "github.com/a-h/templ/runtime"
)

var verifErr = errors.New("injected writer failure")

// accepts 'accept' more bytes, then fails every write (a prefix of the failing write is accepted)
type verifFlaky struct {
	broken bool
	accept int
	got    bytes.Buffer
}

func (w *verifFlaky) Write(p []byte) (int, error) {
	if !w.broken {
		return w.got.Write(p)
	}
	n := len(p)
	if n > w.accept {
		n = w.accept
	}
	w.got.Write(p[:n])
	w.accept -= n
	if n < len(p) || w.accept == 0 {
		return n, verifErr
	}
	return n, nil
}

func TestVerifReplayC10(t *testing.T) {
	ctx := context.Background()
	c := BasicTemplate("Luiz <Bonfa> & é")
	var want bytes.Buffer
	if err := c.Render(ctx, &want); err != nil {
		fmt.Println("REPLAY-CONFIRMED reference render failed:", err)
		return
	}
	// cancelled context: an error, nothing written
	{
		cctx, cancel := context.WithCancel(ctx)
		cancel()
		var b bytes.Buffer
		if err := c.Render(cctx, &b); err == nil || b.Len() != 0 {
			fmt.Printf("REPLAY-CONFIRMED cancelled context: err=%v, %d bytes written\n", err, b.Len())
			return
		}
	}
	for accept := 0; accept <= want.Len(); accept++ {
		for rep := 0; rep < 3; rep++ {
			w := &verifFlaky{broken: true, accept: accept}
			err := c.Render(ctx, w)
			if accept < want.Len() {
				if !errors.Is(err, verifErr) {
					fmt.Printf("REPLAY-CONFIRMED writer fails after %d bytes: Render returned %v instead of the writer's error\n", accept, err)
					return
				}
			}
			if !bytes.HasPrefix(want.Bytes(), w.got.Bytes()) {
				fmt.Printf("REPLAY-CONFIRMED writer fails after %d bytes: it received %q, not a prefix of the document\n", accept, w.got.String())
				return
			}
			if err == nil && w.got.String() != want.String() {
				fmt.Printf("REPLAY-CONFIRMED Render returned nil but the writer holds %q\n", w.got.String())
				return
			}
			// a later render - to the same writer object, now healthy, and to a fresh one - is unaffected
			w.broken = false
			w.got.Reset()
			if err := c.Render(ctx, w); err != nil || w.got.String() != want.String() {
				fmt.Printf("REPLAY-CONFIRMED after a render that failed at byte %d, the next render to the same writer gave err=%v and %q (expected the full document)\n", accept, err, w.got.String())
				return
			}
			var fresh bytes.Buffer
			if err := c.Render(ctx, &fresh); err != nil || fresh.String() != want.String() {
				fmt.Printf("REPLAY-CONFIRMED after a render that failed at byte %d, a render to a fresh writer gave err=%v and %q\n", accept, err, fresh.String())
				return
			}
		}
	}
	// hand-written wrappers never swallow the error of what they wrap: a failing child inside templ.Flush(), rendered
	// into the render buffer the way generated code does
	{
		childErr := errors.New("the child failed")
		failing := templ.ComponentFunc(func(ctx context.Context, w io.Writer) error {
			io.WriteString(w, "<i>partial</i>")
			return childErr
		})
		var sink bytes.Buffer
		buf, _ := templruntime.GetBuffer(&sink)
		err := templ.Flush().Render(templ.WithChildren(templ.InitializeContext(ctx), failing), buf)
		templruntime.ReleaseBuffer(buf)
		if !errors.Is(err, childErr) {
			fmt.Printf("REPLAY-CONFIRMED templ.Flush() around a child that fails returns %v: the child's error is lost (the enclosing template would carry on and Render would return nil for a partial document %q)\n", err, sink.String())
			return
		}
	}
	// single faults (the writer recovers afterwards) on a document with a string larger than the 4KB buffer:
	// an error, a short write without error, a zero write without error, at offsets across the whole document
	big := BasicTemplate(strings.Repeat("x", 5000))
	var wantBig bytes.Buffer
	if err := big.Render(ctx, &wantBig); err != nil {
		fmt.Println("REPLAY-CONFIRMED reference render of a 5000 byte string failed:", err)
		return
	}
	faults := 0
	for mode := 0; mode < 3; mode++ {
		for at := 0; at < wantBig.Len(); at += 1 + at/8 {
			w := &verifOnce{at: at, mode: mode}
			err := big.Render(ctx, w)
			faults++
			if !w.fired {
				continue
			}
			if err == nil {
				fmt.Printf("REPLAY-CONFIRMED single fault (mode %s) at byte %d of a %d byte document: Render returned nil, the writer holds %d bytes\n", verifModes[mode], at, wantBig.Len(), w.got.Len())
				return
			}
			if !bytes.HasPrefix(wantBig.Bytes(), w.got.Bytes()) {
				fmt.Printf("REPLAY-CONFIRMED single fault (mode %s) at byte %d of a %d byte document (5000 byte string): the writer received %d bytes that are not a prefix of the document (err=%v); first difference at byte %d\n", verifModes[mode], at, wantBig.Len(), w.got.Len(), err, verifFirstDiff(wantBig.Bytes(), w.got.Bytes()))
				return
			}
		}
	}
	fmt.Printf("REPLAY-NOT-REPRODUCED bounded search: writer failing at each of %d byte positions x 3, cancelled context, follow-up renders, %d single faults on a document with a 5000 byte string\n", want.Len()+1, faults)
}

var verifModes = []string{"error", "short write, nil error", "zero write, nil error"}

// one fault at byte offset 'at' of the stream, then healthy again
type verifOnce struct {
	at, mode int
	fired    bool
	got      bytes.Buffer
}

func (w *verifOnce) Write(p []byte) (int, error) {
	if w.fired || w.got.Len()+len(p) <= w.at {
		return w.got.Write(p)
	}
	w.fired = true
	n := w.at - w.got.Len()
	switch w.mode {
	case 0:
		w.got.Write(p[:n])
		return n, verifErr
	case 1:
		w.got.Write(p[:n])
		return n, nil
	}
	return 0, nil
}

func verifFirstDiff(a, b []byte) int {
	for i := 0; i < len(a) && i < len(b); i++ {
		if a[i] != b[i] {
			return i
		}
	}
	return min(len(a), len(b))
}
`

func replayC10(r *Run, o *Obligation) *ReplayResult {
	if r.replayOut == nil {
		r.replayOut = map[string]string{}
	}
	out, ok := r.replayOut["C10"]
	if !ok {
		out, _ = r.runReplayTest("generator/test-text", c10Harness, map[string]string{}, "TestVerifReplayC10")
		r.replayOut["C10"] = out
	}
	okc, detail := replayVerdict(out)
	if !okc && r.corpus != nil && (strings.Contains(o.Name, "#ensures.C10-5") || strings.Contains(o.Name, "#ensures.C10-6")) {
		// the cancelled-context clause of a generated closure: freshly generated code of the children-shapes corpus
		cout, ok := r.replayOut["C10cancelled"]
		if !ok {
			cout, _ = r.runCorpusTest("x_children_shapes", "TestVerifReplayC10Cancelled")
			r.replayOut["C10cancelled"] = cout
		}
		if c, d := replayVerdict(cout); c {
			return &ReplayResult{Confirmed: true, Input: "corpus/children-shapes generated by the generator under check, rendered with a cancelled context", Detail: d}
		}
	}
	return &ReplayResult{Confirmed: okc, Input: "the generated component of generator/test-text against failing writers at every byte position", Detail: detail}
}
