package main

// C10 replay (bounded): a real generated component (generator/test-text) against writers that fail at every byte
// position, cancelled contexts, and render sequences sharing the buffer pool.

const c10Harness = `package testtext

import (
	"bytes"
	"context"
	"errors"
	"fmt"
	"testing"
)

var verifErr = errors.New("injected writer failure")

// accepts 'accept' more bytes, then fails every write (a prefix of the failing write is accepted)
type verifFlaky struct {
	broken bool
	accept int
	got    bytes.Buffer
}

func (w *verifFlaky) Write(p []byte) (int, error) {
	if !w.broken {
		return w.got.Write(p)
	}
	n := len(p)
	if n > w.accept {
		n = w.accept
	}
	w.got.Write(p[:n])
	w.accept -= n
	if n < len(p) || w.accept == 0 {
		return n, verifErr
	}
	return n, nil
}

func TestVerifReplayC10(t *testing.T) {
	ctx := context.Background()
	c := BasicTemplate("Luiz <Bonfa> & é")
	var want bytes.Buffer
	if err := c.Render(ctx, &want); err != nil {
		fmt.Println("REPLAY-CONFIRMED reference render failed:", err)
		return
	}
	// cancelled context: an error, nothing written
	{
		cctx, cancel := context.WithCancel(ctx)
		cancel()
		var b bytes.Buffer
		if err := c.Render(cctx, &b); err == nil || b.Len() != 0 {
			fmt.Printf("REPLAY-CONFIRMED cancelled context: err=%v, %d bytes written\n", err, b.Len())
			return
		}
	}
	for accept := 0; accept <= want.Len(); accept++ {
		for rep := 0; rep < 3; rep++ {
			w := &verifFlaky{broken: true, accept: accept}
			err := c.Render(ctx, w)
			if accept < want.Len() {
				if !errors.Is(err, verifErr) {
					fmt.Printf("REPLAY-CONFIRMED writer fails after %d bytes: Render returned %v instead of the writer's error\n", accept, err)
					return
				}
			}
			if !bytes.HasPrefix(want.Bytes(), w.got.Bytes()) {
				fmt.Printf("REPLAY-CONFIRMED writer fails after %d bytes: it received %q, not a prefix of the document\n", accept, w.got.String())
				return
			}
			if err == nil && w.got.String() != want.String() {
				fmt.Printf("REPLAY-CONFIRMED Render returned nil but the writer holds %q\n", w.got.String())
				return
			}
			// a later render - to the same writer object, now healthy, and to a fresh one - is unaffected
			w.broken = false
			w.got.Reset()
			if err := c.Render(ctx, w); err != nil || w.got.String() != want.String() {
				fmt.Printf("REPLAY-CONFIRMED after a render that failed at byte %d, the next render to the same writer gave err=%v and %q (expected the full document)\n", accept, err, w.got.String())
				return
			}
			var fresh bytes.Buffer
			if err := c.Render(ctx, &fresh); err != nil || fresh.String() != want.String() {
				fmt.Printf("REPLAY-CONFIRMED after a render that failed at byte %d, a render to a fresh writer gave err=%v and %q\n", accept, err, fresh.String())
				return
			}
		}
	}
	fmt.Printf("REPLAY-NOT-REPRODUCED bounded search: writer failing at each of %d byte positions x 3, cancelled context, follow-up renders\n", want.Len()+1)
}
`

func replayC10(r *Run, o *Obligation) *ReplayResult {
	if r.replayOut == nil {
		r.replayOut = map[string]string{}
	}
	out, ok := r.replayOut["C10"]
	if !ok {
		out, _ = r.runReplayTest("generator/test-text", c10Harness, map[string]string{}, "TestVerifReplayC10")
		r.replayOut["C10"] = out
	}
	okc, detail := replayVerdict(out)
	return &ReplayResult{Confirmed: okc, Input: "the generated component of generator/test-text against failing writers at every byte position", Detail: detail}
}
