package main

import "strings"

// C14 replay: the real runtime under the Go race detector - goroutines that take and release pooled buffers, render
// through runtime.WriteString outside development mode and read the watched text file cache concurrently. A data race
// report (or a changed document) confirms a confinement violation.

const c14Harness = `package runtime

import (
	"bytes"
	"fmt"
	"os"
	"path/filepath"
	"sync"
	"testing"
)

func TestVerifReplayC14(t *testing.T) {
	dir := t.TempDir()
	txt := filepath.Join(dir, "templ_test.txt")
	os.WriteFile(txt, []byte("line one\nline two\nline three"), 0o644)
	var wg sync.WaitGroup
	bad := make(chan string, 64)
	for g := 0; g < 8; g++ {
		wg.Add(1)
		go func(g int) {
			defer wg.Done()
			for i := 0; i < 200; i++ {
				var out bytes.Buffer
				b, existing := GetBuffer(&out)
				want := fmt.Sprintf("goroutine %d render %d", g, i)
				if err := WriteString(b, 1, want); err != nil {
					bad <- err.Error()
				}
				if !existing {
					if err := ReleaseBuffer(b); err != nil {
						bad <- err.Error()
					}
				}
				if out.String() != want {
					bad <- fmt.Sprintf("goroutine %d render %d produced %q", g, i, out.String())
				}
				if lits, err := getWatchedStrings(txt); err != nil || len(lits) != 3 {
					bad <- fmt.Sprintf("watched strings: %v %v", lits, err)
				}
			}
		}(g)
	}
	wg.Wait()
	close(bad)
	for m := range bad {
		fmt.Println("REPLAY-CONFIRMED concurrent renders interfere: " + m)
		return
	}
	fmt.Println("REPLAY-NOT-REPRODUCED bounded run: 8 goroutines x 200 renders with pooled buffers and the watched-file cache, race detector on")
}
`

func replayC14(r *Run, o *Obligation) *ReplayResult {
	if r.replayOut == nil {
		r.replayOut = map[string]string{}
	}
	out, ok := r.replayOut["C14"]
	if !ok {
		out, _ = r.runReplayTestFlags("runtime", c14Harness, map[string]string{}, "TestVerifReplayC14", "-race")
		r.replayOut["C14"] = out
	}
	input := "8 goroutines x 200 renders on the real runtime under the race detector"
	if strings.Contains(out, "WARNING: DATA RACE") {
		detail := "REPLAY-CONFIRMED the Go race detector reports a data race"
		lines := strings.Split(out, "\n")
		for i, l := range lines {
			if strings.Contains(l, "WARNING: DATA RACE") {
				var ctx []string
				for j := i + 1; j < len(lines) && j < i+6; j++ {
					ctx = append(ctx, strings.TrimSpace(lines[j]))
				}
				detail += ": " + strings.Join(ctx, " | ")
				break
			}
		}
		return &ReplayResult{Confirmed: true, Input: input, Detail: detail}
	}
	okc, detail := replayVerdict(out)
	return &ReplayResult{Confirmed: okc, Input: input, Detail: detail}
}
