package main

import "strings"

// C14 replay: the real runtime under the Go race detector - goroutines that take and release pooled buffers, render
// through runtime.WriteString outside development mode and read the watched text file cache concurrently. A data race
// report (or a changed document) confirms a confinement violation.

const c14Harness = `package runtime

import (
	"bytes"
	"fmt"
	"os"
	"path/filepath"
	"sync"
	"testing"
)

func TestVerifReplayC14(t *testing.T) {
	dir := t.TempDir()
	txt := filepath.Join(dir, "templ_test.txt")
	os.WriteFile(txt, []byte("line one\nline two\nline three"), 0o644)
	var wg sync.WaitGroup
	bad := make(chan string, 64)
	for g := 0; g < 8; g++ {
		wg.Add(1)
		go func(g int) {
			defer wg.Done()
			for i := 0; i < 200; i++ {
				var out bytes.Buffer
				b, existing := GetBuffer(&out)
				want := fmt.Sprintf("goroutine %d render %d", g, i)
				if err := WriteString(b, 1, want); err != nil {
					bad <- err.Error()
				}
				if !existing {
					if err := ReleaseBuffer(b); err != nil {
						bad <- err.Error()
					}
				}
				if out.String() != want {
					bad <- fmt.Sprintf("goroutine %d render %d produced %q", g, i, out.String())
				}
				if lits, err := getWatchedStrings(txt); err != nil || len(lits) != 3 {
					bad <- fmt.Sprintf("watched strings: %v %v", lits, err)
				}
			}
		}(g)
	}
	wg.Wait()
	close(bad)
	for m := range bad {
		fmt.Println("REPLAY-CONFIRMED concurrent renders interfere: " + m)
		return
	}
	fmt.Println("REPLAY-NOT-REPRODUCED bounded run: 8 goroutines x 200 renders with pooled buffers and the watched-file cache, race detector on")
}
`

// the handlers and the buffer pool of package templ: concurrent requests through templ.Handler, each goroutine
// with its own component and a slow response writer; every body must be the document of its own component
const c14RootHarness = `package templ

import (
	"context"
	"fmt"
	"io"
	"net/http"
	"net/http/httptest"
	"strings"
	"sync"
	"testing"
	"time"
)

type verifSlowRW struct {
	hdr  http.Header
	body strings.Builder
}

func (w *verifSlowRW) Header() http.Header { return w.hdr }
func (w *verifSlowRW) WriteHeader(int)     {}
func (w *verifSlowRW) Write(p []byte) (int, error) {
	for i := 0; i < len(p); i += 64 {
		w.body.Write(p[i:min(len(p), i+64)])
		time.Sleep(20 * time.Microsecond)
	}
	return len(p), nil
}

func TestVerifReplayC14Root(t *testing.T) {
	var wg sync.WaitGroup
	bad := make(chan string, 64)
	for g := 0; g < 8; g++ {
		wg.Add(1)
		go func(g int) {
			defer wg.Done()
			want := fmt.Sprintf("<h1>user-%02d</h1>", g) + strings.Repeat(string(rune('a'+g)), 600)
			comp := ComponentFunc(func(ctx context.Context, w io.Writer) error {
				_, err := io.WriteString(w, want)
				return err
			})
			h := Handler(comp)
			for i := 0; i < 150; i++ {
				w := &verifSlowRW{hdr: http.Header{}}
				h.ServeHTTP(w, httptest.NewRequest("GET", fmt.Sprintf("/page/%d", g), nil))
				if w.body.String() != want {
					select {
					case bad <- fmt.Sprintf("request %d of goroutine %d received %q..., the document of its component starts %q", i, g, w.body.String()[:min(w.body.Len(), 24)], want[:24]):
					default:
					}
					return
				}
			}
		}(g)
	}
	wg.Wait()
	// the CSS middleware: every request behind one middleware value gets the document a lone request gets (the
	// registries of a render are its own), sequentially and concurrently
	{
		unreg := ComponentCSSClass{ID: "unreg_1", Class: SafeCSS(".unreg_1{color:red;}")}
		reg := ComponentCSSClass{ID: "reg_1", Class: SafeCSS(".reg_1{color:blue;}")}
		page := ComponentFunc(func(ctx context.Context, w io.Writer) error {
			if err := RenderCSSItems(ctx, w, unreg, reg); err != nil {
				return err
			}
			_, err := io.WriteString(w, "<p class=\"unreg_1 reg_1\">x</p>")
			return err
		})
		get := func(h http.Handler) string {
			w := &verifSlowRW{hdr: http.Header{}}
			h.ServeHTTP(w, httptest.NewRequest("GET", "/page", nil))
			return w.body.String()
		}
		want := get(NewCSSMiddleware(Handler(page), reg))
		mw := NewCSSMiddleware(Handler(page), reg)
		for i := 1; i <= 2; i++ {
			if got := get(mw); got != want {
				select {
				case bad <- fmt.Sprintf("request %d behind one CSS middleware received %q, a lone request receives %q", i, got, want):
				default:
				}
			}
		}
		var wg2 sync.WaitGroup
		for g := 0; g < 8 && len(bad) == 0; g++ {
			wg2.Add(1)
			go func() {
				defer wg2.Done()
				for i := 0; i < 50; i++ {
					if got := get(mw); got != want {
						select {
						case bad <- fmt.Sprintf("a concurrent request behind one CSS middleware received %q, a lone request receives %q", got, want):
						default:
						}
						return
					}
				}
			}()
		}
		wg2.Wait()
	}
	close(bad)
	for m := range bad {
		fmt.Println("REPLAY-CONFIRMED concurrent requests interfere: " + m)
		return
	}
	fmt.Println("REPLAY-NOT-REPRODUCED bounded run: 8 goroutines x 150 requests through templ.Handler with slow writers, 2 + 8 x 50 requests behind one CSS middleware, race detector on")
}
`

func replayC14(r *Run, o *Obligation) *ReplayResult {
	if r.replayOut == nil {
		r.replayOut = map[string]string{}
	}
	out, ok := r.replayOut["C14"]
	if !ok {
		out, _ = r.runReplayTestFlags("runtime", c14Harness, map[string]string{}, "TestVerifReplayC14", "-race")
		if !strings.Contains(out, "WARNING: DATA RACE") && !strings.Contains(out, "REPLAY-CONFIRMED") {
			out2, _ := r.runReplayTestFlags(".", c14RootHarness, map[string]string{}, "TestVerifReplayC14Root", "-race")
			if strings.Contains(out2, "WARNING: DATA RACE") || strings.Contains(out2, "REPLAY-CONFIRMED") || !strings.Contains(out2, "REPLAY-NOT-REPRODUCED") {
				out = out2
			} else {
				out = strings.Replace(out, "race detector on", "race detector on; 8 goroutines x 150 requests through templ.Handler with slow writers, 2 + 8 x 50 requests behind one CSS middleware", 1)
			}
		}
		r.replayOut["C14"] = out
	}
	input := "8 goroutines x 200 renders on the real runtime and 8 x 150 requests through templ.Handler under the race detector"
	if strings.Contains(out, "WARNING: DATA RACE") {
		detail := "REPLAY-CONFIRMED the Go race detector reports a data race"
		lines := strings.Split(out, "\n")
		for i, l := range lines {
			if strings.Contains(l, "WARNING: DATA RACE") {
				var ctx []string
				for j := i + 1; j < len(lines) && j < i+6; j++ {
					ctx = append(ctx, strings.TrimSpace(lines[j]))
				}
				detail += ": " + strings.Join(ctx, " | ")
				break
			}
		}
		return &ReplayResult{Confirmed: true, Input: input, Detail: detail}
	}
	okc, detail := replayVerdict(out)
	return &ReplayResult{Confirmed: okc, Input: input, Detail: detail}
}
