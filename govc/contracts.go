package main

// Contract files: comment-only Go files (build tag verif) in the package
// directories of /repo. Lines start with "//@".
//
//   //@ func (*Document) Insert [C17]
//   //@   requires d != nil
//   //@   modifies d.Lines, lines
//   //@   ensures d.Lines == splice(old(d.Lines), ...)
//   //@   loop 1 invariant 0 <= i && i <= len(s)
//   //@   loop 1 modifies-extra x
//   //@   use 2 lemmaName(a, b)           (instantiate a lemma before the k-th "use point")
//   //@   inline
//   //@ spec name(a, b) = expr
//   //@ lemma name(x, y): hyp1 && hyp2 ==> concl  by reglang
//   //@ table jsStrReplacementTable

import (
	"fmt"
	"go/ast"
	"go/parser"
	"os"
	"path/filepath"
	"regexp"
	"strings"
)

type Clause struct {
	Ord   int      // position among the untagged clauses of the contract (stable under property filtering)
	OrdS  string   // tagged clause: "<prop>.<position among that property's clauses>" - adding clauses for another property never renumbers it
	Props []string // non-empty: the clause belongs to these properties only
	Text  string
	Expr  ast.Expr
	Line  int
	File  string
}

type LoopSpec struct {
	Invariants []*Clause
	ModExtra   []string
	Unroll     bool // range over a constant-length collection: execute the body once per element instead of cutting the loop
}

type UseSpec struct {
	Props []string // non-empty: only for these properties
	Where string   // e.g. "loop1.body", "return", "call:WriteString#2", "exit", "entry"
	Expr  ast.Expr
	Text  string
}

type Contract struct {
	Pkg          string // package path
	Recv         string // receiver type name without * ("" for functions)
	Name         string
	Variant      string // "Name/variant": an additional contract for the same function (never used at call sites)
	Props        []string
	Requires     []*Clause
	Ensures      []*Clause
	Modifies     []ast.Expr
	ModText      []string
	Loops        map[int]*LoopSpec
	Uses         []*UseSpec
	Asserts      []*UseSpec
	Assumes      []*UseSpec // library facts assumed at a program point (listed in the trusted base)
	Inits        []*UseSpec // ghost initialisation of a fresh channel: init <where>: chantag(ch) == e
	Inline       bool
	Iface        bool   // contract of an interface method: assumed for arbitrary implementations
	Impl         string // "Type.Method": this function (or closure) must satisfy that interface contract
	Lets         []*UseSpec
	Running      []*Clause // checked and then assumed after every statement of the body
	CallSite     []*Clause // obligations at every call site, evaluated in the caller's scope with the formals bound to the arguments
	ModAll       bool      // "modifies *": everything reachable from the receiver / pointer arguments and all ghost state may change
	FromTemplate bool      // instantiated from a methods block
	Template     bool      // "methods (*T)": default contract of every method of T without a contract of its own
	UseTemplate  bool      // "usemethods": the clauses of the receiver's methods block are part of this contract
	NoInv        []string  // parameters that are not assumed to satisfy the type invariants (the function must cope with any value)
	Trusted      bool      // contract assumed, body not verified (listed in evidence)
	Pure         bool
	File         string
	Line         int
}

func (c *Contract) Key() string {
	k := contractKey(c.Pkg, c.Recv, c.Name)
	if c.Variant != "" {
		k += "/" + c.Variant
	}
	return k
}
func contractKey(pkg, recv, name string) string {
	if recv != "" {
		return pkg + "." + recv + "." + name
	}
	return pkg + "." + name
}

type SpecFn struct {
	Name   string
	Params []string
	Body   ast.Expr
	Text   string
	Pkg    string
}

type Lemma struct {
	Name   string
	Params []string
	Hyps   ast.Expr // may be nil
	Concl  ast.Expr
	By     string // "reglang" | "smt" | "compute"
	Text   string
	Pkg    string
	Props  []string
}

type LangDirective struct {
	Name string
	Kind string   // entries | unmapped | regexp
	Args []string // table names / literals
	Pkg  string
	Text string
}

type PoolDirective struct {
	Var  string
	Type string
	Inv  ast.Expr
	Text string
	Pkg  string
}

// sawRuneStart: some contract speaks about rune boundaries, so range loops over strings publish them.
var sawRuneStart bool

// sawLineFns: some contract counts line feeds (nlCount / lineStart), so range loops publish the per-rune step facts.
var sawLineFns bool

// TypeInv: `typeinv T(x): expr` - every value of the named type T that enters a verified function from outside
// (parameters, results of calls, elements of incoming slices, payloads of incoming interfaces) is assumed to
// satisfy expr; values built inside verified code get no such assumption.
type TypeInv struct {
	Pkg, Type, Param string
	Expr             ast.Expr
	Text             string
}

// ChanInv: `chaninv <elem type>(ch, m): expr` - what every message m sent on a channel ch of that element type
// satisfies. Checked at every send in a function under contract (and every send statement on such a channel in the
// package must be in one), assumed for every message received.
type ChanInv struct {
	Pkg, Elem, Ch, Msg string
	Expr               ast.Expr
	Text               string
}

// LockInv: `lockinv T.mu(x) protects f, g: expr` - the invariant of the state that the mutex field mu of T protects.
// Acquiring x.mu forgets the protected fields and assumes the invariant; releasing it proves the invariant.
type LockInv struct {
	Pkg, Type, Mutex, Param string
	Protects                []string
	Expr                    ast.Expr
	Text                    string
}

type ContractSet struct {
	AssumePure  map[string]bool      // full names (types.Func.FullName) of callees without contract that are taken to be pure functions of their arguments
	Closable    map[string]bool      // pkgpath.<elem type text>: channels of this element type get closed - see closableChan
	NeverClosed map[string]bool      // pkgpath.<elem type text>: no close of such a channel anywhere in the package (sweep)
	ChanInvs    map[string]*ChanInv  // pkgpath.<elem type text>
	LockInvs    map[string]*LockInv  // pkgpath.Type.mutex
	Guards      map[string]string    // pkgpath.var -> name of the mutex (package-level variable) that guards it
	TypeInvs    map[string]*TypeInv  // pkgpath.Type
	Templates   map[string]*Contract // pkg.Recv -> default contract of the methods of Recv
	Pools       map[string]*PoolDirective
	LangDirs    []*LangDirective
	Contracts   map[string]*Contract
	Specs       map[string]*SpecFn
	Lemmas      map[string]*Lemma
	Errors      []string
}

var funcHdr = regexp.MustCompile(`^func\s+(?:\(\s*\*?\s*([A-Za-z_][A-Za-z0-9_]*)\s*\)\s*)?([A-Za-z_][A-Za-z0-9_$]*(?:/[A-Za-z0-9_]+)?)\s*(?:\[([^\]]*)\])?\s*$`)
var typeinvHdr = regexp.MustCompile(`^typeinv\s+([A-Za-z_][A-Za-z0-9_]*)\s*\(\s*([A-Za-z_][A-Za-z0-9_]*)\s*\)\s*:\s*(.*)$`)
var methodsHdr = regexp.MustCompile(`^methods\s+\(\s*\*?\s*([A-Za-z_][A-Za-z0-9_]*)\s*\)\s*(?:\[([^\]]*)\])?\s*$`)
var specHdr = regexp.MustCompile(`^spec\s+([A-Za-z_][A-Za-z0-9_]*)\s*\(([^)]*)\)\s*=\s*(.*)$`)
var lemmaHdr = regexp.MustCompile(`^lemma\s+([A-Za-z_][A-Za-z0-9_]*)\s*\(([^)]*)\)\s*(?:\[([^\]]*)\])?\s*:\s*(.*)$`)

var langHdr = regexp.MustCompile(`^lang\s+([A-Za-z_][A-Za-z0-9_]*)\s*=\s*([a-z]+)\((.*)\)\s*$`)

var chaninvHdr = regexp.MustCompile(`^chaninv\s+(\*?[A-Za-z_][A-Za-z0-9_.]*)\s*\(\s*([A-Za-z_][A-Za-z0-9_]*)\s*,\s*([A-Za-z_][A-Za-z0-9_]*)\s*\)\s*:\s*(.*)$`)
var lockinvHdr = regexp.MustCompile(`^lockinv\s+([A-Za-z_][A-Za-z0-9_]*)\.([A-Za-z_][A-Za-z0-9_]*)\s*\(\s*([A-Za-z_][A-Za-z0-9_]*)\s*\)\s*protects\s+([A-Za-z0-9_, ]+):\s*(.*)$`)
var poolHdr = regexp.MustCompile(`^pool\s+([A-Za-z_][A-Za-z0-9_]*)\s+(\S+)\s*:\s*(.*)$`)

var clauseKeywords = []string{"package", "assumepure", "neverclosed", "closable", "chaninv", "lockinv", "init", "guarded", "usemethods", "typeinv", "noinv", "methods", "callsite", "func", "spec", "lemma", "lang", "pool", "interface", "implements", "let", "running", "assume", "requires", "ensures", "modifies", "loop", "use", "assert", "inline", "trusted", "pure"}

func startsKeyword(s string) string {
	for _, k := range clauseKeywords {
		if s == k || strings.HasPrefix(s, k+" ") || strings.HasPrefix(s, k+"\t") {
			return k
		}
	}
	return ""
}

func parseSpecExpr(text string) (ast.Expr, error) {
	t := rewriteImplies(text)
	e, err := parser.ParseExpr(t)
	if err != nil {
		return nil, fmt.Errorf("cannot parse %q: %v", text, err)
	}
	return e, nil
}

// rewriteImplies turns   A ==> B   into implies(A, B) (right associative, lowest
// precedence) and  A <==> B  into iff(A, B), inside every parenthesised group
// and call argument.
func rewriteImplies(s string) string {
	// split into top-level comma separated items is only relevant inside
	// parens; handle recursively.
	var out strings.Builder
	i := 0
	var seg strings.Builder
	flushTop := func(x string) string { return rewriteTop(x) }
	depthStart := -1
	depth := 0
	inStr := byte(0)
	for i < len(s) {
		c := s[i]
		if inStr != 0 {
			if c == '\\' && inStr != '`' && i+1 < len(s) {
				if depth == 0 {
					seg.WriteByte(c)
					seg.WriteByte(s[i+1])
				}
				i += 2
				continue
			}
			if c == inStr {
				inStr = 0
			}
			if depth == 0 {
				seg.WriteByte(c)
			}
			i++
			continue
		}
		if c == '"' || c == '`' || c == '\'' {
			inStr = c
			if depth == 0 {
				seg.WriteByte(c)
			}
			i++
			continue
		}
		if c == '(' || c == '[' {
			if depth == 0 {
				depthStart = i
			}
			depth++
			i++
			continue
		}
		if c == ')' || c == ']' {
			depth--
			if depth == 0 {
				inner := s[depthStart+1 : i]
				// split by top-level commas
				parts := splitTopLevel(inner, ',')
				for k := range parts {
					parts[k] = rewriteImplies(parts[k])
				}
				seg.WriteByte(s[depthStart])
				seg.WriteString(strings.Join(parts, ","))
				seg.WriteByte(c)
			}
			i++
			continue
		}
		if depth == 0 {
			seg.WriteByte(c)
		}
		i++
	}
	out.WriteString(flushTop(seg.String()))
	return out.String()
}

func splitTopLevel(s string, sep byte) []string {
	var parts []string
	depth := 0
	inStr := byte(0)
	last := 0
	for i := 0; i < len(s); i++ {
		c := s[i]
		if inStr != 0 {
			if c == '\\' && inStr != '`' {
				i++
				continue
			}
			if c == inStr {
				inStr = 0
			}
			continue
		}
		switch c {
		case '"', '`', '\'':
			inStr = c
		case '(', '[', '{':
			depth++
		case ')', ']', '}':
			depth--
		default:
			if c == sep && depth == 0 {
				parts = append(parts, s[last:i])
				last = i + 1
			}
		}
	}
	parts = append(parts, s[last:])
	return parts
}

func splitTopLevelStr(s string, sep string) []string {
	var parts []string
	depth := 0
	inStr := byte(0)
	last := 0
	for i := 0; i < len(s); i++ {
		c := s[i]
		if inStr != 0 {
			if c == '\\' && inStr != '`' {
				i++
				continue
			}
			if c == inStr {
				inStr = 0
			}
			continue
		}
		switch c {
		case '"', '`', '\'':
			inStr = c
		case '(', '[', '{':
			depth++
		case ')', ']', '}':
			depth--
		default:
			if depth == 0 && strings.HasPrefix(s[i:], sep) {
				// do not split "<==>" when looking for "==>"
				if sep == "==>" && i > 0 && s[i-1] == '<' {
					continue
				}
				parts = append(parts, s[last:i])
				last = i + len(sep)
				i += len(sep) - 1
			}
		}
	}
	parts = append(parts, s[last:])
	return parts
}

func rewriteTop(s string) string {
	if parts := splitTopLevelStr(s, "<==>"); len(parts) == 2 {
		return "iff(" + rewriteTop(parts[0]) + ", " + rewriteTop(parts[1]) + ")"
	}
	parts := splitTopLevelStr(s, "==>")
	if len(parts) == 1 {
		return s
	}
	res := parts[len(parts)-1]
	for k := len(parts) - 2; k >= 0; k-- {
		res = "implies(" + parts[k] + ", " + res + ")"
	}
	return res
}

// LoadContracts reads every verif_contracts*.go in dir for package pkgPath.
func (cs *ContractSet) LoadDir(dir, pkgPath string) {
	files, _ := filepath.Glob(filepath.Join(dir, "verif_contracts*.go"))
	for _, f := range files {
		data, err := os.ReadFile(f)
		if err != nil {
			continue
		}
		cs.parse(string(data), f, pkgPath)
	}
}

func (cs *ContractSet) errf(file string, line int, format string, args ...interface{}) {
	cs.Errors = append(cs.Errors, fmt.Sprintf("%s:%d: ", file, line)+fmt.Sprintf(format, args...))
}

func (cs *ContractSet) parse(src, file, pkgPath string) {
	type rawClause struct {
		text string
		line int
	}
	var raws []rawClause
	for i, line := range strings.Split(src, "\n") {
		t := strings.TrimSpace(line)
		if !strings.HasPrefix(t, "//@") {
			continue
		}
		t = strings.TrimSpace(strings.TrimPrefix(t, "//@"))
		if t == "" || strings.HasPrefix(t, "#") {
			continue
		}
		if strings.Contains(t, "runeStart(") {
			sawRuneStart = true
		}
		if strings.Contains(t, "nlCount(") || strings.Contains(t, "lineStart(") {
			sawLineFns = true
		}
		if startsKeyword(t) != "" || len(raws) == 0 {
			raws = append(raws, rawClause{t, i + 1})
		} else {
			raws[len(raws)-1].text += " " + t
		}
	}
	var cur *Contract
	for _, rc := range raws {
		kw := startsKeyword(rc.text)
		rest := strings.TrimSpace(strings.TrimPrefix(rc.text, kw))
		mkClause := func(text string) *Clause {
			var props []string
			if strings.HasPrefix(text, "{") {
				if k := strings.Index(text, "}"); k > 0 {
					for _, p := range strings.FieldsFunc(text[1:k], func(r rune) bool { return r == ',' || r == ' ' }) {
						props = append(props, p)
					}
					text = strings.TrimSpace(text[k+1:])
				}
			}
			e, err := parseSpecExpr(text)
			if err != nil {
				cs.errf(file, rc.line, "%v", err)
				return nil
			}
			return &Clause{Props: props, Text: text, Expr: e, Line: rc.line, File: file}
		}
		switch kw {
		case "package":
			// package <import path>: the blocks that follow are contracts for that (external) package, assumed, never
			// verified - e.g. the interface contract of a library's interface method
			if f := strings.Fields(rest); len(f) == 1 {
				pkgPath = f[0]
			} else {
				cs.errf(file, rc.line, "bad package directive %q", rc.text)
			}
			cur = nil
		case "guarded":
			// guarded <var> by <mutex>
			f := strings.Fields(rest)
			if len(f) != 3 || f[1] != "by" {
				cs.errf(file, rc.line, "bad guarded directive %q", rc.text)
				continue
			}
			if cs.Guards == nil {
				cs.Guards = map[string]string{}
			}
			cs.Guards[pkgPath+"."+f[0]] = f[2]
			cur = nil
		case "typeinv":
			m := typeinvHdr.FindStringSubmatch(rc.text)
			if m == nil {
				cs.errf(file, rc.line, "bad typeinv directive %q", rc.text)
				continue
			}
			e, err := parseSpecExpr(m[3])
			if err != nil {
				cs.errf(file, rc.line, "%v", err)
				continue
			}
			if cs.TypeInvs == nil {
				cs.TypeInvs = map[string]*TypeInv{}
			}
			cs.TypeInvs[pkgPath+"."+m[1]] = &TypeInv{Pkg: pkgPath, Type: m[1], Param: m[2], Expr: e, Text: m[3]}
			cur = nil
		case "methods":
			m := methodsHdr.FindStringSubmatch(rc.text)
			if m == nil {
				cs.errf(file, rc.line, "bad methods header %q", rc.text)
				cur = nil
				continue
			}
			cur = &Contract{Pkg: pkgPath, Recv: m[1], Name: "*", Template: true, Loops: map[int]*LoopSpec{}, File: file, Line: rc.line}
			for _, p := range strings.FieldsFunc(m[2], func(r rune) bool { return r == ',' || r == ' ' }) {
				cur.Props = append(cur.Props, p)
			}
			if cs.Templates == nil {
				cs.Templates = map[string]*Contract{}
			}
			cs.Templates[pkgPath+"."+m[1]] = cur
		case "func":
			m := funcHdr.FindStringSubmatch(rc.text)
			if m == nil {
				cs.errf(file, rc.line, "bad func header %q", rc.text)
				cur = nil
				continue
			}
			cur = &Contract{Pkg: pkgPath, Recv: m[1], Name: m[2], Loops: map[int]*LoopSpec{}, File: file, Line: rc.line}
			if k := strings.Index(cur.Name, "/"); k >= 0 {
				cur.Variant = cur.Name[k+1:]
				cur.Name = cur.Name[:k]
			}
			for _, p := range strings.FieldsFunc(m[3], func(r rune) bool { return r == ',' || r == ' ' }) {
				cur.Props = append(cur.Props, p)
			}
			if _, dup := cs.Contracts[cur.Key()]; dup {
				cs.errf(file, rc.line, "duplicate contract for %s", cur.Key())
			}
			cs.Contracts[cur.Key()] = cur
		case "spec":
			m := specHdr.FindStringSubmatch(rc.text)
			if m == nil {
				cs.errf(file, rc.line, "bad spec header %q", rc.text)
				continue
			}
			e, err := parseSpecExpr(m[3])
			if err != nil {
				cs.errf(file, rc.line, "%v", err)
				continue
			}
			sf := &SpecFn{Name: m[1], Body: e, Text: m[3], Pkg: pkgPath}
			for _, p := range strings.Split(m[2], ",") {
				if p = strings.TrimSpace(p); p != "" {
					sf.Params = append(sf.Params, p)
				}
			}
			cs.Specs[sf.Name] = sf
			cur = nil
		case "assumepure":
			// assumepure f, (T).M, (*T).M, other/pkg.F: callees without contract or model that are deterministic
			// functions of their arguments and change nothing (each one is read and justified where it is listed)
			if cs.AssumePure == nil {
				cs.AssumePure = map[string]bool{}
			}
			for _, n := range strings.Split(strings.TrimSpace(strings.TrimPrefix(rc.text, "assumepure")), ",") {
				n = strings.TrimSpace(n)
				if n == "" {
					continue
				}
				full := n
				switch {
				case strings.HasPrefix(n, "(*") && !strings.Contains(n, "/") && !strings.Contains(n[:strings.Index(n, ")")], "."):
					full = "(*" + pkgPath + "." + n[2:]
				case strings.HasPrefix(n, "(") && !strings.HasPrefix(n, "(*") && !strings.Contains(n, "/") && !strings.Contains(n[:strings.Index(n, ")")], "."):
					full = "(" + pkgPath + "." + n[1:]
				case !strings.HasPrefix(n, "(") && !strings.Contains(n, "."):
					full = pkgPath + "." + n
				}
				cs.AssumePure[full] = true
			}
			cur = nil
		case "neverclosed":
			f := strings.Fields(rc.text)
			if len(f) != 2 {
				cs.errf(file, rc.line, "bad neverclosed directive %q", rc.text)
				continue
			}
			if cs.NeverClosed == nil {
				cs.NeverClosed = map[string]bool{}
			}
			cs.NeverClosed[pkgPath+"."+f[1]] = true
			cur = nil
		case "closable":
			f := strings.Fields(rc.text)
			if len(f) != 2 {
				cs.errf(file, rc.line, "bad closable directive %q", rc.text)
				continue
			}
			if cs.Closable == nil {
				cs.Closable = map[string]bool{}
			}
			cs.Closable[pkgPath+"."+f[1]] = true
			cur = nil
		case "chaninv":
			m := chaninvHdr.FindStringSubmatch(rc.text)
			if m == nil {
				cs.errf(file, rc.line, "bad chaninv directive %q", rc.text)
				continue
			}
			e, err := parseSpecExpr(m[4])
			if err != nil {
				cs.errf(file, rc.line, "%v", err)
				continue
			}
			if cs.ChanInvs == nil {
				cs.ChanInvs = map[string]*ChanInv{}
			}
			cs.ChanInvs[pkgPath+"."+m[1]] = &ChanInv{Pkg: pkgPath, Elem: m[1], Ch: m[2], Msg: m[3], Expr: e, Text: m[4]}
			cur = nil
		case "lockinv":
			m := lockinvHdr.FindStringSubmatch(rc.text)
			if m == nil {
				cs.errf(file, rc.line, "bad lockinv directive %q", rc.text)
				continue
			}
			e, err := parseSpecExpr(m[5])
			if err != nil {
				cs.errf(file, rc.line, "%v", err)
				continue
			}
			if cs.LockInvs == nil {
				cs.LockInvs = map[string]*LockInv{}
			}
			li := &LockInv{Pkg: pkgPath, Type: m[1], Mutex: m[2], Param: m[3], Expr: e, Text: m[5]}
			for _, f := range strings.Split(m[4], ",") {
				if f = strings.TrimSpace(f); f != "" {
					li.Protects = append(li.Protects, f)
				}
			}
			cs.LockInvs[pkgPath+"."+m[1]+"."+m[2]] = li
			cur = nil
		case "pool":
			m := poolHdr.FindStringSubmatch(rc.text)
			if m == nil {
				cs.errf(file, rc.line, "bad pool directive %q", rc.text)
				continue
			}
			e, err := parseSpecExpr(m[3])
			if err != nil {
				cs.errf(file, rc.line, "%v", err)
				continue
			}
			cs.Pools[pkgPath+"."+m[1]] = &PoolDirective{Var: m[1], Type: m[2], Inv: e, Text: m[3], Pkg: pkgPath}
			cur = nil
		case "lang":
			m := langHdr.FindStringSubmatch(rc.text)
			if m == nil {
				cs.errf(file, rc.line, "bad lang directive %q", rc.text)
				continue
			}
			ld := &LangDirective{Name: m[1], Kind: m[2], Pkg: pkgPath, Text: rc.text}
			for _, a := range splitTopLevel(m[3], ',') {
				if a = strings.TrimSpace(a); a != "" {
					ld.Args = append(ld.Args, a)
				}
			}
			cs.LangDirs = append(cs.LangDirs, ld)
			cur = nil
		case "lemma":
			m := lemmaHdr.FindStringSubmatch(rc.text)
			if m == nil {
				cs.errf(file, rc.line, "bad lemma header %q", rc.text)
				continue
			}
			body := m[4]
			by := "smt"
			if k := strings.LastIndex(body, " by "); k >= 0 {
				by = strings.TrimSpace(body[k+4:])
				body = body[:k]
			}
			lm := &Lemma{Name: m[1], By: by, Text: body, Pkg: pkgPath}
			for _, p := range strings.Split(m[2], ",") {
				if p = strings.TrimSpace(p); p != "" {
					lm.Params = append(lm.Params, p)
				}
			}
			for _, p := range strings.FieldsFunc(m[3], func(r rune) bool { return r == ',' || r == ' ' }) {
				lm.Props = append(lm.Props, p)
			}
			parts := splitTopLevelStr(body, "==>")
			var err error
			if len(parts) >= 2 {
				lm.Hyps, err = parseSpecExpr(strings.Join(parts[:len(parts)-1], " && "))
				if err == nil {
					lm.Concl, err = parseSpecExpr(parts[len(parts)-1])
				}
			} else {
				lm.Concl, err = parseSpecExpr(body)
			}
			if err != nil {
				cs.errf(file, rc.line, "%v", err)
				continue
			}
			cs.Lemmas[lm.Name] = lm
			cur = nil
		default:
			if cur == nil {
				cs.errf(file, rc.line, "clause outside func block: %q", rc.text)
				continue
			}
			switch kw {
			case "requires":
				if c := mkClause(rest); c != nil {
					cur.Requires = append(cur.Requires, c)
				}
			case "usemethods":
				cur.UseTemplate = true
			case "noinv":
				for _, p := range strings.FieldsFunc(rest, func(r rune) bool { return r == ',' || r == ' ' }) {
					cur.NoInv = append(cur.NoInv, p)
				}
			case "callsite":
				// callsite requires <expr>
				if c := mkClause(strings.TrimSpace(strings.TrimPrefix(rest, "requires"))); c != nil {
					cur.CallSite = append(cur.CallSite, c)
				}
			case "ensures":
				if c := mkClause(rest); c != nil {
					cur.Ensures = append(cur.Ensures, c)
				}
			case "running":
				if c := mkClause(rest); c != nil {
					cur.Running = append(cur.Running, c)
				}
			case "modifies":
				for _, p := range splitTopLevel(rest, ',') {
					p = strings.TrimSpace(p)
					if p == "" {
						continue
					}
					if p == "*" {
						cur.ModAll = true
						continue
					}
					e, err := parser.ParseExpr(p)
					if err != nil {
						cs.errf(file, rc.line, "bad modifies %q", p)
						continue
					}
					cur.Modifies = append(cur.Modifies, e)
					cur.ModText = append(cur.ModText, p)
				}
			case "loop":
				f := strings.Fields(rest)
				if len(f) == 2 && f[1] == "unroll" {
					n := 0
					fmt.Sscanf(f[0], "%d", &n)
					if cur.Loops[n] == nil {
						cur.Loops[n] = &LoopSpec{}
					}
					cur.Loops[n].Unroll = true
					continue
				}
				if len(f) < 3 {
					cs.errf(file, rc.line, "bad loop clause %q", rc.text)
					continue
				}
				n := 0 // loop 0 = default for every loop (generated-code contract)
				fmt.Sscanf(f[0], "%d", &n)
				ls := cur.Loops[n]
				if ls == nil {
					ls = &LoopSpec{}
					cur.Loops[n] = ls
				}
				body := strings.TrimSpace(strings.TrimPrefix(strings.TrimSpace(strings.TrimPrefix(rest, f[0])), f[1]))
				switch f[1] {
				case "invariant":
					if c := mkClause(body); c != nil {
						ls.Invariants = append(ls.Invariants, c)
					}
				case "havoc":
					for _, p := range strings.Split(body, ",") {
						ls.ModExtra = append(ls.ModExtra, strings.TrimSpace(p))
					}
				default:
					cs.errf(file, rc.line, "bad loop clause %q", rc.text)
				}
			case "use", "assert", "assume", "init":
				// use <where>: expr
				k := strings.Index(rest, ":")
				if k < 0 {
					cs.errf(file, rc.line, "bad %s clause %q", kw, rc.text)
					continue
				}
				where := strings.TrimSpace(rest[:k])
				var uprops []string
				if strings.HasPrefix(where, "{") {
					if q := strings.Index(where, "}"); q > 0 {
						uprops = strings.FieldsFunc(where[1:q], func(r rune) bool { return r == ',' || r == ' ' })
						where = strings.TrimSpace(where[q+1:])
					}
				}
				e, err := parseSpecExpr(strings.TrimSpace(rest[k+1:]))
				if err != nil {
					cs.errf(file, rc.line, "%v", err)
					continue
				}
				u := &UseSpec{Props: uprops, Where: where, Expr: e, Text: strings.TrimSpace(rest[k+1:])}
				switch kw {
				case "use":
					cur.Uses = append(cur.Uses, u)
				case "assert":
					cur.Asserts = append(cur.Asserts, u)
				case "init":
					cur.Inits = append(cur.Inits, u)
				default:
					cur.Assumes = append(cur.Assumes, u)
				}
			case "interface":
				cur.Iface = true
			case "implements":
				cur.Impl = rest
			case "let":
				// let NAME = expr @ where
				k := strings.LastIndex(rest, "@")
				eq := strings.Index(rest, "=")
				if k < 0 || eq < 0 || eq > k {
					cs.errf(file, rc.line, "bad let clause %q", rc.text)
					continue
				}
				e, err := parseSpecExpr(strings.TrimSpace(rest[eq+1 : k]))
				if err != nil {
					cs.errf(file, rc.line, "%v", err)
					continue
				}
				cur.Lets = append(cur.Lets, &UseSpec{Where: strings.TrimSpace(rest[k+1:]), Expr: e, Text: strings.TrimSpace(rest[:eq])})
			case "inline":
				cur.Inline = true
			case "trusted":
				cur.Trusted = true
			case "pure":
				cur.Pure = true
			}
		}
	}
}

func NewContractSet() *ContractSet {
	return &ContractSet{Pools: map[string]*PoolDirective{}, Contracts: map[string]*Contract{}, Specs: map[string]*SpecFn{}, Lemmas: map[string]*Lemma{}}
}

func (c *Clause) ordName(k int) string {
	if c.OrdS != "" {
		return c.OrdS
	}
	if c.Ord != 0 {
		return fmt.Sprint(c.Ord)
	}
	return fmt.Sprint(k + 1)
}
