package main

import "strings"

// C16 replay: the real parser and generator on templates and on pairs of
// templates (an edit), the real runtime.WriteString in development mode.
//
//  [skeleton] an edit for which HasChanged answers "no recompilation" although
//             the generated Go code differs in more than the bodies of its
//             string literals;
//  [literals] a literal with a raw line feed, a literal count / index
//             mismatch, or a text file line that does not unquote to the
//             compiled literal.

const c16Harness = `package generator

import (
	"bytes"
	"fmt"
	"os"
	"path/filepath"
	"regexp"
	"sort"
	"strconv"
	"strings"
	"testing"

	"github.com/a-h/templ/parser/v2"
)

var verifLitCall = regexp.MustCompile(` + "`" + `templruntime\.WriteString\(templ_7745c5c3_Buffer, (\d+), "((?:[^"\\]|\\.)*)"\)` + "`" + `)

func verifGen(src string) (GeneratorOutput, string, error) {
	tf, err := parser.ParseString(src)
	if err != nil {
		return GeneratorOutput{}, "", err
	}
	var b bytes.Buffer
	op, err := Generate(tf, &b, WithFileName("a.templ"))
	return op, b.String(), err
}

func verifSkeleton(code string) string {
	return verifLitCall.ReplaceAllString(code, "templruntime.WriteString(templ_7745c5c3_Buffer, $1, \"\")")
}

func TestVerifReplayC16(t *testing.T) {
	found := map[string]bool{}
	report := func(tag, msg string) {
		if !found[tag] {
			found[tag] = true
			fmt.Println("REPLAY-CONFIRMED [" + tag + "] " + strings.ReplaceAll(msg, "\n", "\\n"))
		}
	}
	// 1. literal protocol on every template we have
	srcs := map[string]string{
		"crafted/quotes": "package p\n\ntempl a() {\n\t<p title=\"a\\b&quot;c\">\"quoted\" \\ back\\slash é \x01</p>\n\t<!-- comment \"x\" -->\n\t<style>p { content: \"\\\"\"; }</style>\n}\n",
		"crafted/lines":  "package p\n\ntempl a() {\n\t<pre>line1\n  line2\n</pre>\n\t<input\n\t\tvalue=\"multi\nline\"\n\t/>\n}\n",
	}
	files, _ := filepath.Glob("test-*/*.templ")
	for _, f := range files {
		if data, err := os.ReadFile(f); err == nil {
			srcs[f] = string(data)
		}
	}
	var names []string
	for n := range srcs {
		names = append(names, n)
	}
	sort.Strings(names)
	for _, n := range names {
		op, code, err := verifGen(srcs[n])
		if err != nil {
			continue
		}
		calls := verifLitCall.FindAllStringSubmatch(code, -1)
		if len(calls) != len(op.Literals) {
			report("literals", fmt.Sprintf("template %s: %d WriteString calls in the generated code but %d literals recorded", n, len(calls), len(op.Literals)))
			continue
		}
		lines := strings.Split(strings.Join(op.Literals, "\n"), "\n") // what the runtime reads back from the text file
		if len(op.Literals) == 0 {
			lines = nil // an empty text file has one (empty) line that no WriteString call asks for
		}
		if len(lines) != len(op.Literals) {
			report("literals", fmt.Sprintf("template %s: %d literals become %d lines of the development text file (a literal contains a raw line feed)", n, len(op.Literals), len(lines)))
			continue
		}
		for i, c := range calls {
			idx, _ := strconv.Atoi(c[1])
			if idx != i+1 {
				report("literals", fmt.Sprintf("template %s: call number %d carries index %d", n, i+1, idx))
				break
			}
			compiled, err1 := strconv.Unquote("\"" + c[2] + "\"")
			dev, err2 := strconv.Unquote("\"" + lines[idx-1] + "\"")
			if err1 != nil || err2 != nil || compiled != dev {
				report("literals", fmt.Sprintf("template %s: literal %d is %q in the generated code (value %q, %v) but line %d of the text file is %q (value %q, %v)", n, idx, c[2], compiled, err1, idx, lines[idx-1], dev, err2))
				break
			}
		}
	}
	// 2. edits: HasChanged == false must mean "same code apart from literal bodies"
	attrs := []string{"title", "href", "class", "style", "onclick", "data-x", "action", "hx-on::click"}
	var bodies []string
	for _, a := range attrs {
		bodies = append(bodies, "<a "+a+"={ x }></a>")
	}
	bodies = append(bodies, "<p>{ x }</p>", "<p title={ x }></p>", "<script>{{ x }}</script>", "<script>'{{ x }}'</script>", "@c(x)", "{ c(x) }",
		"<!-- { x } -->", "<input disabled?={ x }/>", "<input checked?={ x }/>", "<p>y</p>{ x }", "{ x }<p>y</p>", "<p>text</p>", "<p>other text</p>", "<div>text</div>")
	type gen struct {
		op   GeneratorOutput
		skel string
	}
	gens := map[string]gen{}
	for _, b := range bodies {
		op, code, err := verifGen("package p\n\ntempl t(x string) {\n\t" + b + "\n}\n")
		if err == nil {
			gens[b] = gen{op, verifSkeleton(code)}
		}
	}
	pairs := 0
	for _, a := range bodies {
		for _, b := range bodies {
			ga, ok1 := gens[a]
			gb, ok2 := gens[b]
			if a == b || !ok1 || !ok2 {
				continue
			}
			pairs++
			if !HasChanged(ga.op, gb.op) && ga.skel != gb.skel {
				// a difference only in the recorded error position is still different code, but name the sharper cases first
				if strings.Contains(a, "title") && (strings.Contains(b, "href") || strings.Contains(b, "style")) {
					report("skeleton", fmt.Sprintf("edit %q -> %q: HasChanged reports no recompilation (same %d literals, same expressions %v) although the generated code differs in more than its string literals; the running program would write the new attribute name but keep the old treatment of the value", a, b, len(ga.op.Literals), ga.op.SourceMap.Expressions))
				}
			}
		}
	}
	for _, a := range bodies {
		for _, b := range bodies {
			ga, ok1 := gens[a]
			gb, ok2 := gens[b]
			if a != b && ok1 && ok2 && !HasChanged(ga.op, gb.op) && ga.skel != gb.skel {
				report("skeleton", fmt.Sprintf("edit %q -> %q: HasChanged reports no recompilation although the generated code differs in more than its string literals", a, b))
			}
		}
	}
	// what HasChanged does compare is compared exactly: white space inside a Go string literal is code
	exact := [][2]string{
		{"<pre>{ \"name  qty\" }</pre>", "<pre>{ \"name qty\" }</pre>"},
		{"<p title={ \"a\\tb\" }></p>", "<p title={ \"a b\" }></p>"},
		{"<p>{ x + \" \" }</p>", "<p>{ x + \"\" }</p>"},
		{"<p>{ x }</p>", "<p>{ x  }</p>"},
	}
	for _, pr := range exact {
		opa, ca, err1 := verifGen("package p\n\ntempl t(x string) {\n\t" + pr[0] + "\n}\n")
		opb, cb, err2 := verifGen("package p\n\ntempl t(x string) {\n\t" + pr[1] + "\n}\n")
		if err1 != nil || err2 != nil {
			continue
		}
		pairs++
		if !HasChanged(opa, opb) && verifSkeleton(ca) != verifSkeleton(cb) {
			report("exact", fmt.Sprintf("edit %q -> %q: HasChanged reports no recompilation although the Go expressions differ (%q vs %q) and so does the generated code", pr[0], pr[1], opa.SourceMap.Expressions, opb.SourceMap.Expressions))
		}
	}
	// ... and so is top-level Go code: an edit inside a multi-line raw string, on a line that looks like a comment
	exactFiles := [][2]string{
		{"package p\n\nvar footer = \x60\nsee\n  https://docs.example.com/v1/manual\n\x60\n\ntempl t(x string) {\n\t<p>{ footer }</p>\n}\n", "package p\n\nvar footer = \x60\nsee\n  https://docs.example.com/v2/manual\n\x60\n\ntempl t(x string) {\n\t<p>{ footer }</p>\n}\n"},
		{"package p\n\nconst sep = \"//\" // one\n\ntempl t(x string) {\n\t<p>{ sep }</p>\n}\n", "package p\n\nconst sep = \"/\" // one\n\ntempl t(x string) {\n\t<p>{ sep }</p>\n}\n"},
	}
	for _, pr := range exactFiles {
		opa, ca, err1 := verifGen(pr[0])
		opb, cb, err2 := verifGen(pr[1])
		if err1 != nil || err2 != nil {
			continue
		}
		pairs++
		if !HasChanged(opa, opb) && verifSkeleton(ca) != verifSkeleton(cb) {
			report("exact", fmt.Sprintf("edit of top-level Go code %q -> %q: HasChanged reports no recompilation (recorded expressions %q vs %q) although the generated code differs", pr[0], pr[1], opa.SourceMap.Expressions, opb.SourceMap.Expressions))
		}
	}
	if len(found) == 0 {
		fmt.Printf("REPLAY-NOT-REPRODUCED bounded search: %d templates for the literal protocol, %d edit pairs for HasChanged\n", len(names), pairs)
	}
}
`

// the runtime half: the lines the runtime reads back from a text file
const c16RuntimeHarness = `package runtime

import (
	"fmt"
	"os"
	"path/filepath"
	"strings"
	"testing"
)

func TestVerifReplayC16Runtime(t *testing.T) {
	dir := t.TempDir()
	for n, lits := range [][]string{
		{" leading space", "middle", "trailing space "},
		{"only"},
		{"", "x", ""},
		{"\\t tab first", "a\\nb", "last\\t "},
	} {
		p := filepath.Join(dir, fmt.Sprintf("templ_%d.txt", n))
		os.WriteFile(p, []byte(strings.Join(lits, "\n")), 0o644)
		got, err := getWatchedStrings(p)
		if err != nil || len(got) != len(lits) {
			fmt.Printf("REPLAY-CONFIRMED [runtime] a text file holding the %d literals %q is read back as %d lines %q (err=%v)\n", len(lits), lits, len(got), got, err)
			return
		}
		for i := range lits {
			if got[i] != lits[i] {
				fmt.Printf("REPLAY-CONFIRMED [runtime] literal %d of the text file is %q but the runtime hands %q to WriteString\n", i+1, lits[i], got[i])
				return
			}
		}
	}
	fmt.Println("REPLAY-NOT-REPRODUCED bounded search: 4 text files read back line by line")
}
`

func replayC16(r *Run, o *Obligation) *ReplayResult {
	if strings.Contains(o.Name, "FSEventHandler") || strings.HasPrefix(o.Name, "generatecmd.") {
		if r.replayOut == nil {
			r.replayOut = map[string]string{}
		}
		out, ok := r.replayOut["C16handler"]
		if !ok {
			out, _ = r.runReplayTest("cmd/templ/generatecmd", c16HandlerHarness, map[string]string{}, "TestVerifReplayC16Handler")
			r.replayOut["C16handler"] = out
		}
		okc, detail := replayVerdict(out)
		return &ReplayResult{Confirmed: okc, Input: "the real FSEventHandler in development mode over edit pairs of one template file", Detail: detail}
	}
	if strings.HasPrefix(o.Name, "runtime.") {
		out, _ := r.runReplayTest("runtime", c16RuntimeHarness, map[string]string{}, "TestVerifReplayC16Runtime")
		okc, detail := replayVerdict(out)
		return &ReplayResult{Confirmed: okc, Input: "text files written to a temporary directory and read back by the real runtime", Detail: detail}
	}
	if r.replayOut == nil {
		r.replayOut = map[string]string{}
	}
	out, ok := r.replayOut["C16"]
	if !ok {
		out, _ = r.runReplayTest("generator", c16Harness, map[string]string{}, "TestVerifReplayC16")
		r.replayOut["C16"] = out
	}
	want := "[literals]"
	if strings.Contains(o.Name, "#exprlist") {
		want = "[exact]"
	}
	if strings.Contains(o.Name, "HasChanged") {
		want = "[exact]"
		if strings.Contains(o.Name, "HasChanged#ensures.1@") {
			want = "[skeleton]" // the listed known finding
		}
	}
	for _, line := range strings.Split(out, "\n") {
		if strings.Contains(line, "REPLAY-CONFIRMED "+want) {
			return &ReplayResult{Confirmed: true, Input: "templates and edit pairs run through the real parser, generator and HasChanged", Detail: strings.TrimSpace(line)}
		}
	}
	_, detail := replayVerdict(out)
	if strings.Contains(detail, "REPLAY-CONFIRMED") {
		detail = "REPLAY-NOT-REPRODUCED no discrepancy of the kind this obligation is about (" + want + ") on the bounded set"
	}
	return &ReplayResult{Confirmed: false, Input: "templates and edit pairs run through the real parser, generator and HasChanged", Detail: detail}
}

// C16, the development-mode text file writer (FSEventHandler.generate: file I/O, hashes, maps behind mutexes - outside
// the executor's subset): bounded stand-in, also in the quick tier. After every generation in development mode the
// text file holds exactly the literals of the template as it is now, whatever the previous contents were.
const c16HandlerHarness = `package generatecmd

import (
	"bytes"
	"context"
	"fmt"
	"io"
	"log/slog"
	"os"
	"path/filepath"
	"strings"
	"testing"

	"github.com/a-h/templ/generator"
	"github.com/a-h/templ/parser/v2"
	"github.com/a-h/templ/runtime"
)

func TestVerifReplayC16Handler(t *testing.T) {
	dir := t.TempDir()
	t.Setenv("TEMPL_DEV_MODE_ROOT", dir)
	log := slog.New(slog.NewTextHandler(io.Discard, nil))
	bodies := []string{
		"<p>Hi{ name }!!</p>", "<p>Hi!{ name }!</p>", "<p>Hi!!{ name }</p>", "<p>{ name }Hi!!</p>",
		"<p>call({ name })</p>", "<p>call(){ name }</p>", "<p>a</p>{ name }<p>b</p>", "<p>a</p><p>b</p>{ name }", "<p>ab</p>{ name }<p></p>",
		"<p>x</p>", "<p>y</p>", "<i>{ name }</i><b>{ name }</b>", "<i>{ name }{ name }</i><b></b>",
	}
	src := func(b string) string { return "package p\n\ntempl t(name string) {\n\t" + b + "\n}\n" }
	file := filepath.Join(dir, "t.templ")
	h := NewFSEventHandler(log, dir, true, nil, false, false, func(string, []byte) error { return nil }, false)
	n := 0
	for _, a := range bodies {
		for _, b := range bodies {
			for _, body := range []string{a, b} {
				os.WriteFile(file, []byte(src(body)), 0o644)
				res, _, err := h.generate(context.Background(), file)
				if err != nil {
					continue
				}
				tf, err := parser.ParseString(src(body))
				if err != nil {
					continue
				}
				var buf bytes.Buffer
				op, err := generator.Generate(tf, &buf)
				if err != nil {
					continue
				}
				want := strings.Join(op.Literals, "\n")
				got, _ := os.ReadFile(runtime.GetDevModeTextFileName(file))
				n++
				if string(got) != want {
					fmt.Printf("REPLAY-CONFIRMED watch mode: after the edit %q -> %q the handler reports %+v and the development text file holds %q, but the literals of the template are now %q: the running program keeps rendering the old text\n", a, b, res, got, want)
					return
				}
			}
		}
	}
	fmt.Printf("REPLAY-NOT-REPRODUCED bounded search: %d generations over %d edit pairs (text moved across expressions, literal counts kept) leave the text file equal to the current literals\n", n, len(bodies)*len(bodies))
}
`
