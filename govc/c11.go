package main

const c11Harness = `package templ

import (
	"context"
	"errors"
	"fmt"
	"io"
	"net/http"
	"net/http/httptest"
	"strings"
	"testing"
)

type verifRW struct {
	hdr    http.Header
	events []string
	body   []byte
	status int
}

func (w *verifRW) Header() http.Header { return w.hdr }
func (w *verifRW) WriteHeader(c int) {
	if w.status == 0 {
		w.status = c
	}
	w.events = append(w.events, fmt.Sprintf("status %d", c))
}
func (w *verifRW) Write(p []byte) (int, error) {
	if w.status == 0 {
		w.status = 200
	}
	w.body = append(w.body, p...)
	w.events = append(w.events, fmt.Sprintf("write %q", p))
	return len(p), nil
}

// verifChunk: small chunks, except in the 4-chunk documents, whose chunks are 300 KiB each (documents beyond any
// plausible internal buffer limit)
func verifChunk(chunks, i int) string {
	if chunks == 4 {
		return fmt.Sprintf("<p>big%d</p>", i) + strings.Repeat("x", 300<<10)
	}
	return fmt.Sprintf("<p>chunk%d</p>", i)
}

func verifShort(s string) string {
	if len(s) > 120 {
		return fmt.Sprintf("%s... (%d bytes)", s[:120], len(s))
	}
	return s
}

func TestVerifReplayC11(t *testing.T) {
	for chunks := 0; chunks <= 4; chunks++ {
		for _, failAfter := range []int{-1, 0, 1, 2, 3, 4} {
			for _, status := range []int{0, 201, 404} {
				for _, withEH := range []bool{false, true} {
					for _, ehWritesHeader := range []bool{false, true} {
					for _, boom := range []error{errors.New("boom"), fmt.Errorf("fetch: %w", context.Canceled), Error{Err: context.DeadlineExceeded, FileName: "x.templ", Line: 1, Col: 1}} {
					for _, ctype := range []string{"text/x-verif", "text/event-stream", "application/x-ndjson"} {
						doc := ""
						for i := 0; i < chunks; i++ {
							doc += verifChunk(chunks, i)
						}
						fails := failAfter >= 0 && failAfter <= chunks
						comp := ComponentFunc(func(ctx context.Context, w io.Writer) error {
							for i := 0; i < chunks; i++ {
								if fails && i == failAfter {
									return boom
								}
								if _, err := io.WriteString(w, verifChunk(chunks, i)); err != nil {
									return err
								}
							}
							if fails && failAfter == chunks {
								return boom
							}
							return nil
						})
						opts := []func(*ComponentHandler){WithContentType(ctype)}
						if status != 0 {
							opts = append(opts, WithStatus(status))
						}
						if withEH {
							opts = append(opts, WithErrorHandler(func(r *http.Request, err error) http.Handler {
								return http.HandlerFunc(func(w http.ResponseWriter, r *http.Request) {
									if ehWritesHeader {
										w.WriteHeader(502)
									}
									io.WriteString(w, "EH:"+err.Error())
								})
							}))
						}
						h := Handler(comp, opts...)
						w := &verifRW{hdr: http.Header{}}
						h.ServeHTTP(w, httptest.NewRequest("GET", "/", nil))
						cfg := fmt.Sprintf("chunks=%d failAfter=%d (error %v) status=%d errorHandler=%v ehWritesHeader=%v contentType=%s", chunks, failAfter, boom, status, withEH, ehWritesHeader, ctype)
						body := string(w.body)
						if !fails {
							want := 200
							if status != 0 {
								want = status
							}
							got := w.status
							if got == 0 {
								got = 200 // nothing written: net/http answers 200 when the handler returns
							}
							if body != doc || got != want || w.hdr.Get("Content-Type") != ctype {
								fmt.Printf("REPLAY-CONFIRMED %s: successful render answered status %d content-type %q body %q, want %d %q\n", cfg, w.status, w.hdr.Get("Content-Type"), verifShort(body), want, verifShort(doc))
								return
							}
							continue
						}
						// failure: never document bytes, never the success status with an error body
						wantBody, wantStatus := "templ: failed to render template\n", 500
						if withEH {
							wantBody, wantStatus = "EH:"+boom.Error(), 200
							if ehWritesHeader {
								wantStatus = 502
							}
						}
						if body != wantBody || w.status != wantStatus {
							fmt.Printf("REPLAY-CONFIRMED %s: failed render answered status %d body %q (%d events), want %d %q\n", cfg, w.status, verifShort(body), len(w.events), wantStatus, wantBody)
							return
						}
					}
					}
					}
				}
			}
		}
	}
	// pooled buffers must come back empty
	for i := 0; i < 50; i++ {
		b := GetBuffer()
		if b.Len() != 0 {
			fmt.Printf("REPLAY-CONFIRMED pooled buffer handed out with %d stale bytes\n", b.Len())
			return
		}
		b.WriteString("stale")
		ReleaseBuffer(b)
	}
	fmt.Println("REPLAY-NOT-REPRODUCED bounded search over chunk counts 0..4 (the 4-chunk documents are 1.2 MiB) x fault points x 3 kinds of error (plain, wrapping context.Canceled, templ.Error with a deadline) x status {0,201,404} x error handler configurations x 3 content types (incl. text/event-stream)")
}
`

func replayC11(r *Run, o *Obligation) *ReplayResult {
	out, _ := r.runReplayTest(".", c11Harness, map[string]string{}, "TestVerifReplayC11")
	ok, detail := replayVerdict(out)
	return &ReplayResult{Confirmed: ok, Input: "bounded search on the real handler (components writing k chunks then failing x handler configurations)", Detail: detail}
}
