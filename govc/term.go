package main

// Terms of the verification-condition language and their SMT-LIB rendering.
//
// Sorts: Int, Bool, String (one SMT character per Go byte), and arrays for maps.

import (
	"fmt"
	"math/big"
	"sort"
	"strconv"
	"strings"
	"sync/atomic"
	"unsafe"
)

type Sort struct {
	Kind string // "Int" "Bool" "String" "Array"
	K, V *Sort
}

var (
	SInt  = &Sort{Kind: "Int"}
	SBool = &Sort{Kind: "Bool"}
	SStr  = &Sort{Kind: "String"}
)

func SArr(k, v *Sort) *Sort { return &Sort{Kind: "Array", K: k, V: v} }

func (s *Sort) String() string {
	if s.Kind == "Array" {
		return "(Array " + s.K.String() + " " + s.V.String() + ")"
	}
	return s.Kind
}

func sameSort(a, b *Sort) bool { return a.String() == b.String() }

type Term struct {
	Op   string // "int" "str" "bool" "var" "app" or an SMT operator
	Args []*Term
	Sort *Sort
	Name string   // var / app name
	Int  *big.Int // "int"
	Str  string   // "str" (raw bytes)
	B    bool     // "bool"
	// quantifier
	Bound []*Term // for "forall": bound vars
	key   *string // memoised Key(); written once, read and written from the discharge goroutines (atomic)
}

func (t *Term) Key() string {
	if k := (*string)(atomic.LoadPointer((*unsafe.Pointer)(unsafe.Pointer(&t.key)))); k != nil {
		return *k
	}
	var sb strings.Builder
	switch t.Op {
	case "raw":
		sb.WriteString("raw:" + t.Str)
	case "int":
		sb.WriteString("#" + t.Int.String())
	case "str":
		sb.WriteString(strconv.Quote(t.Str))
	case "bool":
		if t.B {
			sb.WriteString("T")
		} else {
			sb.WriteString("F")
		}
	case "var":
		sb.WriteString("$" + t.Name)
	default:
		sb.WriteString("(" + t.Op)
		if t.Op == "app" {
			sb.WriteString(":" + t.Name)
		}
		for _, b := range t.Bound {
			sb.WriteString(" ^" + b.Name)
		}
		for _, a := range t.Args {
			sb.WriteString(" ")
			sb.WriteString(a.Key())
		}
		sb.WriteString(")")
	}
	k := sb.String()
	atomic.StorePointer((*unsafe.Pointer)(unsafe.Pointer(&t.key)), unsafe.Pointer(&k))
	return k
}

func Int(n int64) *Term           { return &Term{Op: "int", Int: big.NewInt(n), Sort: SInt} }
func BigInt(n *big.Int) *Term     { return &Term{Op: "int", Int: n, Sort: SInt} }
func Str(s string) *Term          { return &Term{Op: "str", Str: s, Sort: SStr} }
func Bool(b bool) *Term           { return &Term{Op: "bool", B: b, Sort: SBool} }
func Var(n string, s *Sort) *Term { return &Term{Op: "var", Name: n, Sort: s} }
func App(n string, s *Sort, args ...*Term) *Term {
	return &Term{Op: "app", Name: n, Sort: s, Args: args}
}

var True = Bool(true)
var False = Bool(false)

func (t *Term) IsTrue() bool  { return t.Op == "bool" && t.B }
func (t *Term) IsFalse() bool { return t.Op == "bool" && !t.B }
func (t *Term) IsInt() bool   { return t.Op == "int" }
func (t *Term) IsStr() bool   { return t.Op == "str" }

func mk(op string, s *Sort, args ...*Term) *Term { return &Term{Op: op, Sort: s, Args: args} }

func And(ts ...*Term) *Term {
	var out []*Term
	seen := map[string]bool{}
	for _, t := range ts {
		if t == nil || t.IsTrue() {
			continue
		}
		if t.IsFalse() {
			return False
		}
		if t.Op == "and" {
			for _, a := range t.Args {
				if !seen[a.Key()] {
					seen[a.Key()] = true
					out = append(out, a)
				}
			}
			continue
		}
		if !seen[t.Key()] {
			seen[t.Key()] = true
			out = append(out, t)
		}
	}
	if len(out) == 0 {
		return True
	}
	if len(out) == 1 {
		return out[0]
	}
	return mk("and", SBool, out...)
}

func Or(ts ...*Term) *Term {
	var out []*Term
	seen := map[string]bool{}
	for _, t := range ts {
		if t == nil || t.IsFalse() {
			continue
		}
		if t.IsTrue() {
			return True
		}
		if t.Op == "or" {
			for _, a := range t.Args {
				if !seen[a.Key()] {
					seen[a.Key()] = true
					out = append(out, a)
				}
			}
			continue
		}
		if !seen[t.Key()] {
			seen[t.Key()] = true
			out = append(out, t)
		}
	}
	if len(out) == 0 {
		return False
	}
	if len(out) == 1 {
		return out[0]
	}
	return mk("or", SBool, out...)
}

func Not(t *Term) *Term {
	if t.IsTrue() {
		return False
	}
	if t.IsFalse() {
		return True
	}
	if t.Op == "not" {
		return t.Args[0]
	}
	return mk("not", SBool, t)
}

func Implies(a, b *Term) *Term {
	if a.IsTrue() {
		return b
	}
	if a.IsFalse() || b.IsTrue() {
		return True
	}
	if b.IsFalse() {
		return Not(a)
	}
	return mk("=>", SBool, a, b)
}

func Ite(c, a, b *Term) *Term {
	if c.IsTrue() {
		return a
	}
	if c.IsFalse() {
		return b
	}
	if a.Key() == b.Key() {
		return a
	}
	if a.Sort.Kind == "Bool" {
		if a.IsTrue() && b.IsFalse() {
			return c
		}
		if a.IsFalse() && b.IsTrue() {
			return Not(c)
		}
	}
	return mk("ite", a.Sort, c, a, b)
}

func Eq(a, b *Term) *Term {
	if a.Key() == b.Key() {
		return True
	}
	if a.Op == "int" && b.Op == "int" {
		return Bool(a.Int.Cmp(b.Int) == 0)
	}
	if a.Op == "str" && b.Op == "str" {
		return Bool(a.Str == b.Str)
	}
	if a.Op == "bool" && b.Op == "bool" {
		return Bool(a.B == b.B)
	}
	if a.Sort.Kind == "Bool" {
		if b.IsTrue() {
			return a
		}
		if b.IsFalse() {
			return Not(a)
		}
		if a.IsTrue() {
			return b
		}
		if a.IsFalse() {
			return Not(b)
		}
	}
	if !sameSort(a.Sort, b.Sort) {
		panic(fmt.Sprintf("Eq: sort mismatch %s vs %s (%s, %s)", a.Sort, b.Sort, a.Key(), b.Key()))
	}
	return mk("=", SBool, a, b)
}

func cmp(op string, a, b *Term) *Term {
	if a.Op == "int" && b.Op == "int" {
		c := a.Int.Cmp(b.Int)
		switch op {
		case "<":
			return Bool(c < 0)
		case "<=":
			return Bool(c <= 0)
		case ">":
			return Bool(c > 0)
		case ">=":
			return Bool(c >= 0)
		}
	}
	if a.Key() == b.Key() {
		return Bool(op == "<=" || op == ">=")
	}
	return mk(op, SBool, a, b)
}

func Lt(a, b *Term) *Term { return cmp("<", a, b) }
func Le(a, b *Term) *Term { return cmp("<=", a, b) }
func Gt(a, b *Term) *Term { return cmp(">", a, b) }
func Ge(a, b *Term) *Term { return cmp(">=", a, b) }

func Add(a, b *Term) *Term {
	if a.Op == "int" && b.Op == "int" {
		return BigInt(new(big.Int).Add(a.Int, b.Int))
	}
	if a.Op == "int" && a.Int.Sign() == 0 {
		return b
	}
	if b.Op == "int" && b.Int.Sign() == 0 {
		return a
	}
	// (x + c1) + c2
	if b.Op == "int" && a.Op == "+" && len(a.Args) == 2 && a.Args[1].Op == "int" {
		return Add(a.Args[0], BigInt(new(big.Int).Add(a.Args[1].Int, b.Int)))
	}
	// (x - y) + y  ==> x
	if a.Op == "-" && len(a.Args) == 2 && a.Args[1].Key() == b.Key() {
		return a.Args[0]
	}
	return mk("+", SInt, a, b)
}

func Sub(a, b *Term) *Term {
	if a.Op == "int" && b.Op == "int" {
		return BigInt(new(big.Int).Sub(a.Int, b.Int))
	}
	if b.Op == "int" && b.Int.Sign() == 0 {
		return a
	}
	if a.Key() == b.Key() {
		return Int(0)
	}
	if b.Op == "int" {
		return Add(a, BigInt(new(big.Int).Neg(b.Int)))
	}
	// (x + y) - x ==> y ; (x + y) - y ==> x
	if a.Op == "+" && len(a.Args) == 2 {
		if a.Args[0].Key() == b.Key() {
			return a.Args[1]
		}
		if a.Args[1].Key() == b.Key() {
			return a.Args[0]
		}
	}
	return mk("-", SInt, a, b)
}

func Mul(a, b *Term) *Term {
	if a.Op == "int" && b.Op == "int" {
		return BigInt(new(big.Int).Mul(a.Int, b.Int))
	}
	return mk("*", SInt, a, b)
}

// Go's / and % truncate toward zero; SMT div/mod are Euclidean. For
// non-negative operands they agree; callers use DivT/ModT for the general case.
func DivE(a, b *Term) *Term {
	if a.Op == "int" && b.Op == "int" && b.Int.Sign() > 0 && a.Int.Sign() >= 0 {
		return BigInt(new(big.Int).Div(a.Int, b.Int))
	}
	return mk("div", SInt, a, b)
}
func ModE(a, b *Term) *Term {
	if a.Op == "int" && b.Op == "int" && b.Int.Sign() > 0 {
		return BigInt(new(big.Int).Mod(a.Int, b.Int))
	}
	return mk("mod", SInt, a, b)
}
func DivT(a, b *Term) *Term {
	if a.Op == "int" && b.Op == "int" && b.Int.Sign() != 0 {
		return BigInt(new(big.Int).Quo(a.Int, b.Int))
	}
	// trunc(a/b) = ite(a>=0, a div b, -((-a) div b))   for b>0 ; general form:
	q := mk("div", SInt, mk("abs", SInt, a), mk("abs", SInt, b))
	neg := mk("xor", SBool, Lt(a, Int(0)), Lt(b, Int(0)))
	return Ite(neg, Sub(Int(0), q), q)
}
func ModT(a, b *Term) *Term {
	if a.Op == "int" && b.Op == "int" && b.Int.Sign() != 0 {
		return BigInt(new(big.Int).Rem(a.Int, b.Int))
	}
	return Sub(a, Mul(b, DivT(a, b)))
}

func Concat(ts ...*Term) *Term {
	var out []*Term
	for _, t := range ts {
		if t.Op == "str.++" {
			out = append(out, t.Args...)
		} else {
			out = append(out, t)
		}
	}
	var res []*Term
	for _, t := range out {
		if t.Op == "str" && t.Str == "" {
			continue
		}
		if t.Op == "str" && len(res) > 0 && res[len(res)-1].Op == "str" {
			res[len(res)-1] = Str(res[len(res)-1].Str + t.Str)
			continue
		}
		res = append(res, t)
	}
	if len(res) == 0 {
		return Str("")
	}
	if len(res) == 1 {
		return res[0]
	}
	return mk("str.++", SStr, res...)
}

func StrLen(s *Term) *Term {
	if s.Op == "str" {
		return Int(int64(len(s.Str)))
	}
	if s.Op == "str.++" {
		var sum *Term = Int(0)
		for _, a := range s.Args {
			sum = Add(sum, StrLen(a))
		}
		return sum
	}
	return mk("str.len", SInt, s)
}

// Substr is s[lo:hi] (Go), i.e. (str.substr s lo (hi-lo)).
func Substr(s, lo, hi *Term) *Term {
	if s.Op == "str" && lo.Op == "int" && hi.Op == "int" {
		l, h := lo.Int.Int64(), hi.Int.Int64()
		if 0 <= l && l <= h && h <= int64(len(s.Str)) {
			return Str(s.Str[l:h])
		}
	}
	if lo.Op == "int" && lo.Int.Sign() == 0 && hi.Key() == StrLen(s).Key() {
		return s
	}
	if lo.Key() == hi.Key() {
		return Str("")
	}
	// (a ++ rest)[len(a):len(a ++ rest)] = rest
	if s.Op == "str.++" && len(s.Args) >= 2 && hi.Key() == StrLen(s).Key() {
		for k := 1; k < len(s.Args); k++ {
			if lo.Key() == StrLen(Concat(s.Args[:k]...)).Key() {
				return Concat(s.Args[k:]...)
			}
		}
	}
	// (a ++ rest)[0:len(a)] = a
	if s.Op == "str.++" && len(s.Args) >= 2 && lo.Op == "int" && lo.Int.Sign() == 0 {
		for k := 1; k < len(s.Args); k++ {
			if hi.Key() == StrLen(Concat(s.Args[:k]...)).Key() {
				return Concat(s.Args[:k]...)
			}
		}
	}
	// substr of substr
	if s.Op == "str.substr" {
		base, l0 := s.Args[0], s.Args[1]
		return mk("str.substr", SStr, base, Add(l0, lo), Sub(hi, lo))
	}
	return mk("str.substr", SStr, s, lo, Sub(hi, lo))
}

// ByteAt is int(s[i]).
func ByteAt(s, i *Term) *Term {
	if s.Op == "str" && i.Op == "int" {
		k := i.Int.Int64()
		if 0 <= k && k < int64(len(s.Str)) {
			return Int(int64(s.Str[k]))
		}
	}
	return mk("str.to_code", SInt, mk("str.at", SStr, s, i))
}

func FromCode(c *Term) *Term {
	if c.Op == "int" && c.Int.Sign() >= 0 && c.Int.Int64() < 256 {
		return Str(string([]byte{byte(c.Int.Int64())}))
	}
	return mk("str.from_code", SStr, c)
}

func Select(a, k *Term) *Term {
	// read over write
	if a.Op == "store" {
		if a.Args[1].Key() == k.Key() {
			return a.Args[2]
		}
	}
	return mk("select", a.Sort.V, a, k)
}
func Store(a, k, v *Term) *Term { return mk("store", a.Sort, a, k, v) }

func Forall(bound []*Term, body *Term) *Term {
	if body.IsTrue() {
		return True
	}
	return &Term{Op: "forall", Sort: SBool, Bound: bound, Args: []*Term{body}}
}
func Exists(bound []*Term, body *Term) *Term {
	return &Term{Op: "exists", Sort: SBool, Bound: bound, Args: []*Term{body}}
}

// ---------------------------------------------------------------------------
// SMT-LIB printing

func smtStr(s string) string {
	var sb strings.Builder
	sb.WriteByte('"')
	for i := 0; i < len(s); i++ {
		c := s[i]
		switch {
		case c == '"':
			sb.WriteString(`""`)
		case c == '\\':
			sb.WriteString(`\u{5c}`)
		case c >= 0x20 && c < 0x7f:
			sb.WriteByte(c)
		default:
			fmt.Fprintf(&sb, `\u{%x}`, c)
		}
	}
	sb.WriteByte('"')
	return sb.String()
}

func smtName(n string) string {
	ok := true
	for _, c := range n {
		if !(c >= 'a' && c <= 'z' || c >= 'A' && c <= 'Z' || c >= '0' && c <= '9' || strings.ContainsRune("_.!$-", c)) {
			ok = false
		}
	}
	if ok && n != "" && !(n[0] >= '0' && n[0] <= '9') {
		return n
	}
	return "|" + strings.NewReplacer("|", "_", "\\", "_").Replace(n) + "|"
}

type decl struct {
	name string
	args []*Sort
	res  *Sort
}

type smtPrinter struct {
	decls map[string]decl
	order []string
	memo  map[string]string // term key -> let name or text
}

func (p *smtPrinter) collect(t *Term, bound map[string]bool) {
	switch t.Op {
	case "var":
		if bound[t.Name] {
			return
		}
		if _, ok := p.decls[t.Name]; !ok {
			p.decls[t.Name] = decl{name: t.Name, res: t.Sort}
			p.order = append(p.order, t.Name)
		}
	case "app":
		if d, ok := p.decls[t.Name]; !ok {
			var as []*Sort
			for _, a := range t.Args {
				as = append(as, a.Sort)
			}
			p.decls[t.Name] = decl{name: t.Name, args: as, res: t.Sort}
			p.order = append(p.order, t.Name)
		} else if len(d.args) != len(t.Args) {
			panic("inconsistent arity for " + t.Name)
		}
	case "forall", "exists":
		nb := map[string]bool{}
		for k := range bound {
			nb[k] = true
		}
		for _, b := range t.Bound {
			nb[b.Name] = true
		}
		p.collect(t.Args[0], nb)
		return
	}
	for _, a := range t.Args {
		p.collect(a, bound)
	}
}

func (p *smtPrinter) print(t *Term) string {
	switch t.Op {
	case "int":
		if t.Int.Sign() < 0 {
			return "(- " + new(big.Int).Neg(t.Int).String() + ")"
		}
		return t.Int.String()
	case "str":
		return smtStr(t.Str)
	case "bool":
		if t.B {
			return "true"
		}
		return "false"
	case "var":
		return smtName(t.Name)
	case "app":
		if len(t.Args) == 0 {
			return smtName(t.Name)
		}
		parts := []string{smtName(t.Name)}
		for _, a := range t.Args {
			parts = append(parts, p.print(a))
		}
		return "(" + strings.Join(parts, " ") + ")"
	case "raw":
		return t.Str
	case "constarr":
		return "((as const " + t.Sort.String() + ") " + p.print(t.Args[0]) + ")"
	case "forall", "exists":
		var bs []string
		for _, b := range t.Bound {
			bs = append(bs, "("+smtName(b.Name)+" "+b.Sort.String()+")")
		}
		return "(" + t.Op + " (" + strings.Join(bs, " ") + ") " + p.print(t.Args[0]) + ")"
	}
	if s, ok := p.memo[t.Key()]; ok {
		return s
	}
	parts := []string{t.Op}
	for _, a := range t.Args {
		parts = append(parts, p.print(a))
	}
	s := "(" + strings.Join(parts, " ") + ")"
	p.memo[t.Key()] = s
	return s
}

// SMTQuery renders hyps ∧ ¬goal. If goal is nil the query is a cover query
// (hyps alone).
func SMTQuery(hyps []*Term, goal *Term, extraDecl string, wantModel bool) string {
	p := &smtPrinter{decls: map[string]decl{}, memo: map[string]string{}}
	for _, h := range hyps {
		p.collect(h, nil)
	}
	if goal != nil {
		p.collect(goal, nil)
	}
	var sb strings.Builder
	if wantModel {
		sb.WriteString("(set-option :produce-models true)\n")
	}
	sb.WriteString("(set-logic ALL)\n")
	sb.WriteString(extraDecl)
	names := append([]string(nil), p.order...)
	sort.Strings(names)
	for _, n := range names {
		d := p.decls[n]
		var as []string
		for _, a := range d.args {
			as = append(as, a.String())
		}
		fmt.Fprintf(&sb, "(declare-fun %s (%s) %s)\n", smtName(n), strings.Join(as, " "), d.res)
	}
	seen := map[string]bool{}
	for _, h := range hyps {
		txt := p.print(h)
		if seen[txt] {
			continue
		}
		seen[txt] = true
		fmt.Fprintf(&sb, "(assert %s)\n", txt)
	}
	if goal != nil {
		fmt.Fprintf(&sb, "(assert (not %s))\n", p.print(goal))
	}
	sb.WriteString("(check-sat)\n")
	if wantModel {
		sb.WriteString("(get-model)\n")
	}
	return sb.String()
}

// DedupeHyps drops hypotheses that print identically to an earlier one (spec evaluation re-asserts model facts).
func DedupeHyps(hyps []*Term) []*Term {
	p := &smtPrinter{decls: map[string]decl{}, memo: map[string]string{}}
	seen := map[string]bool{}
	var out []*Term
	for _, h := range hyps {
		p.collect(h, nil)
		txt := p.print(h)
		if seen[txt] {
			continue
		}
		seen[txt] = true
		out = append(out, h)
	}
	return out
}

// Subst replaces variables by name.
func Subst(t *Term, m map[string]*Term) *Term {
	switch t.Op {
	case "var":
		if r, ok := m[t.Name]; ok {
			return r
		}
		return t
	case "int", "str", "bool":
		return t
	}
	changed := false
	args := make([]*Term, len(t.Args))
	for i, a := range t.Args {
		args[i] = Subst(a, m)
		if args[i] != a {
			changed = true
		}
	}
	if !changed {
		return t
	}
	// not a struct copy: the memoised key of t may be written by another discharge goroutine at this moment
	return &Term{Op: t.Op, Args: args, Sort: t.Sort, Name: t.Name, Int: t.Int, Str: t.Str, B: t.B, Bound: t.Bound}
}

// symbols collects the free variable and uninterpreted-function names of t.
func (t *Term) symbols(into map[string]bool) {
	switch t.Op {
	case "var":
		into[t.Name] = true
		return
	case "app":
		into["@"+t.Name] = true
	case "int", "str", "bool":
		return
	}
	for _, a := range t.Args {
		a.symbols(into)
	}
}

// SliceHyps keeps the hypotheses in the cone of influence of the goal: those
// sharing a symbol, transitively, with it. Dropping hypotheses only weakens
// the antecedent, so unsat for the slice implies unsat for the whole query.
// Uninterpreted language predicates and library functions do not connect
// hypotheses by themselves (only through their arguments).
func SliceHyps(hyps []*Term, goal *Term) []*Term {
	if goal == nil || len(hyps) < 8 {
		return hyps
	}
	type hs struct {
		t    *Term
		syms map[string]bool
		in   bool
	}
	items := make([]*hs, len(hyps))
	for i, h := range hyps {
		m := map[string]bool{}
		h.symbols(m)
		for k := range m {
			if k[0] == '@' {
				delete(m, k)
			}
		}
		items[i] = &hs{t: h, syms: m}
	}
	live := map[string]bool{}
	goal.symbols(live)
	for k := range live {
		if k[0] == '@' {
			delete(live, k)
		}
	}
	for changed := true; changed; {
		changed = false
		for _, it := range items {
			if it.in {
				continue
			}
			hit := len(it.syms) == 0 // ground facts (about constants / uninterpreted functions only) are kept
			for k := range it.syms {
				if live[k] {
					hit = true
					break
				}
			}
			if hit {
				it.in = true
				changed = true
				for k := range it.syms {
					live[k] = true
				}
			}
		}
	}
	var out []*Term
	for _, it := range items {
		if it.in {
			out = append(out, it.t)
		}
	}
	return out
}

// AbstractPrefix replaces the interpreted predicate str.prefixof by an
// uninterpreted relation together with ground instances of its order axioms
// (reflexivity, transitivity over the atoms that occur, a ⊑ a++x). Replacing
// an interpreted predicate by an uninterpreted one constrained only by true
// facts weakens the hypotheses, so a proof found this way is sound. It is used
// for the long write chains of generated code, where word equations make the
// string solvers time out.
func AbstractPrefix(hyps []*Term, goal *Term) ([]*Term, *Term) {
	type pair struct{ a, b *Term }
	var atoms []pair
	seen := map[string]bool{}
	var rw func(t *Term) *Term
	rw = func(t *Term) *Term {
		switch t.Op {
		case "var", "int", "str", "bool":
			return t
		}
		args := make([]*Term, len(t.Args))
		changed := false
		for i, a := range t.Args {
			args[i] = rw(a)
			if args[i] != a {
				changed = true
			}
		}
		if t.Op == "str.prefixof" {
			k := args[0].Key() + "|" + args[1].Key()
			if !seen[k] {
				seen[k] = true
				atoms = append(atoms, pair{args[0], args[1]})
			}
			return App("prefix$", SBool, args[0], args[1])
		}
		if !changed {
			return t
		}
		return &Term{Op: t.Op, Args: args, Sort: t.Sort, Name: t.Name, Int: t.Int, Str: t.Str, B: t.B, Bound: t.Bound}
	}
	out := make([]*Term, 0, len(hyps))
	for _, h := range hyps {
		out = append(out, rw(h))
	}
	var g *Term
	if goal != nil {
		g = rw(goal)
	}
	P := func(a, b *Term) *Term { return App("prefix$", SBool, a, b) }
	for _, x := range atoms {
		if x.a.Key() == x.b.Key() {
			out = append(out, P(x.a, x.b))
		}
		// a ⊑ a ++ rest
		if x.b.Op == "str.++" && len(x.b.Args) > 0 {
			if x.a.Op == "str.++" {
				if len(x.a.Args) <= len(x.b.Args) {
					ok := true
					for i := range x.a.Args {
						if x.a.Args[i].Key() != x.b.Args[i].Key() {
							ok = false
						}
					}
					if ok {
						out = append(out, P(x.a, x.b))
					}
				}
			} else if x.a.Key() == x.b.Args[0].Key() {
				out = append(out, P(x.a, x.b))
			}
		}
	}
	// one-step transitivity towards the atoms of the goal
	if goal != nil {
		goalAtoms := map[string]bool{}
		var walk func(t *Term)
		walk = func(t *Term) {
			if t.Op == "str.prefixof" {
				goalAtoms[t.Args[0].Key()+"|"+t.Args[1].Key()] = true
			}
			for _, a := range t.Args {
				walk(a)
			}
		}
		walk(goal)
		have := map[string]pair{}
		for _, x := range atoms {
			have[x.a.Key()+"|"+x.b.Key()] = x
		}
		for _, gx := range atoms {
			if !goalAtoms[gx.a.Key()+"|"+gx.b.Key()] {
				continue
			}
			for _, y := range atoms {
				if y.b.Key() != gx.b.Key() || y.a.Key() == gx.a.Key() {
					continue
				}
				if x, ok := have[gx.a.Key()+"|"+y.a.Key()]; ok {
					out = append(out, Implies(And(P(x.a, x.b), P(y.a, y.b)), P(gx.a, gx.b)))
				}
			}
		}
	}
	if len(atoms) <= 60 {
		for _, x := range atoms {
			for _, y := range atoms {
				if x.b.Key() == y.a.Key() && x.a.Key() != y.b.Key() {
					out = append(out, Implies(And(P(x.a, x.b), P(y.a, y.b)), P(x.a, y.b)))
				}
			}
		}
	}
	return out, g
}
