package main

// Expression evaluation: one evaluator for code (typed AST, emits safety
// obligations) and for contract expressions (spec mode: untyped, by name).

import (
	"go/ast"
	"go/constant"
	"go/token"
	"go/types"
	"os"
	"runtime/debug"
	"strconv"
	"strings"

	"golang.org/x/tools/go/packages"
)

type evalCtx struct {
	argsOnly bool // havocReachable on behalf of a callee without contract: heap and ghost state of the values handed over only
	fc       *FnCtx
	st       *State
	info     *types.Info
	pkg      *packages.Package
	spec     bool
	scope    map[string]Value
	old      *State
	pol      int // +1: a universal may be skolemised (goal side, positive); -1: an existential may; 0: neither
	oldScope map[string]Value
	noLocals bool
	resultVs []Value
}

func (fc *FnCtx) specCtx(st *State, extra map[string]Value) *evalCtx {
	return &evalCtx{fc: fc, st: st, spec: true, scope: extra, old: fc.entry, pkg: fc.pkg}
}

type lval struct {
	get func() Value
	set func(Value)
}

func (ec *evalCtx) e() *Engine { return ec.fc.e }

func (ec *evalCtx) oblige(kind string, goal *Term, pos token.Pos, note string) {
	if ec.spec {
		return
	}
	if ec.fc.gen != nil {
		// generated closures: the safety sweep would judge user expressions embedded in the template
		return
	}
	if ec.fc.c != nil && ec.fc.c.FromTemplate {
		// default contract of a methods block: only what the block states is claimed (no panic-freedom sweep)
		return
	}
	ec.fc.oblige(ec.st, kind, goal, pos, note)
}

func (ec *evalCtx) evalBool(e ast.Expr) *Term {
	v := ec.eval(e)
	t, ok := v.(*Term)
	if !ok || t.Sort != SBool {
		panic(unsupported("expected boolean: %s", exprText(e)))
	}
	return t
}

func exprText(e ast.Expr) string {
	var sb strings.Builder
	printExpr(&sb, e)
	return sb.String()
}

func printExpr(sb *strings.Builder, e ast.Expr) {
	switch x := e.(type) {
	case *ast.BinaryExpr:
		printExpr(sb, x.X)
		sb.WriteString(" " + x.Op.String() + " ")
		printExpr(sb, x.Y)
	case *ast.CallExpr:
		printExpr(sb, x.Fun)
		sb.WriteString("(")
		for i, a := range x.Args {
			if i > 0 {
				sb.WriteString(", ")
			}
			printExpr(sb, a)
		}
		sb.WriteString(")")
	case *ast.UnaryExpr:
		sb.WriteString(x.Op.String())
		printExpr(sb, x.X)
	case *ast.SliceExpr:
		printExpr(sb, x.X)
		sb.WriteString("[")
		if x.Low != nil {
			printExpr(sb, x.Low)
		}
		sb.WriteString(":")
		if x.High != nil {
			printExpr(sb, x.High)
		}
		sb.WriteString("]")
	default:
		sb.WriteString(exprString(e))
	}
}

func constToValue(cv constant.Value) Value {
	switch cv.Kind() {
	case constant.Bool:
		return Bool(constant.BoolVal(cv))
	case constant.String:
		return Str(constant.StringVal(cv))
	case constant.Int:
		if i, ok := constant.Int64Val(cv); ok {
			return Int(i)
		}
		b, _ := new(bigInt).SetString(cv.ExactString(), 10)
		return BigInt(b)
	}
	return nil
}

// valueExpr lets engine code pass an evaluated value where an expression is expected.
type valueExpr struct {
	ast.BadExpr
	v Value
}

func (ec *evalCtx) eval(e ast.Expr) Value {
	if ve, ok := e.(*valueExpr); ok {
		return ve.v
	}
	if !ec.spec {
		if tv, ok := ec.info.Types[e]; ok && tv.Value != nil {
			if v := constToValue(tv.Value); v != nil {
				return v
			}
		}
	}
	switch x := e.(type) {
	case *ast.ParenExpr:
		return ec.eval(x.X)
	case *ast.BasicLit:
		switch x.Kind {
		case token.INT:
			b, ok := new(bigInt).SetString(x.Value, 0)
			if !ok {
				panic(unsupported("int literal %s", x.Value))
			}
			return BigInt(b)
		case token.STRING:
			s, err := strconv.Unquote(x.Value)
			if err != nil {
				panic(unsupported("string literal %s", x.Value))
			}
			return Str(s)
		case token.CHAR:
			r, _, _, err := strconv.UnquoteChar(x.Value[1:len(x.Value)-1], '\'')
			if err != nil {
				panic(unsupported("char literal %s", x.Value))
			}
			return Int(int64(r))
		}
		panic(unsupported("literal %s", x.Value))
	case *ast.Ident:
		return ec.evalIdent(x)
	case *ast.BinaryExpr:
		return ec.evalBinary(x)
	case *ast.UnaryExpr:
		return ec.evalUnary(x)
	case *ast.SelectorExpr:
		return ec.evalSelector(x)
	case *ast.IndexExpr:
		return ec.evalIndex(x)
	case *ast.SliceExpr:
		return ec.evalSlice(x)
	case *ast.CallExpr:
		return ec.evalCall(x)
	case *ast.StarExpr:
		p := ec.eval(x.X).(*PtrV)
		ec.oblige("nil", Not(p.Nil), x.Pos(), "dereference of "+exprText(x.X))
		return ec.st.heap[p.Obj]
	case *ast.CompositeLit:
		return ec.evalCompositeLit(x)
	case *ast.TypeAssertExpr:
		return ec.evalTypeAssert(x, false)
	case *ast.FuncLit:
		return ec.evalFuncLit(x)
	case *ast.KeyValueExpr:
		panic(unsupported("key-value expression outside composite literal"))
	}
	panic(unsupported("expression %T", e))
}

func (ec *evalCtx) evalMulti(e ast.Expr, n int) *TupleV {
	switch x := ast.Unparen(e).(type) {
	case *ast.TypeAssertExpr:
		return ec.evalTypeAssert(x, true).(*TupleV)
	case *ast.IndexExpr:
		if m, ok := ec.eval(x.X).(*MapV); ok {
			k := keyTerm(ec.eval(x.Index))
			return &TupleV{Vs: []Value{ec.mapGet(m, k), Select(m.Dom, k)}}
		}
	case *ast.UnaryExpr:
		if x.Op == token.ARROW && n == 2 {
			if ec.chanInvOf(x.X) != nil {
				return &TupleV{Vs: []Value{ec.recvFrom(x.X), True}} // never closed
			}
			return &TupleV{Vs: []Value{ec.recvFrom(x.X), Var(ec.e().fresher.name("recv.ok"), SBool)}}
		}
	}
	v := ec.eval(e)
	tv, ok := v.(*TupleV)
	if !ok || len(tv.Vs) != n {
		panic(unsupported("expected %d values from %s", n, exprText(e)))
	}
	return tv
}

func (ec *evalCtx) evalIdent(x *ast.Ident) Value {
	if ec.spec {
		switch x.Name {
		case "true":
			return True
		case "false":
			return False
		case "nil":
			return nilMarker{}
		}
		if v, ok := ec.scope[x.Name]; ok {
			return v
		}
		if x.Name == failedKey {
			return ec.failedLval().get()
		}
		if v, ok := ec.st.ghost["let:"+x.Name]; ok {
			return v
		}
		if !ec.noLocals {
			if obj, ok := ec.st.names[x.Name]; ok {
				if v, ok := ec.st.vars[obj]; ok {
					if bx, isBox := v.(*boxedV); isBox {
						return ec.st.heap[bx.Obj]
					}
					return v
				}
			}
		}
		// package-level constant / variable
		if ec.pkg != nil {
			if obj := ec.pkg.Types.Scope().Lookup(x.Name); obj != nil {
				switch o := obj.(type) {
				case *types.Const:
					if v := constToValue(o.Val()); v != nil {
						return v
					}
				case *types.Var:
					ec.confine(o, x.Pos(), "read")
					ec.confine(o, x.Pos(), "read")
					return ec.e().globalVar(ec.st, o)
				}
			}
		}
		if os.Getenv("GOVC_DEBUG") != "" {
			debug.PrintStack()
		}
		panic(unsupported("contract refers to unknown identifier %q", x.Name))
	}
	var obj types.Object = ec.info.Uses[x]
	if obj == nil {
		obj = ec.info.Defs[x]
	}
	switch o := obj.(type) {
	case *types.Nil:
		return ec.e().zeroValue(ec.st, ec.info.TypeOf(x))
	case *types.Var:
		if v, ok := ec.st.vars[o]; ok {
			if bx, isBox := v.(*boxedV); isBox {
				return ec.st.heap[bx.Obj]
			}
			return v
		}
		if o.Parent() == o.Pkg().Scope() {
			ec.confine(o, x.Pos(), "read")
			return ec.e().globalVar(ec.st, o)
		}
		panic(unsupported("variable %s has no value (captured from an enclosing function?)", x.Name))
	case *types.Func:
		return &FuncV{Name: o.FullName(), Id: App("fn:"+o.FullName(), SInt)}
	case *types.Const:
		if v := constToValue(o.Val()); v != nil {
			return v
		}
	}
	panic(unsupported("identifier %s (%T)", x.Name, obj))
}

type nilMarker struct{}

// protectedAccess: a field named in a `lockinv T.mu(x) protects ...` directive may only be read or written while
// x.mu is held (the invariant speaks about it on behalf of every goroutine).
func (ec *evalCtx) protectedAccess(x *ast.SelectorExpr) {
	if ec.spec || ec.e().cs == nil || len(ec.e().cs.LockInvs) == 0 {
		return
	}
	sel := ec.info.Selections[x]
	if sel == nil || sel.Kind() != types.FieldVal {
		return
	}
	t := sel.Recv()
	if p, ok := t.Underlying().(*types.Pointer); ok {
		t = p.Elem()
	}
	nt, ok := t.(*types.Named)
	if !ok || nt.Obj().Pkg() == nil {
		return
	}
	for _, li := range ec.e().cs.LockInvs {
		if li.Pkg != nt.Obj().Pkg().Path() || li.Type != nt.Obj().Name() {
			continue
		}
		for _, f := range li.Protects {
			if f != x.Sel.Name {
				continue
			}
			name := exprString(x.X) + "." + li.Mutex
			held := False
			for _, k := range []string{"lock:", "rlock:"} {
				if v, ok := ec.st.ghost[k+name].(*Term); ok {
					held = Or(held, v)
				}
			}
			ec.oblige("lock", held, x.Pos(), "field "+exprText(x)+" is protected by "+name+" (lockinv): accessed without holding it")
		}
	}
}

// Closed-channel safety (directive `closable <elem type>`). A send on a closed channel and a second close panic, so
// for channels of such an element type:
//   - chanopen(ch) is ghost state that any other goroutine may change at any moment, except for a channel this
//     activation made and has not closed (only the maker closes): every fact about the openness of other channels is
//     forgotten when a lock is acquired or released and at the start of a goroutine, and comes back only from a lock
//     invariant that is assumed while the lock is held;
//   - a send needs chanopen(ch); a close needs the channel to be this activation's own, still open, and every lock
//     whose invariant speaks about chanopen to be held (so that the invariant is re-proved at the release).
func (ec *evalCtx) closableChan(ch ast.Expr) bool {
	ct, ok := ec.info.TypeOf(ch).Underlying().(*types.Chan)
	if !ok || ec.e().cs == nil || len(ec.e().cs.Closable) == 0 {
		return false
	}
	return ec.e().closableElem(ct.Elem())
}

func (e *Engine) closableElem(elem types.Type) bool {
	for k := range e.cs.Closable {
		i := strings.LastIndex(k, ".")
		pkg := e.pkgs[k[:i]]
		if pkg != nil && types.TypeString(elem, types.RelativeTo(pkg.Types)) == k[i+1:] {
			return true
		}
	}
	return false
}

func (e *Engine) neverClosedElem(elem types.Type) bool {
	if e.cs == nil {
		return false
	}
	for k := range e.cs.NeverClosed {
		i := strings.LastIndex(k, ".")
		pkg := e.pkgs[k[:i]]
		if pkg != nil && types.TypeString(elem, types.RelativeTo(pkg.Types)) == k[i+1:] {
			return true
		}
	}
	return false
}

func chanOpenArr(st *State) *Term {
	if a, ok := st.ghost["chanopen"].(*Term); ok {
		return a
	}
	a := Var("chanopen.entry", SArr(SInt, SBool))
	st.ghost["chanopen"] = a
	return a
}

// forgetChanOpen: other goroutines may have closed any channel that is not this activation's own.
func (e *Engine) forgetChanOpen(st *State) {
	if e.cs == nil || len(e.cs.Closable) == 0 {
		return
	}
	a := Var(e.fresher.name("chanopen"), SArr(SInt, SBool))
	st.ghost["chanopen"] = a
	for k, v := range st.ghost {
		if name, ok := strings.CutPrefix(k, "chanown:"); ok {
			if own, isT := v.(*Term); isT && !own.IsFalse() {
				st.Assume(Implies(own, Select(a, Var(name, SInt))))
			}
		}
	}
}

// chanInvOf: the channel invariant declared for the element type of the channel expression ch (nil if none).
func (ec *evalCtx) chanInvOf(ch ast.Expr) *ChanInv {
	ct, ok := ec.info.TypeOf(ch).Underlying().(*types.Chan)
	if !ok || ec.e().cs == nil {
		return nil
	}
	return ec.e().chanInvForElem(ct.Elem())
}

func (e *Engine) chanInvForElem(elem types.Type) *ChanInv {
	for _, ci := range e.cs.ChanInvs {
		pkg := e.pkgs[ci.Pkg]
		if pkg == nil {
			continue
		}
		if types.TypeString(elem, types.RelativeTo(pkg.Types)) == ci.Elem {
			return ci
		}
	}
	return nil
}

// recvFrom: a value received from the channel expression ch. Its only known property is the channel invariant of
// the element type (what every sender under contract has proved); channels with an invariant are never closed.
func (ec *evalCtx) recvFrom(ch ast.Expr) Value {
	c := scalar(ec.eval(ch))
	ct := ec.info.TypeOf(ch).Underlying().(*types.Chan)
	v := ec.e().freshValue(ec.st, "recv", ct.Elem(), false)
	if ci := ec.chanInvOf(ch); ci != nil {
		pkg := ec.e().pkgs[ci.Pkg]
		sc := &evalCtx{fc: ec.fc, st: ec.st, spec: true, scope: map[string]Value{ci.Ch: c, ci.Msg: v}, pkg: pkg, noLocals: true, pol: -1}
		ec.st.Assume(sc.evalBool(ci.Expr))
		ec.e().notes = appendUnique(ec.e().notes, "channel invariant of "+ci.Elem+" ("+ci.Text+"): proved at every send (all send statements on such channels in the package are in functions under contract), assumed at every receive; such channels are never closed (checked)")
	}
	return v
}

func (ec *evalCtx) evalUnary(x *ast.UnaryExpr) Value {
	switch x.Op {
	case token.ARROW:
		if ec.spec {
			panic(unsupported("receive in a specification"))
		}
		return ec.recvFrom(x.X)
	case token.NOT:
		ec.pol = -ec.pol
		r := Not(scalar(ec.eval(x.X)))
		ec.pol = -ec.pol
		return r
	case token.SUB:
		v := Sub(Int(0), scalar(ec.eval(x.X)))
		if !ec.spec {
			if ii, ok := intKind(ec.info.TypeOf(x)); ok {
				v = wrapInt(v, ii)
			}
		}
		return v
	case token.ADD:
		return ec.eval(x.X)
	case token.AND:
		if cl, ok := ast.Unparen(x.X).(*ast.CompositeLit); ok {
			v := ec.evalCompositeLit(cl)
			return &PtrV{Nil: False, Obj: ec.e().allocObj(ec.st, v)}
		}
		// address of a local variable: box it.
		if id, ok := ast.Unparen(x.X).(*ast.Ident); ok && !ec.spec {
			obj := ec.info.Uses[id]
			if bx, ok := ec.st.vars[obj].(*boxedV); ok {
				return &PtrV{Nil: False, Obj: bx.Obj}
			}
			id := ec.e().allocObj(ec.st, ec.st.vars[obj])
			ec.st.vars[obj] = &boxedV{Obj: id}
			return &PtrV{Nil: False, Obj: id}
		}
		panic(unsupported("address-of %s", exprText(x.X)))
	}
	panic(unsupported("unary operator %s", x.Op))
}

// boxedV marks a local whose address was taken: its value lives in the heap.
type boxedV struct{ Obj int }

func (ec *evalCtx) evalBinary(x *ast.BinaryExpr) Value {
	switch x.Op {
	case token.LAND, token.LOR:
		a := scalar(ec.eval(x.X))
		g := a
		if x.Op == token.LOR {
			g = Not(a)
		}
		ng := len(ec.st.guards)
		ec.st.guards = append(ec.st.guards, g)
		var b *Term
		func() {
			defer func() { ec.st.guards = ec.st.guards[:ng] }() // also when the evaluation of the right operand gives up
			b = scalar(ec.eval(x.Y))
		}()
		if x.Op == token.LAND {
			return And(a, b)
		}
		return Or(a, b)
	}
	a := ec.eval(x.X)
	b := ec.eval(x.Y)
	var t types.Type
	if !ec.spec {
		t = ec.info.TypeOf(x.X)
		if x.Op == token.EQL || x.Op == token.NEQ {
			// convert untyped/nil side
			a = ec.convertTo(a, ec.info.TypeOf(x.X), ec.info.TypeOf(x.X))
		}
	}
	return ec.binop(x.Op, a, b, t, x.Pos())
}

func (ec *evalCtx) binop(op token.Token, a, b Value, t types.Type, pos token.Pos) Value {
	switch op {
	case token.EQL:
		return ec.eqValues(a, b)
	case token.NEQ:
		ec.pol = -ec.pol
		r := Not(ec.eqValues(a, b))
		ec.pol = -ec.pol
		return r
	}
	x, y := scalar(a), scalar(b)
	if x.Sort == SStr {
		switch op {
		case token.ADD:
			return Concat(x, y)
		case token.LSS:
			return mk("str.<", SBool, x, y)
		case token.LEQ:
			return mk("str.<=", SBool, x, y)
		case token.GTR:
			return mk("str.<", SBool, y, x)
		case token.GEQ:
			return mk("str.<=", SBool, y, x)
		}
		panic(unsupported("string operator %s", op))
	}
	var ii intInfo
	isInt := false
	if t != nil {
		ii, isInt = intKind(t)
	}
	var r *Term
	switch op {
	case token.ADD:
		r = Add(x, y)
	case token.SUB:
		r = Sub(x, y)
	case token.MUL:
		r = Mul(x, y)
	case token.QUO:
		ec.oblige("divzero", Not(Eq(y, Int(0))), pos, "division")
		if ec.spec || (isInt && ii.unsigned) {
			r = DivE(x, y)
		} else {
			r = DivT(x, y)
		}
	case token.REM:
		ec.oblige("divzero", Not(Eq(y, Int(0))), pos, "remainder")
		if ec.spec || (isInt && ii.unsigned) {
			r = ModE(x, y)
		} else {
			r = ModT(x, y)
		}
	case token.LSS:
		return Lt(x, y)
	case token.LEQ:
		return Le(x, y)
	case token.GTR:
		return Gt(x, y)
	case token.GEQ:
		return Ge(x, y)
	case token.SHL:
		if y.IsInt() {
			r = Mul(x, pow2(int(y.Int.Int64())))
		}
	case token.SHR:
		if y.IsInt() && isInt && ii.unsigned {
			r = DivE(x, pow2(int(y.Int.Int64())))
		}
	case token.AND:
		// x & (2^k - 1) for unsigned
		if y.IsInt() {
			m := new(bigInt).Add(y.Int, bigOne)
			if m.BitLen() > 0 && new(bigInt).And(m, y.Int).Sign() == 0 {
				r = ModE(x, BigInt(m))
			}
		}
	}
	if r == nil {
		panic(unsupported("operator %s", op))
	}
	if isInt && !ec.spec {
		r = wrapInt(r, ii)
	}
	return r
}

func (ec *evalCtx) eqValues(a, b Value) *Term {
	if ec.spec && (a == nil || b == nil) {
		// an element of a nil / empty slice: no such element exists (any index bound over it is empty)
		return True
	}
	if _, ok := a.(nilMarker); ok {
		a, b = b, a
	}
	if _, ok := b.(nilMarker); ok {
		switch x := a.(type) {
		case *PtrV:
			return x.Nil
		case *SliceV:
			if x.Nil == nil {
				panic(unsupported("nil-ness of this slice is not tracked"))
			}
			return x.Nil
		case *IfaceV:
			return Eq(x.Tag, Int(0))
		case *FuncV:
			return Eq(x.Id, Int(0))
		case *MapV:
			return Eq(x.Ref, Int(0))
		case *Term:
			return Eq(x, Int(0))
		case nilMarker:
			return True
		}
		panic(unsupported("comparison of %T with nil", a))
	}
	switch x := a.(type) {
	case *Term:
		y, ok := b.(*Term)
		if !ok {
			if iv, ok := b.(*IfaceV); ok {
				return Eq(x, iv.Id)
			}
			panic(unsupported("comparison of scalar with %T", b))
		}
		return Eq(x, y)
	case *PtrV:
		y := b.(*PtrV)
		if x.Obj == y.Obj {
			return Eq(x.Nil, y.Nil)
		}
		return And(x.Nil, y.Nil)
	case *StructV:
		y := b.(*StructV)
		var cs []*Term
		for _, n := range x.Names {
			cs = append(cs, ec.eqValues(x.F[n], y.F[n]))
		}
		return And(cs...)
	case *SliceV:
		y, ok := b.(*SliceV)
		if !ok {
			panic(unsupported("comparison of slice with %T", b))
		}
		if !ec.spec {
			panic(unsupported("slice comparison in code"))
		}
		k := Var(ec.e().fresher.name("k"), SInt)
		elemEq := ec.eqValues(x.At(k), y.At(k))
		body := Implies(And(Le(Int(0), k), Lt(k, x.Len)), elemEq)
		if ec.pol > 0 {
			return And(Eq(x.Len, y.Len), body)
		}
		return And(Eq(x.Len, y.Len), Forall([]*Term{k}, body))
	case *IfaceV:
		switch y := b.(type) {
		case *IfaceV:
			return And(Eq(x.Tag, y.Tag), Eq(x.Id, y.Id))
		case *Term:
			return Eq(x.Id, y)
		case *FuncV:
			return Eq(x.Id, y.Id)
		}
	case *FuncV:
		if y, ok := b.(*FuncV); ok {
			return Eq(x.Id, y.Id)
		}
	case *MapV:
		if y, ok := b.(*MapV); ok {
			if !ec.spec {
				panic(unsupported("map comparison in code"))
			}
			cs := []*Term{Eq(x.Dom, y.Dom)}
			for k := range x.Val {
				cs = append(cs, Eq(x.Val[k], y.Val[k]))
			}
			return And(cs...)
		}
	case *TupleV:
		y := b.(*TupleV)
		var cs []*Term
		for i := range x.Vs {
			cs = append(cs, ec.eqValues(x.Vs[i], y.Vs[i]))
		}
		return And(cs...)
	}
	panic(unsupported("comparison of %T with %T", a, b))
}

func (ec *evalCtx) deref(v Value, pos token.Pos, what string) Value {
	switch p := v.(type) {
	case *PtrV:
		ec.oblige("nil", Not(p.Nil), pos, "nil dereference: "+what)
		if p.Obj < 0 {
			panic(unsupported("dereference of a definitely nil pointer: %s", what))
		}
		return ec.st.heap[p.Obj]
	case *boxedV:
		return ec.st.heap[p.Obj]
	}
	return v
}

func (ec *evalCtx) evalSelector(x *ast.SelectorExpr) Value {
	if !ec.spec {
		if sel := ec.info.Selections[x]; sel != nil {
			switch sel.Kind() {
			case types.FieldVal:
				ec.protectedAccess(x)
				base := ec.eval(x.X)
				return ec.fieldPath(base, sel, x)
			case types.MethodVal:
				// method value: opaque
				return &FuncV{Name: "method:" + x.Sel.Name, Id: Var(ec.e().fresher.name("methodval"), SInt)}
			}
			panic(unsupported("selection kind"))
		}
		// qualified identifier
		obj := ec.info.Uses[x.Sel]
		switch o := obj.(type) {
		case *types.Var:
			ec.confine(o, x.Pos(), "read")
			return ec.e().globalVar(ec.st, o)
		case *types.Func:
			return &FuncV{Name: o.FullName(), Id: App("fn:"+o.FullName(), SInt)}
		case *types.Const:
			if v := constToValue(o.Val()); v != nil {
				return v
			}
		}
		panic(unsupported("qualified identifier %s", exprText(x)))
	}
	// spec mode: by dynamic kind
	base := ec.eval(x.X)
	return ec.specField(base, x.Sel.Name, x)
}

func (ec *evalCtx) specField(base Value, name string, x ast.Expr) Value {
	base = ec.deref(base, x.Pos(), exprText(x))
	switch b := base.(type) {
	case *StructV:
		if v, ok := b.F[name]; ok {
			if bx, ok := v.(*boxedV); ok {
				return ec.st.heap[bx.Obj]
			}
			return v
		}
		// promoted through embedded fields
		for _, n := range b.Names {
			if sv, ok := ec.derefQuiet(b.F[n]).(*StructV); ok {
				if v, ok := sv.F[name]; ok {
					return v
				}
			}
		}
		panic(unsupported("no field %s in %s", name, exprText(x)))
	case *Term:
		// a struct kept opaque by the executor: the same named unknown as the code sees (see fieldPath)
		if b.Op == "var" && ec.fc != nil && ec.fc.c != nil {
			var ft types.Type
			func() {
				defer func() { recover() }()
				ft = ec.e().typeOfSpecExpr(ec.fc.c, x)
			}()
			if ft != nil {
				return ec.e().freshNamed(ec.st, b.Name+"."+name, ft, 3)
			}
		}
	}
	panic(unsupported("field %s of %T", name, base))
}

func (ec *evalCtx) derefQuiet(v Value) Value {
	if p, ok := v.(*PtrV); ok && p.Obj >= 0 {
		return ec.st.heap[p.Obj]
	}
	return v
}

func (ec *evalCtx) fieldPath(base Value, sel *types.Selection, x *ast.SelectorExpr) Value {
	// walk the implicit embedded-field path
	t := sel.Recv()
	v := base
	for _, idx := range sel.Index() {
		if p, ok := t.Underlying().(*types.Pointer); ok {
			t = p.Elem()
		}
		st := t.Underlying().(*types.Struct)
		f := st.Field(idx)
		v = ec.deref(v, x.Pos(), exprText(x))
		sv, ok := v.(*StructV)
		if !ok {
			if tv, isTerm := v.(*Term); isTerm && tv.Op == "var" && !ec.spec {
				// a struct the executor keeps opaque (library type, deeply nested): reading a field gives the same
				// unknown value every time (named after the opaque value); such structs are never written field-wise
				v = ec.e().freshNamed(ec.st, tv.Name+"."+f.Name(), f.Type(), 3)
				t = f.Type()
				continue
			}
			panic(unsupported("field %s of opaque value (%T) in %s", f.Name(), v, exprText(x)))
		}
		fv, ok := sv.F[f.Name()]
		if !ok {
			panic(unsupported("no field %s", f.Name()))
		}
		v = fv
		t = f.Type()
	}
	return v
}

func (ec *evalCtx) evalIndex(x *ast.IndexExpr) Value {
	if !ec.spec {
		if tv, ok := ec.info.Types[x.X]; ok && tv.IsType() {
			panic(unsupported("generic type instantiation as value"))
		}
		if _, ok := ec.info.TypeOf(x.X).(*types.Signature); ok {
			return ec.eval(x.X) // generic function instantiation
		}
	}
	base := ec.eval(x.X)
	base = ec.derefArr(base)
	switch b := base.(type) {
	case *SliceV:
		i := scalar(ec.eval(x.Index))
		ec.oblige("bounds", And(Le(Int(0), i), Lt(i, b.Len)), x.Pos(), "index "+exprText(x))
		return b.At(i)
	case *Term:
		if b.Sort != SStr {
			panic(unsupported("index of non-string scalar"))
		}
		i := scalar(ec.eval(x.Index))
		ec.oblige("bounds", And(Le(Int(0), i), Lt(i, StrLen(b))), x.Pos(), "index "+exprText(x))
		return ByteAt(b, i)
	case *MapV:
		k := keyTerm(ec.eval(x.Index))
		return ec.mapGet(b, k)
	}
	panic(unsupported("index of %T", base))
}

func (ec *evalCtx) derefArr(v Value) Value {
	if bx, ok := v.(*boxedV); ok {
		return ec.st.heap[bx.Obj]
	}
	return v
}

func (ec *evalCtx) evalSlice(x *ast.SliceExpr) Value {
	base := ec.derefArr(ec.eval(x.X))
	if x.Slice3 {
		panic(unsupported("3-index slice"))
	}
	var length *Term
	switch b := base.(type) {
	case *SliceV:
		length = b.Len
	case *Term:
		length = StrLen(b)
	default:
		panic(unsupported("slice of %T", base))
	}
	lo, hi := Int(0), length
	if x.Low != nil {
		lo = scalar(ec.eval(x.Low))
	}
	if x.High != nil {
		hi = scalar(ec.eval(x.High))
	}
	// Go allows hi up to cap for slices; we demand hi <= len (stricter for
	// slices with spare capacity; reported as a bounds obligation).
	ec.oblige("bounds", And(Le(Int(0), lo), Le(lo, hi), Le(hi, length)), x.Pos(), "slice "+exprText(x))
	switch b := base.(type) {
	case *SliceV:
		return sliceSub(b, lo, hi)
	case *Term:
		return Substr(b, lo, hi)
	}
	return nil
}

func (ec *evalCtx) evalCompositeLit(x *ast.CompositeLit) Value {
	if ec.spec {
		panic(unsupported("composite literal in contract"))
	}
	t := ec.info.TypeOf(x)
	switch u := t.Underlying().(type) {
	case *types.Struct:
		sv := ec.e().zeroValue(ec.st, t).(*StructV)
		for i, el := range x.Elts {
			if kv, ok := el.(*ast.KeyValueExpr); ok {
				name := kv.Key.(*ast.Ident).Name
				ft := fieldType(t, name)
				sv = sv.With(name, ec.convertTo(ec.evalElt(kv.Value, ft), ec.info.TypeOf(kv.Value), ft))
			} else {
				f := u.Field(i)
				sv = sv.With(f.Name(), ec.convertTo(ec.evalElt(el, f.Type()), ec.info.TypeOf(el), f.Type()))
			}
		}
		return sv
	case *types.Slice, *types.Array:
		var et types.Type
		if s, ok := u.(*types.Slice); ok {
			et = s.Elem()
		} else {
			et = u.(*types.Array).Elem()
		}
		if isStringLike(t) {
			// []byte{...}
			var parts []*Term
			for _, el := range x.Elts {
				parts = append(parts, FromCode(scalar(ec.eval(el))))
			}
			return Concat(parts...)
		}
		// keyed elements allowed (tables)
		maxIdx := int64(-1)
		cur := int64(0)
		elems := map[int64]Value{}
		for _, el := range x.Elts {
			var ve ast.Expr = el
			if kv, ok := el.(*ast.KeyValueExpr); ok {
				k := scalar(ec.eval(kv.Key))
				if !k.IsInt() {
					panic(unsupported("non-constant key in slice literal"))
				}
				cur = k.Int.Int64()
				ve = kv.Value
			}
			elems[cur] = ec.convertTo(ec.evalElt(ve, et), ec.info.TypeOf(ve), et)
			if cur > maxIdx {
				maxIdx = cur
			}
			cur++
		}
		vals := make([]Value, maxIdx+1)
		for i := range vals {
			if v, ok := elems[int64(i)]; ok {
				vals[i] = v
			} else {
				vals[i] = ec.e().zeroValue(ec.st, et)
			}
		}
		return sliceLit(vals)
	case *types.Map:
		mv := ec.e().emptyMap(ec.st, u)
		if _, isFn := u.Elem().Underlying().(*types.Signature); isFn {
			for _, el := range x.Elts {
				if kv, ok := el.(*ast.KeyValueExpr); ok {
					if id, ok := ast.Unparen(kv.Value).(*ast.Ident); ok {
						if f, ok := ec.info.Uses[id].(*types.Func); ok {
							mv.Cands = append(mv.Cands, f)
						}
					}
				}
			}
		}
		for _, el := range x.Elts {
			kv := el.(*ast.KeyValueExpr)
			k := keyTerm(ec.eval(kv.Key))
			mv = ec.mapSet(mv, k, ec.convertTo(ec.evalElt(kv.Value, u.Elem()), ec.info.TypeOf(kv.Value), u.Elem()))
		}
		return mv
	}
	panic(unsupported("composite literal of type %s", t))
}

// evalElt evaluates an element of a composite literal, allowing elided types.
func (ec *evalCtx) evalElt(e ast.Expr, t types.Type) Value {
	if cl, ok := e.(*ast.CompositeLit); ok && cl.Type == nil {
		if p, ok := t.Underlying().(*types.Pointer); ok {
			_ = p
			v := ec.evalCompositeLit(cl)
			return &PtrV{Nil: False, Obj: ec.e().allocObj(ec.st, v)}
		}
	}
	return ec.eval(e)
}

// ---------------------------------------------------------------------------
// lvalues

func (ec *evalCtx) lvalue(e ast.Expr) lval {
	switch x := e.(type) {
	case *ast.ParenExpr:
		return ec.lvalue(x.X)
	case *ast.Ident:
		if ec.spec {
			if _, ok := ec.scope[x.Name]; ok {
				return lval{get: func() Value { return ec.scope[x.Name] }, set: func(v Value) { ec.scope[x.Name] = v }}
			}
			obj, ok := ec.st.names[x.Name]
			if !ok {
				panic(unsupported("unknown identifier %s in modifies", x.Name))
			}
			return ec.varLval(obj)
		}
		obj := ec.info.Uses[x]
		if obj == nil {
			obj = ec.info.Defs[x]
		}
		if v, ok := obj.(*types.Var); ok && v.Pkg() != nil && v.Parent() == v.Pkg().Scope() {
			return lval{get: func() Value { return ec.e().globalVar(ec.st, v) }, set: func(nv Value) {
				ec.confine(v, x.Pos(), "write")
				ec.st.ghost["global:"+v.Pkg().Path()+"."+v.Name()] = nv
				ec.fc.globalWrites = append(ec.fc.globalWrites, v)
			}}
		}
		return ec.varLval(obj)
	case *ast.SelectorExpr:
		name := x.Sel.Name
		if !ec.spec {
			ec.protectedAccess(x)
			sel := ec.info.Selections[x]
			if sel == nil {
				// package-level variable pkg.X
				if v, ok := ec.info.Uses[x.Sel].(*types.Var); ok {
					return lval{get: func() Value { return ec.e().globalVar(ec.st, v) }, set: func(nv Value) {
						ec.confine(v, x.Pos(), "write")
						ec.st.ghost["global:"+v.Pkg().Path()+"."+v.Name()] = nv
						ec.fc.globalWrites = append(ec.fc.globalWrites, v)
					}}
				}
				panic(unsupported("assignment to %s", exprText(x)))
			}
			if len(sel.Index()) != 1 {
				panic(unsupported("assignment through embedded field %s", exprText(x)))
			}
		}
		baseV := ec.eval(x.X)
		if p, ok := baseV.(*PtrV); ok {
			ec.oblige("nil", Not(p.Nil), x.Pos(), "nil dereference: "+exprText(x))
			if p.Obj < 0 {
				panic(unsupported("assignment through nil pointer"))
			}
			return lval{
				get: func() Value { return ec.st.heap[p.Obj].(*StructV).F[name] },
				set: func(v Value) {
					sv, ok := ec.st.heap[p.Obj].(*StructV)
					if !ok {
						panic(unsupported("field assignment on opaque object"))
					}
					ec.st.heap[p.Obj] = sv.With(name, v)
				},
			}
		}
		base := ec.lvalue(x.X)
		return lval{
			get: func() Value { return base.get().(*StructV).F[name] },
			set: func(v Value) { base.set(base.get().(*StructV).With(name, v)) },
		}
	case *ast.IndexExpr:
		bv := ec.derefArr(ec.eval(x.X))
		switch b := bv.(type) {
		case *SliceV:
			i := scalar(ec.eval(x.Index))
			ec.oblige("bounds", And(Le(Int(0), i), Lt(i, b.Len)), x.Pos(), "index "+exprText(x))
			base := ec.lvalue(x.X)
			if !ec.spec {
				ec.fc.noteElemWrite(x.X)
			}
			return lval{
				get: func() Value { return base.get().(*SliceV).At(i) },
				set: func(v Value) { base.set(sliceUpdate(base.get().(*SliceV), i, v)) },
			}
		case *MapV:
			k := keyTerm(ec.eval(x.Index))
			ec.oblige("nilmap", Not(Eq(b.Ref, Int(0))), x.Pos(), "write to nil map "+exprText(x.X))
			base := ec.lvalue(x.X)
			return lval{
				get: func() Value { return ec.mapGet(base.get().(*MapV), k) },
				set: func(v Value) { base.set(ec.mapSet(base.get().(*MapV), k, v)) },
			}
		}
		panic(unsupported("index assignment on %T", bv))
	case *ast.StarExpr:
		p := ec.eval(x.X).(*PtrV)
		ec.oblige("nil", Not(p.Nil), x.Pos(), "nil dereference: "+exprText(x))
		return lval{get: func() Value { return ec.st.heap[p.Obj] }, set: func(v Value) { ec.st.heap[p.Obj] = v }}
	}
	panic(unsupported("lvalue %T", e))
}

func (ec *evalCtx) varLval(obj types.Object) lval {
	return lval{
		get: func() Value {
			v := ec.st.vars[obj]
			if bx, ok := v.(*boxedV); ok {
				return ec.st.heap[bx.Obj]
			}
			return v
		},
		set: func(v Value) {
			if bx, ok := ec.st.vars[obj].(*boxedV); ok {
				ec.st.heap[bx.Obj] = v
				return
			}
			if _, ok := ec.st.vars[obj]; !ok {
				ec.st.Declare(obj, v)
				return
			}
			ec.st.vars[obj] = v
		},
	}
}

// noteElemWrite records element writes through slice-typed parameters (they are
// visible to the caller and must appear in the contract's modifies clause).
func (fc *FnCtx) noteElemWrite(base ast.Expr) {
	if id, ok := ast.Unparen(base).(*ast.Ident); ok {
		obj := fc.info.Uses[id]
		for _, p := range fc.params {
			if p == obj {
				fc.modified[obj] = true
			}
		}
	}
}

// ---------------------------------------------------------------------------
// conversions and zero values

func (ec *evalCtx) convertTo(v Value, from, to types.Type) Value {
	if to == nil || v == nil {
		return v
	}
	if _, ok := v.(nilMarker); ok {
		return ec.e().zeroValue(ec.st, to)
	}
	if bx, ok := v.(*boxedV); ok {
		v = ec.st.heap[bx.Obj]
	}
	// value -> interface
	if _, isIface := to.Underlying().(*types.Interface); isIface && !isErrorType(to) {
		if _, already := v.(*IfaceV); already {
			return v
		}
		if from == nil {
			return v
		}
		if isErrorType(from) {
			return ec.e().boxIface(ec.st, v, from)
		}
		if _, fromIface := from.Underlying().(*types.Interface); fromIface {
			return v
		}
		return ec.e().boxIface(ec.st, v, from)
	}
	if isErrorType(to) {
		if iv, ok := v.(*IfaceV); ok {
			return iv.Id
		}
		if t, ok := v.(*Term); ok && t.Sort == SInt {
			return t
		}
		// concrete error value: non-nil opaque
		id := Var(ec.e().fresher.name("errval"), SInt)
		ec.st.Assume(Not(Eq(id, Int(0))))
		return id
	}
	return v
}

func isErrorType(t types.Type) bool {
	return types.Identical(t, types.Universe.Lookup("error").Type())
}

func (e *Engine) boxIface(st *State, v Value, from types.Type) *IfaceV {
	name := types.TypeString(from, nil)
	if isErrorType(from) {
		if t, ok := v.(*Term); ok {
			// an error stored in an `any`: nil stays nil
			return &IfaceV{Tag: Ite(Eq(t, Int(0)), Int(0), Int(e.typeTag("error"))), Id: t, Payloads: map[string]Value{}}
		}
	}
	tag := e.typeTag(name)
	id := Var(e.fresher.name("iface.id"), SInt)
	// boxing is deterministic: equal values of one type box to equal interface values
	{
		var leaves []*Term
		ok := true
		var flat func(v Value)
		flat = func(v Value) {
			switch x := v.(type) {
			case *Term:
				leaves = append(leaves, x)
			case *StructV:
				for _, n := range x.Names {
					flat(x.F[n])
				}
			case *PtrV:
				leaves = append(leaves, x.Nil, Int(int64(x.Obj)))
			default:
				ok = false
			}
		}
		flat(v)
		if ok && len(leaves) > 0 {
			id = App("box:"+name, SInt, leaves...)
		}
	}
	if p, ok := v.(*PtrV); ok {
		// a nil pointer in an interface is a non-nil interface
		_ = p
	}
	if t, ok := v.(*Term); ok && t.Sort == SInt {
		id = t
	}
	if f, ok := v.(*FuncV); ok {
		id = f.Id // a function value keeps its identity when stored in an interface
	}
	return &IfaceV{Tag: Int(tag), Id: id, Payloads: map[string]Value{name: v}}
}

func (e *Engine) typeTag(name string) int64 {
	if e.typeTags == nil {
		e.typeTags = map[string]int64{}
	}
	if t, ok := e.typeTags[name]; ok {
		return t
	}
	t := int64(len(e.typeTags) + 1)
	e.typeTags[name] = t
	return t
}

func (e *Engine) zeroValue(st *State, t types.Type) Value {
	if t == nil {
		return nilMarker{}
	}
	if b, ok := t.Underlying().(*types.Basic); ok && b.Kind() == types.UntypedNil {
		return nilMarker{}
	}
	if isStringLike(t) {
		if _, isSlice := t.Underlying().(*types.Slice); isSlice {
			return Str("") // nil []byte: nil-ness not tracked
		}
		return Str("")
	}
	if isErrorType(t) {
		return Int(0)
	}
	switch u := t.Underlying().(type) {
	case *types.Basic:
		if u.Info()&types.IsBoolean != 0 {
			return False
		}
		return Int(0)
	case *types.Struct:
		sv := &StructV{F: map[string]Value{}}
		for i := 0; i < u.NumFields(); i++ {
			f := u.Field(i)
			sv.Names = append(sv.Names, f.Name())
			sv.F[f.Name()] = e.zeroValue(st, f.Type())
		}
		return sv
	case *types.Pointer:
		return &PtrV{Nil: True, Obj: -1}
	case *types.Slice:
		return nilSlice()
	case *types.Array:
		vals := make([]Value, u.Len())
		for i := range vals {
			vals[i] = e.zeroValue(st, u.Elem())
		}
		return sliceLit(vals)
	case *types.Map:
		// the nil map: no identity, empty domain; the value arrays are never read (fixed names keep terms equal)
		m := e.emptyMap(nil, u)
		m.Ref = Int(0)
		for _, leaf := range mapLeaves(u.Elem(), "") {
			m.Val[leaf.name] = Var("map.zero:"+m.K.String()+":"+leaf.sort.String()+leaf.name, SArr(m.K, leaf.sort))
		}
		return m
	case *types.Interface:
		return &IfaceV{Tag: Int(0), Id: Int(0), Payloads: map[string]Value{}}
	case *types.Signature:
		return &FuncV{Name: "nil", Id: Int(0)}
	case *types.Chan:
		return Int(0)
	}
	return Int(0)
}

func (ec *evalCtx) evalConversion(call *ast.CallExpr, to types.Type) Value {
	arg := call.Args[0]
	v := ec.eval(arg)
	from := ec.info.TypeOf(arg)
	if _, ok := v.(nilMarker); ok {
		return ec.e().zeroValue(ec.st, to)
	}
	toStr, fromStr := isStringLike(to), isStringLike(from)
	if toStr && fromStr {
		return v
	}
	if toStr {
		// string(rune) / string(byte)
		if _, ok := intKind(from); ok {
			return ec.e().encodeRune(ec.st, scalar(v))
		}
		if s, ok := from.Underlying().(*types.Slice); ok {
			_ = s
			panic(unsupported("string([]rune)"))
		}
	}
	if ti, ok := intKind(to); ok {
		if _, ok := intKind(from); ok {
			return wrapInt(scalar(v), ti)
		}
		if b, ok := from.Underlying().(*types.Basic); ok && b.Info()&types.IsFloat != 0 {
			return Var(ec.e().fresher.name("float2int"), SInt)
		}
	}
	return ec.convertTo(v, from, to)
}

// keyTerm turns a map key value into a scalar term (pointers by object identity).
func keyTerm(v Value) *Term {
	switch x := v.(type) {
	case *Term:
		return x
	case *PtrV:
		if x.Obj < 0 {
			return Int(0)
		}
		return Ite(x.Nil, Int(0), Int(int64(x.Obj)))
	case *IfaceV:
		return x.Id
	case *FuncV:
		return x.Id
	case *StructV:
		// a comparable struct used as a key: an uninterpreted function of its scalar fields (equal fields give
		// equal keys; the spec function keyof() adds the inverse functions where injectivity is needed)
		var leaves []*Term
		for _, n := range x.Names {
			leaves = append(leaves, keyTerm(x.F[n]))
		}
		name := "key.struct" + strconv.Itoa(len(leaves))
		for _, l := range leaves {
			name += "." + l.Sort.String()
		}
		return App(name, SInt, leaves...)
	}
	panic(unsupported("map key of kind %T", v))
}

// confine: property C14 - package-level state that is ever assigned may be touched only while its guard is held
// (`guarded v by mu` directive); state without a guard must not be touched on the render path at all. Variables that
// are never assigned after initialisation, and sync.Pool / sync.Mutex values (safe for concurrent use by contract),
// are exempt.
func (ec *evalCtx) confine(v *types.Var, pos token.Pos, what string) {
	if ec.spec || ec.fc == nil || ec.e().prop != "C14" || ec.fc.gen != nil && false {
		return
	}
	if v.Pkg() == nil || !strings.HasPrefix(v.Pkg().Path(), modulePath) && !strings.HasPrefix(v.Pkg().Path(), "verifcorpus") {
		return // library state is the library's business (documented concurrency contracts are assumed)
	}
	if ec.e().neverAssigned(v) {
		if _, isMap := v.Type().Underlying().(*types.Map); !isMap {
			return
		}
		// a map variable that is never reassigned can still be written through: fall through to the check
		if !ec.e().mapEverWritten(v) {
			return
		}
	}
	ts := types.TypeString(v.Type(), nil)
	if strings.HasPrefix(ts, "sync.") || strings.HasPrefix(ts, "*sync.") || strings.HasPrefix(ts, "*regexp.") {
		return
	}
	key := v.Pkg().Path() + "." + v.Name()
	if mu, ok := ec.e().cs.Guards[key]; ok {
		get := func(k string) *Term {
			if t, ok := ec.st.ghost[k+mu].(*Term); ok {
				return t
			}
			return False
		}
		if what == "write" {
			ec.fc.oblige(ec.st, "confine", get("lock:"), pos, "write of package-level "+v.Name()+" requires "+mu+" to be held exclusively")
		} else {
			ec.fc.oblige(ec.st, "confine", Or(get("lock:"), get("rlock:")), pos, what+" of package-level "+v.Name()+" requires "+mu+" to be held")
		}
		return
	}
	ec.fc.oblige(ec.st, "confine", False, pos, what+" of package-level variable "+v.Name()+", which is assigned somewhere in the package and has no guard: shared mutable state on the render path")
}
