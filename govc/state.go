package main

import (
	"fmt"
	"go/ast"
	"go/token"
	"go/types"
	"math/big"
	"strconv"
	"strings"
)

// State of the symbolic executor at one program point.
type State struct {
	vars   map[types.Object]Value
	names  map[string]types.Object // latest declared object per name (for spec scope)
	heap   map[int]Value
	pc     []*Term
	ghost  map[string]Value
	guards []*Term
	defers []deferred
}

type deferred struct {
	run func(st *State, rets []Value) []Value
}

func NewState() *State {
	return &State{vars: map[types.Object]Value{}, names: map[string]types.Object{}, heap: map[int]Value{}, ghost: map[string]Value{}}
}

func (s *State) Clone() *State {
	n := &State{vars: make(map[types.Object]Value, len(s.vars)), names: make(map[string]types.Object, len(s.names)),
		heap: make(map[int]Value, len(s.heap)), ghost: make(map[string]Value, len(s.ghost))}
	for k, v := range s.vars {
		n.vars[k] = v
	}
	for k, v := range s.names {
		n.names[k] = v
	}
	for k, v := range s.heap {
		n.heap[k] = v
	}
	for k, v := range s.ghost {
		n.ghost[k] = v
	}
	n.pc = append([]*Term(nil), s.pc...)
	n.guards = append([]*Term(nil), s.guards...)
	n.defers = append([]deferred(nil), s.defers...)
	return n
}

func (s *State) Assume(t *Term) {
	if t == nil || t.IsTrue() {
		return
	}
	g := And(s.guards...)
	s.pc = append(s.pc, Implies(g, t))
}

// keyFacts marks hypotheses that come from `assert` clauses of a contract: the stepping stones the contract
// author put before a hard obligation. Local proof attempts start from them.
var keyFacts = map[*Term]bool{}

func (s *State) AssumeKey(t *Term) {
	if t == nil || t.IsTrue() {
		return
	}
	g := And(s.guards...)
	h := Implies(g, t)
	keyFacts[h] = true
	s.pc = append(s.pc, h)
}

func (s *State) Declare(obj types.Object, v Value) {
	s.vars[obj] = v
	s.names[obj.Name()] = obj
}

// Hyps returns the path condition plus current guards.
func (s *State) Hyps() []*Term {
	h := append([]*Term(nil), s.pc...)
	h = append(h, s.guards...)
	return h
}

// resolvePtr turns an unresolved pointer merge (c ? &A : &B) into a pointer to a
// fresh object holding the merged contents. The original objects are left
// untouched: writes through the merged pointer are not seen through older
// aliases of A or B (restriction of the executor, noted in the evidence).
func (s *State) resolvePtr(p *PtrV, alloc func(Value) int) *PtrV {
	if p.Alt == nil {
		return p
	}
	a := s.resolvePtr(p.Alt.a, alloc)
	b := s.resolvePtr(p.Alt.b, alloc)
	var va, vb Value
	if a.Obj >= 0 {
		va = s.heap[a.Obj]
	}
	if b.Obj >= 0 {
		vb = s.heap[b.Obj]
	}
	id := alloc(mergeValue(p.Alt.c, va, vb))
	return &PtrV{Nil: p.Nil, Obj: id}
}

func (e *Engine) resolveValue(st *State, v Value) Value {
	switch x := v.(type) {
	case *PtrV:
		if x.Alt != nil {
			e.notes = appendUnique(e.notes, "a pointer assigned different objects on two branches is treated as pointing to a merged copy")
			return st.resolvePtr(x, func(c Value) int { return e.allocObj(st, c) })
		}
	case *StructV:
		changed := false
		n := &StructV{Names: x.Names, F: map[string]Value{}}
		for k, f := range x.F {
			r := e.resolveValue(st, f)
			if r != f {
				changed = true
			}
			n.F[k] = r
		}
		if changed {
			return n
		}
	}
	return v
}

// mergeStates merges the fall-through states a (taken when c) and b (otherwise),
// both derived from base.
func mergeStates(c *Term, a, b, base *State) *State {
	n := base.Clone()
	nb := len(base.pc)
	n.pc = append(n.pc[:nb:nb], Implies(c, And(a.pc[nb:]...)), Implies(Not(c), And(b.pc[nb:]...)))
	for obj := range base.vars {
		va, vb := a.vars[obj], b.vars[obj]
		if va != vb {
			n.vars[obj] = mergeValue(c, va, vb)
		}
	}
	ids := map[int]bool{}
	for id := range a.heap {
		ids[id] = true
	}
	for id := range b.heap {
		ids[id] = true
	}
	for id := range ids {
		va, oka := a.heap[id]
		vb, okb := b.heap[id]
		switch {
		case oka && okb:
			if va != vb {
				n.heap[id] = mergeValue(c, va, vb)
			} else {
				n.heap[id] = va
			}
		case oka:
			n.heap[id] = va
		default:
			n.heap[id] = vb
		}
	}
	for k := range base.ghost {
		va, vb := a.ghost[k], b.ghost[k]
		if va != vb {
			n.ghost[k] = mergeValue(c, va, vb)
		}
	}
	for k, va := range a.ghost {
		if _, ok := base.ghost[k]; !ok {
			vb, ok2 := b.ghost[k]
			if !ok2 {
				vb = defaultGhost(b, k)
			}
			if vb != nil {
				n.ghost[k] = mergeValue(c, va, vb)
			} else {
				n.ghost[k] = va
			}
		}
	}
	for k, vb := range b.ghost {
		if _, ok := base.ghost[k]; ok {
			continue
		}
		if _, ok := a.ghost[k]; ok {
			continue
		}
		if va := defaultGhost(a, k); va != nil {
			n.ghost[k] = mergeValue(c, va, vb)
		} else {
			n.ghost[k] = vb
		}
	}
	if len(a.defers) != len(b.defers) {
		panic(unsupported("defer inside a conditional that falls through"))
	}
	n.defers = a.defers
	return n
}

// ---------------------------------------------------------------------------
// Fresh symbolic values by Go type

type intInfo struct {
	bits     int
	unsigned bool
	sized    bool
}

func intKind(t types.Type) (intInfo, bool) {
	b, ok := t.Underlying().(*types.Basic)
	if !ok {
		return intInfo{}, false
	}
	switch b.Kind() {
	case types.Int, types.Int64, types.UntypedInt, types.UntypedRune:
		return intInfo{64, false, false}, true
	case types.Int32:
		return intInfo{32, false, true}, true
	case types.Int16:
		return intInfo{16, false, true}, true
	case types.Int8:
		return intInfo{8, false, true}, true
	case types.Uint, types.Uint64, types.Uintptr:
		return intInfo{64, true, true}, true
	case types.Uint32:
		return intInfo{32, true, true}, true
	case types.Uint16:
		return intInfo{16, true, true}, true
	case types.Uint8:
		return intInfo{8, true, true}, true
	}
	return intInfo{}, false
}

func pow2(n int) *Term { return BigInt(new(big.Int).Lsh(big.NewInt(1), uint(n))) }

func rangeAssumption(x *Term, ii intInfo) *Term {
	if ii.unsigned {
		return And(Le(Int(0), x), Lt(x, pow2(ii.bits)))
	}
	if ii.sized {
		return And(Le(Sub(Int(0), pow2(ii.bits-1)), x), Lt(x, pow2(ii.bits-1)))
	}
	return True
}

// wrapInt reduces a mathematical result to the value range of the Go type.
func wrapInt(x *Term, ii intInfo) *Term {
	if !ii.sized {
		return x
	}
	if x.IsInt() {
		m := new(big.Int).Lsh(big.NewInt(1), uint(ii.bits))
		v := new(big.Int).Mod(x.Int, m)
		if !ii.unsigned {
			half := new(big.Int).Lsh(big.NewInt(1), uint(ii.bits-1))
			if v.Cmp(half) >= 0 {
				v.Sub(v, m)
			}
		}
		return BigInt(v)
	}
	if ii.unsigned {
		return ModE(x, pow2(ii.bits))
	}
	return Sub(ModE(Add(x, pow2(ii.bits-1)), pow2(ii.bits)), pow2(ii.bits-1))
}

// typeParamString: a type parameter whose constraint is a single ~string term.
func typeParamString(t types.Type) bool {
	tp, ok := t.(*types.TypeParam)
	if !ok {
		return false
	}
	it, ok := tp.Constraint().Underlying().(*types.Interface)
	if !ok || it.NumEmbeddeds() != 1 {
		return false
	}
	u, ok := it.EmbeddedType(0).(*types.Union)
	if !ok || u.Len() != 1 {
		return false
	}
	b, ok := u.Term(0).Type().Underlying().(*types.Basic)
	return ok && b.Info()&types.IsString != 0
}

func isStringLike(t types.Type) bool {
	if typeParamString(t) {
		return true
	}
	switch u := t.Underlying().(type) {
	case *types.Basic:
		return u.Info()&types.IsString != 0
	case *types.Slice:
		if b, ok := u.Elem().Underlying().(*types.Basic); ok && b.Kind() == types.Uint8 {
			return true
		}
	}
	return false
}

type Fresher struct{ n int }

func (f *Fresher) name(hint string) string {
	f.n++
	return fmt.Sprintf("%s!%d", hint, f.n)
}

// freshValue creates an unconstrained value of type t. Named with hint (exact
// when exact is true: used for parameters so that models are readable).
func (e *Engine) freshValue(st *State, hint string, t types.Type, exact bool) Value {
	nm := hint
	if !exact {
		nm = e.fresher.name(hint)
	}
	return e.freshNamed(st, nm, t, 0)
}

func (e *Engine) freshNamed(st *State, nm string, t types.Type, depth int) Value {
	if depth > 6 {
		return Var(nm+".opaque", SInt)
	}
	if isStringLike(t) {
		v := Var(nm, SStr)
		if st != nil {
			for _, inv := range e.typeInvTerms(v, t, nm, 0) {
				st.Assume(inv)
			}
		}
		return v
	}
	if isErrorType(t) {
		return Var(nm, SInt)
	}
	if tp, ok := t.(*types.TypeParam); ok {
		_ = tp
		return e.freshIface(st, nm)
	}
	switch u := t.Underlying().(type) {
	case *types.Basic:
		if u.Info()&types.IsBoolean != 0 {
			return Var(nm, SBool)
		}
		if ii, ok := intKind(t); ok {
			v := Var(nm, SInt)
			if st != nil {
				st.Assume(rangeAssumption(v, ii))
			}
			return v
		}
		return Var(nm, SInt) // floats etc: opaque
	case *types.Struct:
		if isNamed(t, "bufio", "Writer") {
			sv := &StructV{Names: []string{"$target", "buf", "$err"}, F: map[string]Value{
				"$target": e.freshIface(st, nm+".target"), "buf": Var(nm+".pending", SStr), "$err": Var(nm+".sticky", SInt)}}
			return sv
		}
		if depth >= 2 && foreignStruct(t) {
			return Var(nm+".opaque", SInt)
		}
		sv := &StructV{F: map[string]Value{}}
		for i := 0; i < u.NumFields(); i++ {
			f := u.Field(i)
			sv.Names = append(sv.Names, f.Name())
			sv.F[f.Name()] = e.freshNamed(st, nm+"."+f.Name(), f.Type(), depth+1)
		}
		if st != nil {
			for _, inv := range e.typeInvTerms(sv, t, nm, 0) {
				st.Assume(inv)
			}
		}
		return sv
	case *types.Pointer:
		id := e.allocObj(st, e.freshNamed(st, nm, u.Elem(), depth+1))
		return &PtrV{Nil: Var(nm+".isnil", SBool), Obj: id}
	case *types.Slice:
		return e.freshSlice(st, nm, u.Elem(), depth)
	case *types.Array:
		s := e.freshSlice(st, nm, u.Elem(), depth)
		s.Len = Int(u.Len())
		s.Nil = False
		return s
	case *types.Map:
		return e.freshMap(st, nm, u)
	case *types.Interface:
		return e.freshIface(st, nm)
	case *types.Signature:
		return &FuncV{Name: nm, Id: Var(nm+".fn", SInt)}
	}
	return Var(nm, SInt)
}

// foreignStruct: named struct types declared outside the module, except the
// in-memory buffers the executor models.
func foreignStruct(t types.Type) bool {
	n, ok := t.(*types.Named)
	if !ok || n.Obj().Pkg() == nil {
		return false
	}
	p := n.Obj().Pkg().Path()
	if strings.HasPrefix(p, modulePath) {
		return false
	}
	switch p + "." + n.Obj().Name() {
	case "bytes.Buffer", "strings.Builder", "net/url.URL":
		return false
	}
	return true
}

func isNamed(t types.Type, pkg, name string) bool {
	n, ok := t.(*types.Named)
	return ok && n.Obj().Pkg() != nil && n.Obj().Pkg().Path() == pkg && n.Obj().Name() == name
}

func (e *Engine) freshIface(st *State, nm string) *IfaceV {
	return &IfaceV{Tag: Var(nm+".tag", SInt), Id: Var(nm+".id", SInt), Payloads: map[string]Value{}}
}

func (e *Engine) freshSlice(st *State, nm string, elem types.Type, depth int) *SliceV {
	ln := Var(nm+".len", SInt)
	if st != nil {
		st.Assume(Le(Int(0), ln))
	}
	sl := &SliceV{Len: ln, Nil: Var(nm+".isnil", SBool), Name: nm, At: func(i *Term) Value {
		return e.elemAt(nm+".at", elem, i, depth+1)
	}}
	if st != nil && len(e.cs.TypeInvs) > 0 {
		k := Var("elem?", SInt)
		if invs := e.typeInvTerms(sl.At(k), elem, nm, 0); len(invs) > 0 {
			st.Assume(Forall([]*Term{k}, Implies(And(Le(Int(0), k), Lt(k, ln)), And(invs...))))
		}
	}
	return sl
}

// typeInvTerms: the declared type invariants of v (of type t) and of the struct fields nested in it.
func (e *Engine) typeInvTerms(v Value, t types.Type, nm string, depth int) []*Term {
	if depth > 4 || e.cs == nil || len(e.cs.TypeInvs) == 0 {
		return nil
	}
	for _, p := range e.noInv {
		if nm == p || strings.HasPrefix(nm, p+".") {
			return nil
		}
	}
	var out []*Term
	if tv, isTerm := v.(*Term); isTerm {
		if n, ok := t.(*types.Named); ok && n.Obj().Pkg() != nil {
			if ti := e.cs.TypeInvs[n.Obj().Pkg().Path()+"."+n.Obj().Name()]; ti != nil {
				if term := e.simpleSpec(ti.Expr, map[string]Value{ti.Param: tv}); term != nil {
					e.trusted["type invariant of "+ti.Type+" assumed for values that enter the verified functions from outside: "+ti.Text] = true
					return []*Term{term}
				}
			}
		}
		return nil
	}
	sv, ok := v.(*StructV)
	if !ok {
		return nil
	}
	if n, ok := t.(*types.Named); ok && n.Obj().Pkg() != nil {
		if ti := e.cs.TypeInvs[n.Obj().Pkg().Path()+"."+n.Obj().Name()]; ti != nil {
			if term := e.simpleSpec(ti.Expr, map[string]Value{ti.Param: sv}); term != nil {
				out = append(out, term)
				e.trusted["type invariant of "+ti.Type+" assumed for values that enter the verified functions from outside: "+ti.Text] = true
			}
		}
	}
	if u, ok := t.Underlying().(*types.Struct); ok {
		for i := 0; i < u.NumFields(); i++ {
			f := u.Field(i)
			if fv, ok := sv.F[f.Name()]; ok {
				out = append(out, e.typeInvTerms(fv, f.Type(), nm+"."+f.Name(), depth+1)...)
			}
		}
	}
	return out
}

// simpleSpec evaluates the small expression language of type invariants (field selection on the parameter, len of
// strings, comparisons, && || !, + -, literals) without a function context. nil if the expression is outside it.
func (e *Engine) simpleSpec(x ast.Expr, env map[string]Value) (res *Term) {
	defer func() {
		if recover() != nil {
			res = nil
		}
	}()
	var val func(x ast.Expr) Value
	val = func(x ast.Expr) Value {
		switch y := x.(type) {
		case *ast.ParenExpr:
			return val(y.X)
		case *ast.Ident:
			if v, ok := env[y.Name]; ok {
				return v
			}
			switch y.Name {
			case "true":
				return True
			case "false":
				return False
			}
		case *ast.SelectorExpr:
			return val(y.X).(*StructV).F[y.Sel.Name]
		case *ast.BasicLit:
			switch y.Kind {
			case token.INT:
				n, _ := strconv.ParseInt(y.Value, 0, 64)
				return Int(n)
			case token.STRING:
				sv, _ := strconv.Unquote(y.Value)
				return Str(sv)
			}
		case *ast.CallExpr:
			if id, ok := y.Fun.(*ast.Ident); ok && len(y.Args) == 1 && id.Name == "len" {
				return StrLen(val(y.Args[0]).(*Term))
			}
			if id, ok := y.Fun.(*ast.Ident); ok && len(y.Args) == 2 && id.Name == "inL" {
				return e.inL(val(y.Args[0]).(*Term), y.Args[1].(*ast.Ident).Name)
			}
			if id, ok := y.Fun.(*ast.Ident); ok && len(y.Args) == 2 && id.Name == "implies" {
				return Implies(val(y.Args[0]).(*Term), val(y.Args[1]).(*Term))
			}
			if id, ok := y.Fun.(*ast.Ident); ok && len(y.Args) >= 2 && id.Name == "uf" {
				// same term as the spec builtin uf(name, scalar args...)
				lit := y.Args[0].(*ast.BasicLit)
				nm, _ := strconv.Unquote(lit.Value)
				var leaves []*Term
				for _, a := range y.Args[1:] {
					leaves = append(leaves, val(a).(*Term))
				}
				return App("uf:"+nm, SStr, leaves...)
			}
		case *ast.UnaryExpr:
			if y.Op == token.NOT {
				return Not(val(y.X).(*Term))
			}
		case *ast.BinaryExpr:
			a, b := val(y.X).(*Term), val(y.Y).(*Term)
			switch y.Op {
			case token.LAND:
				return And(a, b)
			case token.LOR:
				return Or(a, b)
			case token.EQL:
				return Eq(a, b)
			case token.NEQ:
				return Not(Eq(a, b))
			case token.LSS:
				return Lt(a, b)
			case token.LEQ:
				return Le(a, b)
			case token.GTR:
				return Gt(a, b)
			case token.GEQ:
				return Ge(a, b)
			case token.ADD:
				return Add(a, b)
			case token.SUB:
				return Sub(a, b)
			}
		}
		panic("unsupported")
	}
	t, _ := val(x).(*Term)
	return t
}

// elemAt builds the element value `name(i)` of type t from uninterpreted
// functions (one per scalar leaf).
func (e *Engine) elemAt(fn string, t types.Type, i *Term, depth int) Value {
	if isStringLike(t) {
		return App(fn, SStr, i)
	}
	switch u := t.Underlying().(type) {
	case *types.Basic:
		if u.Info()&types.IsBoolean != 0 {
			return App(fn, SBool, i)
		}
		return App(fn, SInt, i)
	case *types.Struct:
		sv := &StructV{F: map[string]Value{}}
		for k := 0; k < u.NumFields(); k++ {
			f := u.Field(k)
			sv.Names = append(sv.Names, f.Name())
			sv.F[f.Name()] = e.elemAt(fn+"."+f.Name(), f.Type(), i, depth+1)
		}
		return sv
	case *types.Interface:
		if isErrorType(t) {
			return App(fn, SInt, i)
		}
		return &IfaceV{Tag: App(fn+".tag", SInt, i), Id: App(fn+".id", SInt, i), Payloads: map[string]Value{}}
	case *types.Slice:
		if depth > 4 {
			return App(fn+".opaque", SInt, i)
		}
		ln := App(fn+".len", SInt, i)
		return &SliceV{Len: ln, Nil: False, At: func(j *Term) Value {
			return e.elemAt2(fn+".at", u.Elem(), i, j)
		}}
	}
	return App(fn, SInt, i)
}

func (e *Engine) elemAt2(fn string, t types.Type, i, j *Term) Value {
	if isStringLike(t) {
		return App(fn, SStr, i, j)
	}
	switch u := t.Underlying().(type) {
	case *types.Basic:
		if u.Info()&types.IsBoolean != 0 {
			return App(fn, SBool, i, j)
		}
	case *types.Struct:
		// elements of an inner slice that are structs of scalars / interfaces (e.g. []KeyValue[CSSClass, bool])
		sv := &StructV{F: map[string]Value{}}
		for k := 0; k < u.NumFields(); k++ {
			f := u.Field(k)
			sv.Names = append(sv.Names, f.Name())
			sv.F[f.Name()] = e.elemAt2(fn+"."+f.Name(), f.Type(), i, j)
		}
		return sv
	case *types.Interface:
		if !isErrorType(t) {
			return &IfaceV{Tag: App(fn+".tag", SInt, i, j), Id: App(fn+".id", SInt, i, j), Payloads: map[string]Value{}}
		}
	}
	return App(fn, SInt, i, j)
}

func (e *Engine) allocObj(st *State, v Value) int {
	e.nextObj++
	if st != nil {
		st.heap[e.nextObj] = v
	}
	return e.nextObj
}

func sortOfType(t types.Type) *Sort {
	if isStringLike(t) {
		return SStr
	}
	if b, ok := t.Underlying().(*types.Basic); ok && b.Info()&types.IsBoolean != 0 {
		return SBool
	}
	return SInt
}

func (e *Engine) freshMap(st *State, nm string, m *types.Map) *MapV {
	ks := sortOfType(m.Key())
	mv := &MapV{Ref: Var(nm+".ref", SInt), Dom: Var(nm+".dom", SArr(ks, SBool)), Val: map[string]*Term{}, K: ks, Elem: m.Elem()}
	if st != nil {
		// a nil map has no keys
		st.Assume(Implies(Eq(mv.Ref, Int(0)), Eq(mv.Dom, constArray(ks, SBool, False))))
		st.Assume(Ge(mv.Ref, Int(0)))
	}
	if opaqueElem(m.Elem()) {
		return mv
	}
	for _, leaf := range mapLeaves(m.Elem(), "") {
		mv.Val[leaf.name] = Var(nm+".val"+leaf.name, SArr(ks, leaf.sort))
	}
	return mv
}

type leafInfo struct {
	name string
	sort *Sort
	typ  types.Type
}

func mapLeaves(t types.Type, prefix string) []leafInfo {
	if im, ok := t.Underlying().(*types.Map); ok {
		// a map of maps: the inner map is stored by value as nested arrays (no aliasing between inner maps)
		k2 := sortOfType(im.Key())
		out := []leafInfo{{prefix + "#ref", SInt, t}, {prefix + "#dom", SArr(k2, SBool), t}}
		for _, l := range mapLeaves(im.Elem(), "") {
			out = append(out, leafInfo{prefix + "#val" + l.name, SArr(k2, l.sort), t})
		}
		return out
	}
	if _, ok := t.Underlying().(*types.Interface); ok && !isErrorType(t) {
		return []leafInfo{{prefix + "#tag", SInt, t}, {prefix + "#id", SInt, t}}
	}
	if st, ok := t.Underlying().(*types.Struct); ok && !isStringLike(t) {
		var out []leafInfo
		for i := 0; i < st.NumFields(); i++ {
			out = append(out, mapLeaves(st.Field(i).Type(), prefix+"."+st.Field(i).Name())...)
		}
		return out
	}
	return []leafInfo{{prefix, sortOfType(t), t}}
}
