package main

// Ghost state: bytes accepted by writers (out), HTTP response traces (tr),
// and the "some callee failed" flag (failedDuring).

import (
	"fmt"
	"go/ast"
	"go/token"
	"go/types"
	"net/textproto"
	"strconv"
	"strings"
)

const failedKey = "failedDuring"

func (ec *evalCtx) failedLval() lval {
	return lval{
		get: func() Value {
			if v, ok := ec.st.ghost[failedKey]; ok {
				return v
			}
			v := Var("failedDuring0", SBool)
			ec.st.ghost[failedKey] = v
			return v
		},
		set: func(v Value) { ec.st.ghost[failedKey] = v },
	}
}

// ghostEpoch: lazily materialised ghost values are named after the epoch of the
// state; a loop head that may have side effects starts a new epoch, so that a
// ghost first touched inside the loop is not identified with its entry value.
func ghostEpoch(st *State) int64 {
	if t, ok := st.ghost["$epoch"].(*Term); ok && t.IsInt() {
		return t.Int.Int64()
	}
	return 0
}

// defaultGhost: the value a lazily materialised ghost location has in st before
// it was first touched (deterministic in the key and the state's epoch).
func defaultGhost(st *State, key string) Value {
	ep := ghostEpoch(st)
	switch {
	case strings.HasPrefix(key, "out:"):
		return Var(fmt.Sprintf("out%d:%s", ep, key[4:]), SStr)
	case strings.HasPrefix(key, "in:"):
		return Var(fmt.Sprintf("in%d:%s", ep, key[3:]), SStr)
	case strings.HasPrefix(key, "tr:"):
		nm := fmt.Sprintf("tr%d:%s", ep, key[3:])
		return &SliceV{Len: Var(nm+".len", SInt), Nil: False, At: func(i *Term) Value {
			return &StructV{Names: []string{"kind", "a", "b", "n", "h"}, F: map[string]Value{
				"kind": App(nm+".kind", SInt, i), "a": App(nm+".a", SStr, i), "b": App(nm+".b", SStr, i),
				"n": App(nm+".n", SInt, i), "h": App(nm+".h", SInt, i)}}
		}}
	case strings.HasPrefix(key, "hdr:"):
		return Var(fmt.Sprintf("hdr%d:%s", ep, key[4:]), SArr(SStr, SStr))
	case strings.HasPrefix(key, "refused:"):
		return Var(fmt.Sprintf("refused%d:%s", ep, key[8:]), SInt)
	case strings.HasPrefix(key, "lock:"), strings.HasPrefix(key, "rlock:"):
		return False
	}
	return nil
}

// refusedLval: ghost counter of the writes on w that returned an error (the connection / writer refused bytes).
func (ec *evalCtx) refusedLval(w Value) lval {
	key := "refused:" + writerKey(ec, w)
	return lval{
		get: func() Value {
			if v, ok := ec.st.ghost[key]; ok {
				return v
			}
			v := defaultGhost(ec.st, key)
			ec.st.ghost[key] = v
			return v
		},
		set: func(v Value) { ec.st.ghost[key] = v },
	}
}

func (ec *evalCtx) noteFailure(errNonNil *Term) {
	lv := ec.failedLval()
	lv.set(Or(scalar(lv.get()), errNonNil))
}

// bufferObject: if w denotes an in-memory buffer (bytes.Buffer / strings.Builder,
// possibly boxed in an interface) returns the heap object id holding its "buf".
func (ec *evalCtx) bufferObject(w Value) (int, bool) {
	switch x := w.(type) {
	case *PtrV:
		if sv, ok := ec.st.heap[x.Obj].(*StructV); ok {
			if _, has := sv.F["buf"]; has {
				_, isW := sv.F["$writer"]
				_, isB := sv.F["$target"]
				if !isW && !isB {
					return x.Obj, true
				}
			}
		}
	case *IfaceV:
		for _, p := range x.Payloads {
			if pv, ok := p.(*PtrV); ok {
				if id, ok := ec.bufferObject(pv); ok && x.Tag.IsInt() {
					return id, true
				}
			}
		}
	case *boxedV:
		if sv, ok := ec.st.heap[x.Obj].(*StructV); ok {
			_, isB := sv.F["$target"]
			if _, has := sv.F["buf"]; has && !isB {
				return x.Obj, true
			}
		}
	}
	return 0, false
}

func (ec *evalCtx) outLval(w Value) lval {
	if c, a, b, ok := splitIface(w); ok {
		return condLval(c, ec.outLval(a), ec.outLval(b))
	}
	if id, ok := ec.bufferObject(w); ok {
		return lval{
			get: func() Value { return ec.st.heap[id].(*StructV).F["buf"] },
			set: func(v Value) { ec.st.heap[id] = ec.st.heap[id].(*StructV).With("buf", v) },
		}
	}
	key := "out:" + writerKey(ec, w)
	return lval{
		get: func() Value {
			if v, ok := ec.st.ghost[key]; ok {
				return v
			}
			v := Var(fmt.Sprintf("out%d:%s", ghostEpoch(ec.st), writerKey(ec, w)), SStr)
			ec.st.ghost[key] = v
			return v
		},
		set: func(v Value) { ec.st.ghost[key] = v },
	}
}

// ghostWrite: w accepts a prefix of content; all of it iff the returned error is nil.
func (ec *evalCtx) ghostWrite(w Value, content *Term) (n, err *Term) {
	lv := ec.outLval(w)
	if _, ok := ec.bufferObject(w); ok {
		lv.set(Concat(scalar(lv.get()), content))
		return StrLen(content), Int(0)
	}
	n = Var(ec.e().fresher.name("write.n"), SInt)
	err = Var(ec.e().fresher.name("write.err"), SInt)
	ec.st.Assume(And(Le(Int(0), n), Le(n, StrLen(content))))
	ec.st.Assume(Implies(Eq(err, Int(0)), Eq(n, StrLen(content))))
	accepted := Ite(Eq(err, Int(0)), content, Substr(content, Int(0), n))
	lv.set(Concat(scalar(lv.get()), accepted))
	ec.noteFailure(Not(Eq(err, Int(0))))
	rl := ec.refusedLval(w)
	rl.set(Add(scalar(rl.get()), Ite(Eq(err, Int(0)), Int(0), Int(1))))
	ec.e().trusted["writer contract: an io.Writer accepts a prefix of each write, and all of it iff it returns a nil error"] = true
	return n, err
}

// runtimeBuffer: if w denotes a templ runtime.Buffer (struct with Underlying and
// b *bufio.Writer) returns its struct.
func (ec *evalCtx) runtimeBuffer(w Value) (*StructV, bool) {
	var p *PtrV
	switch x := w.(type) {
	case *PtrV:
		p = x
	case *IfaceV:
		if x.Tag.IsInt() && len(x.Payloads) == 1 {
			for _, pl := range x.Payloads {
				p, _ = pl.(*PtrV)
			}
		}
	}
	if p == nil || p.Obj < 0 {
		return nil, false
	}
	sv, ok := ec.st.heap[p.Obj].(*StructV)
	if !ok || sv.F["Underlying"] == nil || sv.F["b"] == nil {
		return nil, false
	}
	return sv, true
}

// runtimeBufferSym: like runtimeBuffer, but for an interface value with a
// symbolic dynamic type returns the *Buffer payload together with the
// condition "the dynamic type is *runtime.Buffer".
func (ec *evalCtx) runtimeBufferSym(w Value) (*StructV, *Term, bool) {
	if sv, ok := ec.runtimeBuffer(w); ok {
		return sv, True, true
	}
	iv, ok := w.(*IfaceV)
	if !ok {
		return nil, nil, false
	}
	if iv.Tag.IsInt() {
		return nil, nil, false
	}
	rp := ec.e().pkgs[modulePath+"/runtime"]
	if rp == nil {
		return nil, nil, false
	}
	obj := rp.Types.Scope().Lookup("Buffer")
	if obj == nil {
		return nil, nil, false
	}
	pt := types.NewPointer(obj.Type())
	cond, p := ec.assertTo(iv, pt)
	pv, ok := p.(*PtrV)
	if !ok || pv.Obj < 0 {
		return nil, nil, false
	}
	sv, ok := ec.st.heap[pv.Obj].(*StructV)
	if !ok {
		return nil, nil, false
	}
	return sv, cond, true
}

func (ec *evalCtx) bufferDoc(sv *StructV) *Term {
	bwp, ok := sv.F["b"].(*PtrV)
	if ok && bwp.Obj >= 0 {
		if bsv, ok := ec.st.heap[bwp.Obj].(*StructV); ok && bsv.F["$target"] != nil {
			return Concat(scalar(ec.outLval(sv.F["Underlying"]).get()), scalar(bsv.F["buf"]))
		}
	}
	panic(unsupported("doc: runtime.Buffer without a modelled bufio.Writer"))
}

// docValue: the logical output of a writer: for a runtime.Buffer the bytes its
// underlying writer accepted followed by the bytes still pending in its
// bufio.Writer; for any other writer out(w).
func (ec *evalCtx) docValue(w Value) Value {
	if sv, ok := ec.runtimeBuffer(w); ok {
		return ec.bufferDoc(sv)
	}
	return ec.outLval(w).get()
}

// sinkValue: what has actually left the process through w: for a runtime.Buffer
// the output of its underlying writer, otherwise out(w).
func (ec *evalCtx) sinkValue(w Value) Value {
	if sv, ok := ec.runtimeBuffer(w); ok {
		return ec.outLval(sv.F["Underlying"]).get()
	}
	return ec.outLval(w).get()
}

// ghostWriteIf performs ghostWrite only when cond holds (state merged with ite).
func (ec *evalCtx) ghostWriteIf(w Value, content *Term, cond *Term) (n, err *Term) {
	if cond.IsTrue() {
		return ec.ghostWrite(w, content)
	}
	lv := ec.outLval(w)
	before := scalar(lv.get())
	beforeFailed := scalar(ec.failedLval().get())
	n, err = ec.ghostWrite(w, content)
	after := scalar(lv.get())
	lv.set(Ite(cond, after, before))
	ec.failedLval().set(Ite(cond, scalar(ec.failedLval().get()), beforeFailed))
	return n, Ite(cond, err, Int(0))
}

// ---------------------------------------------------------------------------
// HTTP response trace

const (
	evSetHeader   = 1
	evWriteHeader = 2
	evWriteBody   = 3
	evHTTPError   = 4
	evDelegate    = 5
)

func mkEvent(kind int64, a, b *Term, n, h *Term) *StructV {
	if a == nil {
		a = Str("")
	}
	if b == nil {
		b = Str("")
	}
	if n == nil {
		n = Int(0)
	}
	if h == nil {
		h = Int(0)
	}
	return &StructV{Names: []string{"kind", "a", "b", "n", "h"}, F: map[string]Value{"kind": Int(kind), "a": a, "b": b, "n": n, "h": h}}
}

func (ec *evalCtx) traceLval(w Value) lval {
	wk := writerKey(ec, w)
	key := "tr:" + wk
	return lval{
		get: func() Value {
			if v, ok := ec.st.ghost[key]; ok {
				return v
			}
			nm := fmt.Sprintf("tr%d:%s", ghostEpoch(ec.st), wk)
			ln := Var(nm+".len", SInt)
			v := &SliceV{Len: ln, Nil: False, At: func(i *Term) Value {
				return &StructV{Names: []string{"kind", "a", "b", "n", "h"}, F: map[string]Value{
					"kind": App(nm+".kind", SInt, i), "a": App(nm+".a", SStr, i), "b": App(nm+".b", SStr, i),
					"n": App(nm+".n", SInt, i), "h": App(nm+".h", SInt, i)}}
			}}
			ec.st.ghost[key] = v
			return v
		},
		set: func(v Value) { ec.st.ghost[key] = v },
	}
}

func (ec *evalCtx) traceAppend(w Value, ev *StructV) {
	lv := ec.traceLval(w)
	lv.set(sliceAppend(lv.get().(*SliceV), sliceLit([]Value{ev})))
}

// inLval: the unread input of a reader (bufio.Reader etc.).
// splitIface: an interface value whose identity is a conditional (two different values merged at a join) as its
// alternatives, so that ghost state attached to the identity is read and written per alternative.
func splitIface(v Value) (cond *Term, a, b Value, ok bool) {
	x, isI := v.(*IfaceV)
	if !isI || x.Id == nil || x.Id.Op != "ite" || len(x.Id.Args) != 3 {
		return nil, nil, nil, false
	}
	c := x.Id.Args[0]
	tagA, tagB := x.Tag, x.Tag
	if x.Tag.Op == "ite" && len(x.Tag.Args) == 3 && x.Tag.Args[0].Key() == c.Key() {
		tagA, tagB = x.Tag.Args[1], x.Tag.Args[2]
	}
	mk := func(id, tag *Term) Value {
		n := &IfaceV{Id: id, Tag: tag, Payloads: map[string]Value{}}
		for k, p := range x.Payloads {
			n.Payloads[k] = p
		}
		return n
	}
	return c, mk(x.Id.Args[1], tagA), mk(x.Id.Args[2], tagB), true
}

func condLval(c *Term, la, lb lval) lval {
	return lval{
		get: func() Value { return Ite(c, scalar(la.get()), scalar(lb.get())) },
		set: func(v Value) {
			va, vb := scalar(la.get()), scalar(lb.get())
			la.set(Ite(c, scalar(v), va))
			lb.set(Ite(c, vb, scalar(v)))
		},
	}
}

func (ec *evalCtx) inLval(rd Value) lval {
	if c, a, b, ok := splitIface(rd); ok {
		return condLval(c, ec.inLval(a), ec.inLval(b))
	}
	if id, ok := ec.bufferObject(rd); ok {
		// an in-memory buffer used as a reader: its unread input is its contents
		return lval{
			get: func() Value { return ec.st.heap[id].(*StructV).F["buf"] },
			set: func(v Value) { ec.st.heap[id] = ec.st.heap[id].(*StructV).With("buf", v) },
		}
	}
	wk := writerKey(ec, rd)
	key := "in:" + wk
	return lval{
		get: func() Value {
			if v, ok := ec.st.ghost[key]; ok {
				return v
			}
			v := Var(fmt.Sprintf("in%d:%s", ghostEpoch(ec.st), wk), SStr)
			ec.st.ghost[key] = v
			return v
		},
		set: func(v Value) { ec.st.ghost[key] = v },
	}
}

// ghostLvalOf resolves a ghost location expression used in modifies / ensures:
// out(w), tr(w), failedDuring. ok=false if e is not a ghost location.
func (ec *evalCtx) ghostLvalOf(e ast.Expr) (lval, bool) {
	switch x := e.(type) {
	case *ast.Ident:
		if x.Name == failedKey {
			return ec.failedLval(), true
		}
	case *ast.CallExpr:
		if id, ok := x.Fun.(*ast.Ident); ok && len(x.Args) == 1 {
			switch id.Name {
			case "out":
				return ec.outLval(ec.eval(x.Args[0])), true
			case "refused":
				return ec.refusedLval(ec.eval(x.Args[0])), true
			case "tr":
				return ec.traceLval(ec.eval(x.Args[0])), true
			case "in":
				return ec.inLval(ec.eval(x.Args[0])), true
			case "target":
				if p, ok := ec.eval(x.Args[0]).(*PtrV); ok && p.Obj >= 0 {
					if sv, ok := ec.st.heap[p.Obj].(*StructV); ok && sv.F["$target"] != nil {
						return lval{
							get: func() Value { return ec.st.heap[p.Obj].(*StructV).F["$target"] },
							set: func(v Value) { ec.st.heap[p.Obj] = ec.st.heap[p.Obj].(*StructV).With("$target", v) },
						}, true
					}
				}
			}
		}
	}
	return lval{}, false
}

// havocGhost assigns a fresh value to a ghost location.
func (ec *evalCtx) havocGhost(e ast.Expr) bool {
	// reach(x): everything reachable from x through pointers (x is handed to callees without contract)
	if call, ok := e.(*ast.CallExpr); ok && exprString(call.Fun) == "reach" && len(call.Args) == 1 {
		v := ec.eval(call.Args[0])
		ec.argsOnly = true
		ec.havocReachable(nil, []Value{v})
		ec.argsOnly = false
		return true
	}
	if call, ok := e.(*ast.CallExpr); ok && exprString(call.Fun) == "doc" && len(call.Args) == 1 {
		w := ec.eval(call.Args[0])
		if sv, ok := ec.runtimeBuffer(w); ok {
			ulv := ec.outLval(sv.F["Underlying"])
			ulv.set(Var(ec.e().fresher.name("ghost.out"), SStr))
			if bwp, ok := sv.F["b"].(*PtrV); ok && bwp.Obj >= 0 {
				if bsv, ok := ec.st.heap[bwp.Obj].(*StructV); ok {
					ec.st.heap[bwp.Obj] = bsv.With("buf", Var(ec.e().fresher.name("ghost.pending"), SStr)).With("$err", Var(ec.e().fresher.name("ghost.sticky"), SInt))
				}
			}
			return true
		}
		ec.outLval(w).set(Var(ec.e().fresher.name("ghost.out"), SStr))
		return true
	}
	lv, ok := ec.ghostLvalOf(e)
	if !ok {
		return false
	}
	if call, ok := e.(*ast.CallExpr); ok && exprString(call.Fun) == "out" && len(call.Args) == 1 {
		// a callee that may write to w may be refused bytes
		rl := ec.refusedLval(ec.eval(call.Args[0]))
		nv := Var(ec.e().fresher.name("ghost.refused"), SInt)
		ec.st.Assume(Ge(nv, scalar(rl.get())))
		rl.set(nv)
	}
	switch cur := lv.get().(type) {
	case *Term:
		lv.set(Var(ec.e().fresher.name("ghost."+exprString(e)), cur.Sort))
	case *SliceV:
		nm := ec.e().fresher.name("ghost.tr")
		ln := Var(nm+".len", SInt)
		ec.st.Assume(Le(Int(0), ln))
		lv.set(&SliceV{Len: ln, Nil: False, At: func(i *Term) Value {
			return &StructV{Names: []string{"kind", "a", "b", "n", "h"}, F: map[string]Value{
				"kind": App(nm+".kind", SInt, i), "a": App(nm+".a", SStr, i), "b": App(nm+".b", SStr, i),
				"n": App(nm+".n", SInt, i), "h": App(nm+".h", SInt, i)}}
		}})
	}
	return true
}

// ---------------------------------------------------------------------------
// fmt formats

// formatPieces expands a constant format with the verbs that occur in the
// functions under contract. Unknown verbs / argument kinds give an opaque piece.
func (ec *evalCtx) formatPieces(format string, args []Value, argTypes []types.Type) *Term {
	var parts []*Term
	ai := 0
	for i := 0; i < len(format); {
		if format[i] != '%' {
			j := strings.IndexByte(format[i:], '%')
			if j < 0 {
				j = len(format) - i
			}
			parts = append(parts, Str(format[i:i+j]))
			i += j
			continue
		}
		// verb
		j := i + 1
		for j < len(format) && strings.IndexByte("0123456789.+-# ", format[j]) >= 0 {
			j++
		}
		if j >= len(format) {
			parts = append(parts, Var(ec.e().fresher.name("fmt.bad"), SStr))
			break
		}
		verb := format[j]
		flags := format[i+1 : j]
		i = j + 1
		if verb == '%' {
			parts = append(parts, Str("%"))
			continue
		}
		if ai >= len(args) {
			parts = append(parts, Var(ec.e().fresher.name("fmt.missing"), SStr))
			continue
		}
		a := args[ai]
		var at types.Type
		if ai < len(argTypes) {
			at = argTypes[ai]
		}
		ai++
		t, isTerm := a.(*Term)
		switch {
		case isTerm && t.Sort == SStr && (verb == 's' || verb == 'v') && flags == "":
			parts = append(parts, t)
		case isTerm && t.Sort == SInt && (verb == 'd' || verb == 'v') && flags == "" && at != nil && !isErrorType(at):
			parts = append(parts, itoaModel(ec, t))
		case isTerm && t.Sort == SInt && verb == 'X' && flags == "06":
			p := App("fmt.%06X", SStr, t)
			ec.st.Assume(ec.e().inL(p, ec.e().langs.Named("HEX6PLUS", `[0-9A-F]{6,}`)))
			parts = append(parts, p)
		default:
			p := Var(ec.e().fresher.name("fmt.%"+string(verb)), SStr)
			parts = append(parts, p)
		}
	}
	return Concat(parts...)
}

func argTypesOf(info *types.Info, call *ast.CallExpr, from int) []types.Type {
	var out []types.Type
	for _, a := range call.Args[from:] {
		out = append(out, info.TypeOf(a))
	}
	return out
}

func unpackVariadic(v Value) []Value {
	s, ok := v.(*SliceV)
	if !ok || !s.Len.IsInt() {
		return nil
	}
	n := int(s.Len.Int.Int64())
	out := make([]Value, n)
	for i := 0; i < n; i++ {
		out[i] = s.At(Int(int64(i)))
	}
	return out
}

func init() {
	stdModels["io.WriteString"] = func(ec *evalCtx, call *ast.CallExpr, recv Value, args []Value) Value {
		n, err := ec.ghostWrite(args[0], scalar(args[1]))
		return &TupleV{Vs: []Value{n, err}}
	}
	wr := func(ec *evalCtx, call *ast.CallExpr, recv Value, args []Value) Value {
		n, err := ec.ghostWrite(recv, scalar(args[0]))
		return &TupleV{Vs: []Value{n, err}}
	}
	stdModels["(io.Writer).Write"] = wr
	stdModels["(io.StringWriter).WriteString"] = wr
	stdModels["fmt.Fprintf"] = func(ec *evalCtx, call *ast.CallExpr, recv Value, args []Value) Value {
		f, ok := args[1].(*Term)
		if !ok || !f.IsStr() {
			panic(unsupported("fmt.Fprintf with a non-constant format"))
		}
		var rest []Value
		if len(args) > 2 {
			rest = unpackVariadicRaw(ec, args[2])
		}
		content := ec.formatPieces(f.Str, rest, argTypesOf(ec.info, call, 2))
		n, err := ec.ghostWrite(args[0], content)
		return &TupleV{Vs: []Value{n, err}}
	}
	stdModels["fmt.Sprintf"] = func(ec *evalCtx, call *ast.CallExpr, recv Value, args []Value) Value {
		f, ok := args[0].(*Term)
		if !ok || !f.IsStr() {
			panic(unsupported("fmt.Sprintf with a non-constant format"))
		}
		var rest []Value
		if len(args) > 1 {
			rest = unpackVariadicRaw(ec, args[1])
		}
		return ec.formatPieces(f.Str, rest, argTypesOf(ec.info, call, 1))
	}
	// net/http
	stdModels["(net/http.ResponseWriter).Header"] = func(ec *evalCtx, call *ast.CallExpr, recv Value, args []Value) Value {
		return &StructV{Names: []string{"$headerOf"}, F: map[string]Value{"$headerOf": recv}}
	}
	stdModels["(net/http.Header).Set"] = func(ec *evalCtx, call *ast.CallExpr, recv Value, args []Value) Value {
		if mv, isMap := recv.(*MapV); isMap {
			// a header map of a request / response: ghost view canonical key -> first value
			lv := ec.headerLval(mv)
			lv.set(Store(scalar(lv.get()), canonHeaderKey(scalar(args[0])), scalar(args[1])))
			ec.e().trusted["net/http.Header modelled as a map from canonical key to its first value (Get / Set)"] = true
			return nil
		}
		sv, ok := recv.(*StructV)
		if !ok || sv.F["$headerOf"] == nil {
			panic(unsupported("Header.Set on a header that does not come from ResponseWriter.Header()"))
		}
		ec.traceAppend(sv.F["$headerOf"], mkEvent(evSetHeader, scalar(args[0]), scalar(args[1]), nil, nil))
		return nil
	}
	stdModels["(net/http.Header).Del"] = func(ec *evalCtx, call *ast.CallExpr, recv Value, args []Value) Value {
		mv, isMap := recv.(*MapV)
		if !isMap {
			panic(unsupported("Header.Del on %T", recv))
		}
		lv := ec.headerLval(mv)
		lv.set(Store(scalar(lv.get()), canonHeaderKey(scalar(args[0])), Str("")))
		return nil
	}
	stdModels["(net/http.Header).Add"] = func(ec *evalCtx, call *ast.CallExpr, recv Value, args []Value) Value {
		mv, isMap := recv.(*MapV)
		if !isMap {
			panic(unsupported("Header.Add on %T", recv))
		}
		// the first value stays the first value unless there was none
		lv := ec.headerLval(mv)
		k := canonHeaderKey(scalar(args[0]))
		cur := Select(scalar(lv.get()), k)
		lv.set(Store(scalar(lv.get()), k, Ite(Eq(cur, Str("")), scalar(args[1]), cur)))
		return nil
	}
	stdModels["(net/http.Header).Get"] = func(ec *evalCtx, call *ast.CallExpr, recv Value, args []Value) Value {
		mv, isMap := recv.(*MapV)
		if !isMap {
			panic(unsupported("Header.Get on %T", recv))
		}
		ec.e().trusted["net/http.Header modelled as a map from canonical key to its first value (Get / Set)"] = true
		return Select(scalar(ec.headerLval(mv).get()), canonHeaderKey(scalar(args[0])))
	}
	stdModels["(net/http.ResponseWriter).WriteHeader"] = func(ec *evalCtx, call *ast.CallExpr, recv Value, args []Value) Value {
		ec.traceAppend(recv, mkEvent(evWriteHeader, nil, nil, scalar(args[0]), nil))
		return nil
	}
	stdModels["(net/http.ResponseWriter).Write"] = func(ec *evalCtx, call *ast.CallExpr, recv Value, args []Value) Value {
		ec.traceAppend(recv, mkEvent(evWriteBody, scalar(args[0]), nil, nil, nil))
		n := Var(ec.e().fresher.name("write.n"), SInt)
		err := Var(ec.e().fresher.name("write.err"), SInt)
		ec.noteFailure(Not(Eq(err, Int(0))))
		return &TupleV{Vs: []Value{n, err}}
	}
	stdModels["net/http.Error"] = func(ec *evalCtx, call *ast.CallExpr, recv Value, args []Value) Value {
		ec.traceAppend(args[0], mkEvent(evHTTPError, scalar(args[1]), nil, scalar(args[2]), nil))
		return nil
	}
	stdModels["(net/http.Handler).ServeHTTP"] = func(ec *evalCtx, call *ast.CallExpr, recv Value, args []Value) Value {
		var id *Term
		switch h := recv.(type) {
		case *IfaceV:
			id = h.Id
		case *Term:
			id = h
		default:
			panic(unsupported("ServeHTTP on %T", recv))
		}
		ec.traceAppend(args[0], mkEvent(evDelegate, nil, nil, nil, id))
		return nil
	}
	stdModels["(*net/http.Request).Context"] = func(ec *evalCtx, call *ast.CallExpr, recv Value, args []Value) Value {
		p := recv.(*PtrV)
		return &IfaceV{Tag: Int(ec.e().typeTag("context")), Id: App("request.ctx", SInt, Int(int64(p.Obj))), Payloads: map[string]Value{}}
	}
	// encoding/json
	stdModels["encoding/json.Marshal"] = func(ec *evalCtx, call *ast.CallExpr, recv Value, args []Value) Value {
		data, err := jsonMarshalModel(ec, args[0])
		return &TupleV{Vs: []Value{data, err}}
	}
	stdModels["encoding/json.NewEncoder"] = func(ec *evalCtx, call *ast.CallExpr, recv Value, args []Value) Value {
		id := ec.e().allocObj(ec.st, &StructV{Names: []string{"$writer", "$escapeHTML"}, F: map[string]Value{"$writer": args[0], "$escapeHTML": True}})
		return &PtrV{Nil: False, Obj: id}
	}
	stdModels["(*encoding/json.Encoder).SetEscapeHTML"] = func(ec *evalCtx, call *ast.CallExpr, recv Value, args []Value) Value {
		sv := ec.st.heap[recv.(*PtrV).Obj].(*StructV)
		nv := &StructV{Names: sv.Names, F: map[string]Value{}}
		for k, v := range sv.F {
			nv.F[k] = v
		}
		nv.F["$escapeHTML"] = scalar(args[0])
		ec.st.heap[recv.(*PtrV).Obj] = nv
		return nil
	}
	stdModels["(*encoding/json.Encoder).Encode"] = func(ec *evalCtx, call *ast.CallExpr, recv Value, args []Value) Value {
		sv := ec.st.heap[recv.(*PtrV).Obj].(*StructV)
		esc, _ := sv.F["$escapeHTML"].(*Term)
		if esc == nil {
			esc = True
		}
		data, merr := jsonMarshalModelEsc(ec, args[0], esc)
		// on a marshalling error nothing is written
		c := Eq(merr, Int(0))
		_, werr := ec.ghostWrite(sv.F["$writer"], Ite(c, Concat(data, Str("\n")), Str("")))
		return Ite(c, werr, merr)
	}
	poolOf := func(ec *evalCtx, call *ast.CallExpr) (*PoolDirective, *types.Var) {
		sel := call.Fun.(*ast.SelectorExpr)
		var obj types.Object
		switch x := ast.Unparen(sel.X).(type) {
		case *ast.Ident:
			obj = ec.info.Uses[x]
		case *ast.SelectorExpr:
			obj = ec.info.Uses[x.Sel]
		}
		v, ok := obj.(*types.Var)
		if !ok || v.Pkg() == nil {
			panic(unsupported("sync.Pool that is not a package-level variable"))
		}
		pd := ec.e().cs.Pools[v.Pkg().Path()+"."+v.Name()]
		return pd, v
	}
	stdModels["(*sync.Pool).Get"] = func(ec *evalCtx, call *ast.CallExpr, recv Value, args []Value) Value {
		pd, v := poolOf(ec, call)
		if pd == nil {
			// no resource invariant declared: whatever was Put (by anyone) comes back - an arbitrary value
			ec.e().notes = appendUnique(ec.e().notes, "sync.Pool "+v.Name()+" has no pool directive: Get returns an arbitrary value")
			return ec.e().freshIface(ec.st, ec.e().fresher.name("pooled."+v.Name()))
		}
		pkg := ec.e().pkgs[pd.Pkg]
		tv, err := types.Eval(pkg.Fset, pkg.Types, v.Pos(), pd.Type)
		if err != nil {
			panic(unsupported("pool %s: type %s: %v", v.Name(), pd.Type, err))
		}
		x := ec.e().freshValue(ec.st, "pooled."+v.Name(), tv.Type, false)
		if p, ok := x.(*PtrV); ok {
			p.Nil = False
		}
		sc := &evalCtx{fc: ec.fc, st: ec.st, spec: true, scope: map[string]Value{"x": x}, pkg: pkg, noLocals: true, pol: -1}
		ec.st.Assume(sc.evalBool(pd.Inv))
		ec.e().trusted["sync.Pool "+v.Name()+": Get returns New() or a value that was Put; resource invariant "+pd.Text+" (checked at every Put under contract; New() assumed to satisfy it)"] = true
		return ec.e().boxIface(ec.st, x, tv.Type)
	}
	stdModels["(*sync.Pool).Put"] = func(ec *evalCtx, call *ast.CallExpr, recv Value, args []Value) Value {
		pd, v := poolOf(ec, call)
		if pd == nil {
			return nil
		}
		pkg := ec.e().pkgs[pd.Pkg]
		var x Value = args[0]
		if iv, ok := x.(*IfaceV); ok {
			for _, p := range iv.Payloads {
				x = p
			}
		}
		sc := &evalCtx{fc: ec.fc, st: ec.st, spec: true, scope: map[string]Value{"x": x}, pkg: pkg, noLocals: true, pol: 1}
		ec.fc.oblige(ec.st, "pool", sc.evalBool(pd.Inv), call.Pos(), "pool invariant of "+v.Name()+" at Put: "+pd.Text)
		return nil
	}
	// bufio.Reader over an input stream: in(r) is the unread input. Chunking of the
	// underlying reader is hidden behind this contract.
	stdModels["(*bufio.Reader).ReadString"] = func(ec *evalCtx, call *ast.CallExpr, recv Value, args []Value) Value {
		lv := ec.inLval(recv)
		rest := scalar(lv.get())
		d := scalar(args[0])
		idx := mk("str.indexof", SInt, rest, FromCode(d), Int(0))
		found := Ge(idx, Int(0))
		line := Ite(found, Substr(rest, Int(0), Add(idx, Int(1))), rest)
		err := Var(ec.e().fresher.name("ReadString.err"), SInt)
		ec.st.Assume(Eq(Eq(err, Int(0)), found))
		ec.st.Assume(And(Ge(idx, Int(-1)), Lt(idx, StrLen(rest))))
		lv.set(Ite(found, Substr(rest, Add(idx, Int(1)), StrLen(rest)), Str("")))
		ec.noteFailure(Not(Eq(err, Int(0))))
		ec.e().trusted["std:bufio.Reader.ReadString (returns the shortest prefix of the unread input ending in the delimiter, or the rest with a non-nil error)"] = true
		return &TupleV{Vs: []Value{line, err}}
	}
	stdModels["io.ReadFull"] = func(ec *evalCtx, call *ast.CallExpr, recv Value, args []Value) Value {
		lv := ec.inLval(args[0])
		rest := scalar(lv.get())
		buf := scalar(args[1])
		n := StrLen(buf)
		enough := Ge(StrLen(rest), n)
		err := Var(ec.e().fresher.name("ReadFull.err"), SInt)
		ec.st.Assume(Eq(Eq(err, Int(0)), enough))
		got := Var(ec.e().fresher.name("ReadFull.buf"), SStr)
		ec.st.Assume(Eq(StrLen(got), n))
		ec.st.Assume(Implies(enough, Eq(got, Substr(rest, Int(0), n))))
		ec.lvalue(call.Args[1]).set(got)
		lv.set(Ite(enough, Substr(rest, n, StrLen(rest)), Str("")))
		ec.noteFailure(Not(Eq(err, Int(0))))
		ec.e().trusted["std:io.ReadFull (err == nil iff len(buf) bytes were available; then buf holds exactly those bytes and they are consumed)"] = true
		return &TupleV{Vs: []Value{Ite(enough, n, Var(ec.e().fresher.name("ReadFull.n"), SInt)), err}}
	}
	stdModels["strconv.ParseInt"] = func(ec *evalCtx, call *ast.CallExpr, recv Value, args []Value) Value {
		s, base, bits := scalar(args[0]), scalar(args[1]), scalar(args[2])
		v := App("strconv.ParseInt.val", SInt, s, base, bits)
		err := App("strconv.ParseInt.err", SInt, s, base, bits)
		if bits.IsInt() && bits.Int.Int64() > 0 && bits.Int.Int64() <= 64 {
			b := int(bits.Int.Int64())
			ec.st.Assume(And(Le(Sub(Int(0), pow2(b-1)), v), Lt(v, pow2(b-1))))
		}
		ec.noteFailure(Not(Eq(err, Int(0))))
		return &TupleV{Vs: []Value{v, err}}
	}
	// net/url.Parse (getScheme): control bytes are rejected; the URL is absolute iff it starts with
	// [A-Za-z][A-Za-z0-9+.-]* ":" ; Scheme is that prefix lower-cased.
	stdModels["net/url.Parse"] = func(ec *evalCtx, call *ast.CallExpr, recv Value, args []Value) Value {
		s := scalar(args[0])
		err := App("url.Parse.err", SInt, s)
		scheme := App("url.scheme", SStr, s)
		e := ec.e()
		noctl := e.langs.Named("GO_URL_NO_CTL", `[^\x00-\x1f\x7f]*`)
		has := e.langs.Named("GO_URL_HAS_SCHEME", `[A-Za-z][A-Za-z0-9+.\-]*:.*`)
		ec.st.Assume(Implies(Eq(err, Int(0)), e.inL(s, noctl)))
		ec.st.Assume(Implies(Eq(err, Int(0)), Eq(Not(Eq(scheme, Str(""))), e.inL(s, has))))
		ec.noteFailure(Not(Eq(err, Int(0))))
		u := &StructV{Names: []string{"Scheme", "$src"}, F: map[string]Value{"Scheme": scheme, "$src": s}}
		e.trusted["std:net/url.Parse (rejects ASCII control bytes; absolute iff [A-Za-z][A-Za-z0-9+.-]*: prefix; Scheme = that prefix lower-cased)"] = true
		return &TupleV{Vs: []Value{&PtrV{Nil: Not(Eq(err, Int(0))), Obj: e.allocObj(ec.st, u)}, err}}
	}
	stdModels["(*net/url.URL).IsAbs"] = func(ec *evalCtx, call *ast.CallExpr, recv Value, args []Value) Value {
		sv := ec.st.heap[recv.(*PtrV).Obj].(*StructV)
		return Not(Eq(scalar(sv.F["Scheme"]), Str("")))
	}
	stdModels["strings.ContainsAny"] = func(ec *evalCtx, call *ast.CallExpr, recv Value, args []Value) Value {
		s, chars := scalar(args[0]), scalar(args[1])
		if !chars.IsStr() {
			panic(unsupported("ContainsAny with non-constant character set"))
		}
		for i := 0; i < len(chars.Str); i++ {
			if chars.Str[i] >= 0x80 {
				panic(unsupported("ContainsAny with non-ASCII characters"))
			}
		}
		var set byteSet
		for i := 0; i < len(chars.Str); i++ {
			set.add(chars.Str[i])
		}
		name := fmt.Sprintf("NONE_OF_%x_STAR", chars.Str)
		if !ec.e().langs.Has(name) {
			ec.e().langs.Define(name, reStar(reSet(set.not())), fmt.Sprintf("(code) strings without any of %q", chars.Str))
		}
		return Not(ec.e().inL(s, name))
	}
	stdModels["strings.ToLower"] = func(ec *evalCtx, call *ast.CallExpr, recv Value, args []Value) Value {
		s := scalar(args[0])
		if s.IsStr() {
			return Str(strings.ToLower(s.Str))
		}
		r := App("strings.ToLower", SStr, s)
		ec.st.Assume(Eq(StrLen(r), StrLen(s))) // holds for the ASCII-only languages below; used only together with them
		// for every ASCII-only language the argument is known to be in, the result is in its lower-case image
		seen := map[string]bool{}
		var walk func(t *Term)
		walk = func(t *Term) {
			if t.Op == "app" && strings.HasPrefix(t.Name, "inL:") && len(t.Args) == 1 && t.Args[0].Key() == s.Key() {
				ln := strings.TrimPrefix(t.Name, "inL:")
				if !seen[ln] {
					seen[ln] = true
					if img, ok := lowerImage(ec.e().langs.Get(ln)); ok {
						name := "LOWER_" + ln
						if !ec.e().langs.Has(name) {
							ec.e().langs.Define(name, img, "(code) image of "+ln+" under ASCII lower-casing")
						}
						ec.st.Assume(Implies(ec.e().inL(s, ln), ec.e().inL(r, name)))
					}
				}
			}
			for _, a := range t.Args {
				walk(a)
			}
		}
		for _, h := range ec.st.pc {
			walk(h)
		}
		ec.e().trusted["std:strings.ToLower (on ASCII-only input: bytewise lower-casing)"] = true
		return r
	}
	stdModels["strings.TrimSpace"] = func(ec *evalCtx, call *ast.CallExpr, recv Value, args []Value) Value {
		return trimSpaceModel(ec, scalar(args[0]))
	}
	specModels["strings.TrimSpace"] = func(ec *evalCtx, a []Value) Value { return trimSpaceModel(ec, scalar(a[0])) }
	bw := func(ec *evalCtx, recv Value) (*StructV, func(*StructV)) {
		p, ok := recv.(*PtrV)
		if !ok {
			panic(unsupported("bufio.Writer receiver %T", recv))
		}
		sv, ok := ec.st.heap[p.Obj].(*StructV)
		if !ok || sv.F["$target"] == nil {
			panic(unsupported("bufio.Writer object is opaque"))
		}
		return sv, func(n *StructV) { ec.st.heap[p.Obj] = n }
	}
	stdModels["bufio.NewWriterSize"] = func(ec *evalCtx, call *ast.CallExpr, recv Value, args []Value) Value {
		sv := &StructV{Names: []string{"$target", "buf", "$err"}, F: map[string]Value{"$target": args[0], "buf": Str(""), "$err": Int(0)}}
		return &PtrV{Nil: False, Obj: ec.e().allocObj(ec.st, sv)}
	}
	stdModels["bufio.NewWriter"] = stdModels["bufio.NewWriterSize"]
	stdModels["(*bufio.Writer).Reset"] = func(ec *evalCtx, call *ast.CallExpr, recv Value, args []Value) Value {
		if p, ok := recv.(*PtrV); ok {
			ec.oblige("nil", Not(p.Nil), call.Pos(), "nil *bufio.Writer")
		}
		sv, set := bw(ec, recv)
		set(sv.With("$target", args[0]).With("buf", Str("")).With("$err", Int(0)))
		return nil
	}
	stdModels["(*bufio.Writer).Size"] = func(ec *evalCtx, call *ast.CallExpr, recv Value, args []Value) Value {
		return Var(ec.e().fresher.name("bufio.size"), SInt)
	}
	// Write/WriteString: sticky error => nothing happens. Otherwise either the bytes are buffered, or a
	// flush of (pending ++ s) to the target is attempted; on failure the error becomes sticky.
	bwWrite := func(ec *evalCtx, call *ast.CallExpr, recv Value, args []Value) Value {
		if p, ok := recv.(*PtrV); ok {
			ec.oblige("nil", Not(p.Nil), call.Pos(), "nil *bufio.Writer")
		}
		sv, set := bw(ec, recv)
		s := scalar(args[0])
		sticky := scalar(sv.F["$err"])
		pending := scalar(sv.F["buf"])
		fl := Var(ec.e().fresher.name("bufio.flushes"), SBool)
		active := And(Eq(sticky, Int(0)), fl)
		ec.st.guards = append(ec.st.guards, active)
		total := Concat(pending, s)
		_, werr := ec.ghostWriteIf(sv.F["$target"], total, active)
		ec.st.guards = ec.st.guards[:len(ec.st.guards)-1]
		lost := Var(ec.e().fresher.name("bufio.pending"), SStr)
		newPending := Ite(Eq(sticky, Int(0)), Ite(fl, Ite(Eq(werr, Int(0)), Str(""), lost), Concat(pending, s)), pending)
		newSticky := Ite(Eq(sticky, Int(0)), Ite(fl, werr, Int(0)), sticky)
		set(sv.With("buf", newPending).With("$err", newSticky))
		n := Var(ec.e().fresher.name("bufio.n"), SInt)
		ec.st.Assume(And(Le(Int(0), n), Le(n, StrLen(s))))
		ec.st.Assume(Implies(Eq(newSticky, Int(0)), Eq(n, StrLen(s))))
		ec.noteFailure(Not(Eq(newSticky, Int(0))))
		ec.e().trusted["std:bufio.Writer (sticky error; logical output = target output ++ pending; a write either buffers or flushes a prefix to the target)"] = true
		return &TupleV{Vs: []Value{n, newSticky}}
	}
	stdModels["(*bufio.Writer).WriteString"] = bwWrite
	stdModels["(*bufio.Writer).Write"] = bwWrite
	stdModels["(*bufio.Writer).Flush"] = func(ec *evalCtx, call *ast.CallExpr, recv Value, args []Value) Value {
		if p, ok := recv.(*PtrV); ok {
			ec.oblige("nil", Not(p.Nil), call.Pos(), "nil *bufio.Writer")
		}
		sv, set := bw(ec, recv)
		sticky := scalar(sv.F["$err"])
		pending := scalar(sv.F["buf"])
		active := Eq(sticky, Int(0))
		_, werr := ec.ghostWriteIf(sv.F["$target"], pending, active)
		lost := Var(ec.e().fresher.name("bufio.pending"), SStr)
		newSticky := Ite(active, werr, sticky)
		set(sv.With("buf", Ite(active, Ite(Eq(werr, Int(0)), Str(""), lost), pending)).With("$err", newSticky))
		ec.noteFailure(Not(Eq(newSticky, Int(0))))
		return newSticky
	}
	stdModels["(context.Context).Err"] = func(ec *evalCtx, call *ast.CallExpr, recv Value, args []Value) Value {
		iv, ok := recv.(*IfaceV)
		if !ok {
			panic(unsupported("ctx.Err on %T", recv))
		}
		r := App("ctx.Err", SInt, iv.Id)
		ec.noteFailure(Not(Eq(r, Int(0))))
		return r
	}
	stdModels["html.EscapeString"] = func(ec *evalCtx, call *ast.CallExpr, recv Value, args []Value) Value {
		return htmlEscapeModel(ec, scalar(args[0]))
	}
	specModels["html.EscapeString"] = func(ec *evalCtx, a []Value) Value { return htmlEscapeModel(ec, scalar(a[0])) }
	stdModels["html.UnescapeString"] = func(ec *evalCtx, call *ast.CallExpr, recv Value, args []Value) Value {
		return App("html.UnescapeString", SStr, scalar(args[0]))
	}
	specModels["strings.ReplaceAll"] = func(ec *evalCtx, a []Value) Value {
		return App("strings.ReplaceAll", SStr, scalar(a[0]), scalar(a[1]), scalar(a[2]))
	}
	specModels["html.UnescapeString"] = func(ec *evalCtx, a []Value) Value { return App("html.UnescapeString", SStr, scalar(a[0])) }
	stdModels["errors.Join"] = func(ec *evalCtx, call *ast.CallExpr, recv Value, args []Value) Value {
		// nil iff every argument is nil; deterministic in its argument for literal lists
		if s, ok := args[0].(*SliceV); ok && s.Len.IsInt() {
			n := int(s.Len.Int.Int64())
			var all []*Term
			var leaves []*Term
			for i := 0; i < n; i++ {
				e := scalar(s.At(Int(int64(i))))
				all = append(all, Eq(e, Int(0)))
				leaves = append(leaves, e)
			}
			r := App(fmt.Sprintf("errors.Join%d", n), SInt, leaves...)
			ec.st.Assume(Eq(Eq(r, Int(0)), And(all...)))
			ec.noteFailure(Not(Eq(r, Int(0))))
			return r
		}
		key := "errors.Join:" + strconv.Itoa(int(call.Args[0].Pos()))
		if s, ok := args[0].(*SliceV); ok && s.Name != "" {
			key = "errors.Join:" + s.Name // the same slice joins to equi-nil results
		}
		if v, ok := ec.st.ghost[key]; ok {
			return v
		}
		r := Var(ec.e().fresher.name("errors.Join"), SInt)
		ec.st.ghost[key] = r
		ec.noteFailure(Not(Eq(r, Int(0))))
		return r
	}
}

func unpackVariadicRaw(ec *evalCtx, v Value) []Value {
	if vs := unpackVariadic(v); vs != nil {
		// interface-boxed arguments: unbox scalars
		out := make([]Value, len(vs))
		for i, x := range vs {
			if iv, ok := x.(*IfaceV); ok && len(iv.Payloads) == 1 {
				for _, p := range iv.Payloads {
					out[i] = p
				}
				continue
			}
			out[i] = x
		}
		return out
	}
	return nil
}

// jsonMarshalModel: json.Marshal(v) = (data, err) with err == nil ==> data in JSON_HTMLSAFE.
func jsonMarshalModel(ec *evalCtx, v Value) (*Term, *Term) {
	return jsonMarshalModelEsc(ec, v, True)
}

// escapeHTML: the Encoder's SetEscapeHTML flag (true for json.Marshal); with it off nothing is known about '<', '>', '&'.
func jsonMarshalModelEsc(ec *evalCtx, v Value, escapeHTML *Term) (*Term, *Term) {
	var key *Term
	switch x := v.(type) {
	case *IfaceV:
		key = x.Id
	case *Term:
		key = x
	default:
		key = Var(ec.e().fresher.name("json.arg"), SInt)
	}
	var data, err *Term
	if key.Sort == SStr {
		data, err = App("json.Marshal.s", SStr, key), App("json.Marshal.serr", SInt, key)
	} else {
		data, err = App("json.Marshal", SStr, key), App("json.Marshal.err", SInt, key)
	}
	if !escapeHTML.IsTrue() {
		// a different encoding of the same value
		data = App("json.rawhtml", SStr, data, escapeHTML)
	}
	ec.st.Assume(Implies(And(Eq(err, Int(0)), escapeHTML), ec.e().inL(data, "JSON_HTMLSAFE")))
	// on an error the data returned is nil, which is in the language as well
	ec.st.Assume(Implies(Not(Eq(err, Int(0))), Eq(data, Str(""))))
	ec.st.Assume(Implies(escapeHTML, ec.e().inL(data, "JSON_HTMLSAFE")))
	ec.noteFailure(Not(Eq(err, Int(0))))
	ec.e().trusted["std:encoding/json.Marshal (output in JSON_HTMLSAFE: no '<', '>', '&')"] = true
	return data, err
}

// trimSpaceModel: r = TrimSpace(s) with s == a ++ r ++ b, a and b consisting of
// Go white space, r neither starting nor ending with ASCII white space.
func trimSpaceModel(ec *evalCtx, s *Term) *Term {
	if s.IsStr() {
		return Str(strings.TrimSpace(s.Str))
	}
	r := App("strings.TrimSpace", SStr, s)
	a := App("trim.left", SStr, s)
	b := App("trim.right", SStr, s)
	ws := ec.e().langs.GoSpaceStar()
	ec.st.Assume(Eq(s, Concat(a, r, b)))
	ec.st.Assume(And(ec.e().inL(a, ws), ec.e().inL(b, ws)))
	ec.st.Assume(Le(StrLen(r), StrLen(s)))
	ec.e().trusted["std:strings.TrimSpace (s == a ++ result ++ b with a, b made of Unicode white space)"] = true
	return r
}

// htmlEscapeModel: html.EscapeString(s) is in HTML_ESCAPED and decodes back to s.
func htmlEscapeModel(ec *evalCtx, s *Term) *Term {
	if s.IsStr() {
		return Str(htmlEscapeConst(s.Str))
	}
	r := App("html.EscapeString", SStr, s)
	if ec.e().langUsed["NO_0a_STAR"] {
		// escaping replaces five ASCII characters by character references: it neither adds nor removes line feeds
		ec.st.Assume(Eq(ec.e().inL(s, "NO_0a_STAR"), ec.e().inL(r, "NO_0a_STAR")))
	}
	ec.st.Assume(ec.e().inL(r, "HTML_ESCAPED"))
	ec.st.Assume(Eq(App("html.UnescapeString", SStr, r), s))
	ec.e().trusted["std:html.EscapeString (result in HTML_ESCAPED; UnescapeString inverts it)"] = true
	return r
}

func htmlEscapeConst(s string) string {
	return strings.NewReplacer(`&`, "&amp;", `'`, "&#39;", `<`, "&lt;", `>`, "&gt;", `"`, "&#34;").Replace(s)
}

var _ = token.NoPos

// canonHeaderKey: constant keys are canonicalised as net/http does; other keys go through an uninterpreted canon().
func canonHeaderKey(k *Term) *Term {
	if k.IsStr() {
		return Str(textproto.CanonicalMIMEHeaderKey(k.Str))
	}
	return App("http.canonicalKey", SStr, k)
}

// headerLval: ghost contents of a header map, keyed by the identity of the map.
func (ec *evalCtx) headerLval(mv *MapV) lval {
	key := "hdr:" + mv.Ref.Key()
	return lval{
		get: func() Value {
			if v, ok := ec.st.ghost[key]; ok {
				return v
			}
			v := Var(fmt.Sprintf("hdr%d:%s", ghostEpoch(ec.st), mv.Ref.Key()), SArr(SStr, SStr))
			ec.st.ghost[key] = v
			return v
		},
		set: func(v Value) { ec.st.ghost[key] = v },
	}
}
