package main

import (
	"flag"
	"fmt"
	"go/ast"
	"os"
	"path/filepath"
	"sort"
	"strings"
	"time"
)

// govc sweep -pkgs ./parser/v2[,./x] : development aid. Every function of the packages is taken with an empty
// contract (pointer receivers and pointer parameters non-nil, "modifies *") and the safety obligations of the
// executor (index / slice bounds, nil dereference, division, type assertion, nil map write) are generated and
// discharged. Output: per function, rejected (outside the subset) / safe / the obligations that fail. Functions that
// come out safe are candidates for a thin registered contract; failing obligations are candidates for preconditions
// or genuine defects. Nothing here is registered as a check.
func cmdSweep(args []string) int {
	fs := flag.NewFlagSet("sweep", flag.ExitOnError)
	pkgs := fs.String("pkgs", "", "comma separated package patterns relative to the repository")
	repo := fs.String("repo", envOr("VERIF_REPO", "/repo"), "repository root")
	only := fs.String("only", "", "substring filter on function keys")
	fs.Parse(args)
	absRepo, _ := filepath.Abs(*repo)
	e := NewEngine(absRepo)
	e.prop = "SWEEP"
	if err := e.Load(strings.Split(*pkgs, ",")...); err != nil {
		fmt.Println("load:", err)
		return 2
	}
	e.ProcessLangDirectives()
	var keys []string
	for path, pkg := range e.pkgs {
		if !strings.HasPrefix(path, modulePath) {
			continue
		}
		match := false
		for _, p := range strings.Split(*pkgs, ",") {
			if strings.HasSuffix(path, strings.TrimPrefix(p, ".")) || (p == "." && path == modulePath) {
				match = true
			}
		}
		if !match {
			continue
		}
		for _, file := range pkg.Syntax {
			fn := pkg.Fset.Position(file.Pos()).Filename
			if strings.HasSuffix(fn, "_test.go") || strings.HasSuffix(fn, "verif_contracts.go") {
				continue
			}
			for _, d := range file.Decls {
				fd, ok := d.(*ast.FuncDecl)
				if !ok || fd.Body == nil {
					continue
				}
				recv := ""
				var req []string
				if fd.Recv != nil && len(fd.Recv.List) == 1 {
					t := fd.Recv.List[0].Type
					if st, ok := t.(*ast.StarExpr); ok {
						t = st.X
						if len(fd.Recv.List[0].Names) == 1 && fd.Recv.List[0].Names[0].Name != "_" {
							req = append(req, fd.Recv.List[0].Names[0].Name+" != nil")
						}
					}
					switch x := t.(type) {
					case *ast.Ident:
						recv = x.Name
					case *ast.IndexExpr:
						if id, ok := x.X.(*ast.Ident); ok {
							recv = id.Name
						}
					}
				}
				var ens []string
				for _, p := range fd.Type.Params.List {
					if st, isPtr := p.Type.(*ast.StarExpr); isPtr {
						for _, n := range p.Names {
							if n.Name == "_" {
								continue
							}
							if exprString(st.X) == "parse.Input" && e.cs.Specs["inputOK"] != nil {
								req = append(req, "inputOK("+n.Name+")")
								ens = append(ens, "inputOK("+n.Name+") && "+n.Name+".s == old("+n.Name+".s) && old("+n.Name+".charIndex) <= "+n.Name+".charIndex")
							} else {
								req = append(req, n.Name+" != nil")
							}
						}
					}
				}
				c := &Contract{Pkg: path, Recv: recv, Name: fd.Name.Name, Props: []string{"SWEEP"}, Loops: map[int]*LoopSpec{}, ModAll: true}
				if *only != "" && !strings.Contains(c.Key(), *only) {
					continue
				}
				if _, exists := e.cs.Contracts[c.Key()]; exists {
					continue // has a real contract
				}
				for _, r := range req {
					ex, err := parseSpecExpr(r)
					if err == nil {
						c.Requires = append(c.Requires, &Clause{Expr: ex, Text: r})
					}
				}
				for _, r := range ens {
					ex, err := parseSpecExpr(r)
					if err == nil {
						c.Ensures = append(c.Ensures, &Clause{Expr: ex, Text: r})
						ex2, _ := parseSpecExpr(r)
						if c.Loops[0] == nil {
							c.Loops[0] = &LoopSpec{}
						}
						c.Loops[0].Invariants = append(c.Loops[0].Invariants, &Clause{Expr: ex2, Text: r})
					}
				}
				e.cs.Contracts[c.Key()] = c
				keys = append(keys, c.Key())
			}
		}
	}
	sort.Strings(keys)
	t0 := time.Now()
	for _, k := range keys {
		e.VerifyFunc(e.cs.Contracts[k])
	}
	wd, _ := os.MkdirTemp("", "govc-sweep-")
	defer os.RemoveAll(wd)
	e.Discharge(quickTier, filepath.Join(wd, "smt"))
	type res struct {
		total, ok int
		fails     []string
	}
	per := map[string]*res{}
	for _, o := range e.obls {
		if o.Cover {
			continue
		}
		r := per[o.Func]
		if r == nil {
			r = &res{}
			per[o.Func] = r
		}
		r.total++
		if o.Verdict == "unsat" {
			r.ok++
		} else {
			r.fails = append(r.fails, fmt.Sprintf("%s [%s] %s %s", o.Name, o.Verdict, o.Pos, firstLines(o.Note, 1)))
		}
	}
	safe, rejected, failing := 0, 0, 0
	var names []string
	for _, k := range keys {
		names = append(names, shortName(e.cs.Contracts[k]))
	}
	for _, n := range names {
		if why, bad := e.rejected[n]; bad {
			rejected++
			fmt.Printf("REJECTED %-60s %s\n", n, firstLines(why, 1))
			continue
		}
		r := per[n]
		if r == nil {
			safe++
			fmt.Printf("SAFE     %-60s (no safety obligations)\n", n)
			continue
		}
		if len(r.fails) == 0 {
			safe++
			fmt.Printf("SAFE     %-60s %d obligations\n", n, r.total)
			continue
		}
		failing++
		fmt.Printf("FAILS    %-60s %d of %d\n", n, len(r.fails), r.total)
		for _, f := range r.fails {
			fmt.Printf("           %s\n", f)
		}
	}
	fmt.Printf("sweep: %d functions, %d safe, %d with failing obligations, %d outside the subset, %.1fs\n", len(names), safe, failing, rejected, time.Since(t0).Seconds())
	return 0
}
