package main

// String abstraction of an SMT-LIB query: the sort String becomes an
// uninterpreted sort and every string operation an uninterpreted function.
// Validity under all interpretations implies validity under the intended one,
// so "unsat" of the abstracted query is a proof; any other answer means
// nothing. Used for obligations whose argument is about arrays, integers and
// quantifiers while strings only occur as opaque values (the sequence solver
// slows quantifier instantiation down by orders of magnitude).

import (
	"fmt"
	"sort"
	"strings"
)

type sx struct {
	atom string
	list []*sx
	isL  bool
}

func parseSx(src string) ([]*sx, bool) {
	var stack [][]*sx
	cur := []*sx{}
	i := 0
	for i < len(src) {
		c := src[i]
		switch {
		case c == ' ' || c == '\n' || c == '\t' || c == '\r':
			i++
		case c == ';':
			for i < len(src) && src[i] != '\n' {
				i++
			}
		case c == '(':
			stack = append(stack, cur)
			cur = []*sx{}
			i++
		case c == ')':
			if len(stack) == 0 {
				return nil, false
			}
			l := &sx{list: cur, isL: true}
			cur = append(stack[len(stack)-1], l)
			stack = stack[:len(stack)-1]
			i++
		case c == '"':
			j := i + 1
			for j < len(src) {
				if src[j] == '"' {
					if j+1 < len(src) && src[j+1] == '"' {
						j += 2
						continue
					}
					break
				}
				j++
			}
			if j >= len(src) {
				return nil, false
			}
			cur = append(cur, &sx{atom: src[i : j+1]})
			i = j + 1
		case c == '|':
			j := strings.IndexByte(src[i+1:], '|')
			if j < 0 {
				return nil, false
			}
			cur = append(cur, &sx{atom: src[i : i+j+2]})
			i += j + 2
		default:
			j := i
			for j < len(src) && !strings.ContainsRune(" \n\t\r()", rune(src[j])) {
				j++
			}
			cur = append(cur, &sx{atom: src[i:j]})
			i = j
		}
	}
	if len(stack) != 0 {
		return nil, false
	}
	return cur, true
}

func (s *sx) String() string {
	if !s.isL {
		return s.atom
	}
	parts := make([]string, len(s.list))
	for i, c := range s.list {
		parts[i] = c.String()
	}
	return "(" + strings.Join(parts, " ") + ")"
}

var strOpsAbs = map[string]string{
	"str.len": "Int", "str.++": "StrU", "str.substr": "StrU", "str.at": "StrU", "str.prefixof": "Bool", "str.suffixof": "Bool",
	"str.contains": "Bool", "str.to_code": "Int", "str.from_code": "StrU", "str.from_int": "StrU", "str.to_int": "Int",
	"str.indexof": "Int", "str.replace": "StrU", "str.replace_all": "StrU", "str.<": "Bool", "str.<=": "Bool", "str.is_digit": "Bool",
}

// AbstractStringsQuery returns the abstracted query, or ok=false when the query uses regular expressions
// (membership constraints are not abstracted) or does not mention strings at all.
func AbstractStringsQuery(q string) (string, bool) {
	if strings.Contains(q, "str.in_re") || strings.Contains(q, "re.") || !(strings.Contains(q, "String") || strings.Contains(q, "str.")) {
		return "", false
	}
	forms, ok := parseSx(q)
	if !ok {
		return "", false
	}
	lits := map[string]string{}
	used := map[string]int{} // abstract function name -> arity
	usedRes := map[string]string{}
	var walk func(s *sx)
	walk = func(s *sx) {
		if !s.isL {
			switch {
			case s.atom == "String":
				s.atom = "StrU"
			case strings.HasPrefix(s.atom, "\""):
				n, ok := lits[s.atom]
				if !ok {
					n = fmt.Sprintf("strlit!%d", len(lits))
					lits[s.atom] = n
				}
				s.atom = n
			}
			return
		}
		if len(s.list) > 0 && !s.list[0].isL {
			if res, ok := strOpsAbs[s.list[0].atom]; ok {
				name := fmt.Sprintf("u!%s!%d", strings.NewReplacer(".", "_", "+", "cat", "<", "lt", "=", "eq").Replace(s.list[0].atom), len(s.list)-1)
				used[name] = len(s.list) - 1
				usedRes[name] = res
				s.list[0].atom = name
			}
		}
		for _, c := range s.list {
			walk(c)
		}
	}
	for _, f := range forms {
		walk(f)
	}
	// argument sorts of the abstract functions: strings except the integer positions of the known operations
	argSorts := func(name string, n int) []string {
		out := make([]string, n)
		for i := range out {
			out[i] = "StrU"
		}
		switch {
		case strings.HasPrefix(name, "u!str_substr"):
			out[1], out[2] = "Int", "Int"
		case strings.HasPrefix(name, "u!str_at"):
			out[1] = "Int"
		case strings.HasPrefix(name, "u!str_from_code"), strings.HasPrefix(name, "u!str_from_int"):
			out[0] = "Int"
		case strings.HasPrefix(name, "u!str_indexof"):
			out[2] = "Int"
		}
		return out
	}
	var sb strings.Builder
	placed := false
	emitDecls := func() {
		sb.WriteString("(declare-sort StrU 0)\n")
		var ln []string
		for _, n := range lits {
			ln = append(ln, n)
		}
		sort.Strings(ln)
		for _, n := range ln {
			fmt.Fprintf(&sb, "(declare-fun %s () StrU)\n", n)
		}
		var un []string
		for n := range used {
			un = append(un, n)
		}
		sort.Strings(un)
		for _, n := range un {
			fmt.Fprintf(&sb, "(declare-fun %s (%s) %s)\n", n, strings.Join(argSorts(n, used[n]), " "), usedRes[n])
			if strings.HasPrefix(n, "u!str_len") {
				fmt.Fprintf(&sb, "(assert (forall ((x StrU)) (! (>= (%s x) 0) :pattern ((%s x)))))\n", n, n)
			}
		}
	}
	for _, f := range forms {
		if !placed && f.isL && len(f.list) > 0 && (f.list[0].atom == "declare-fun" || f.list[0].atom == "assert" || f.list[0].atom == "declare-const") {
			emitDecls()
			placed = true
		}
		sb.WriteString(f.String())
		sb.WriteByte('\n')
	}
	return sb.String(), true
}
