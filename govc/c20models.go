package main

// Library models for the live-reload proxy (C20): reading a body to the end,
// no-op closers, and compressing readers / writers as opaque transformers that
// are tied to the stream they wrap (what they consume / produce is an
// uninterpreted function of the data; the wrapping itself is tracked).

import (
	"fmt"
	"go/ast"
	"go/types"
	"os"
)

func init() {
	// io.ReadAll(r): on success everything unread is returned and consumed; on failure a prefix.
	stdModels["io.ReadAll"] = func(ec *evalCtx, call *ast.CallExpr, recv Value, args []Value) Value {
		src := args[0]
		if os.Getenv("GOVC_DEBUG") != "" {
			if iv, ok := src.(*IfaceV); ok {
				fmt.Fprintf(os.Stderr, "ReadAll src iface id=%s tag=%s payloads=%d\n", iv.Id.Key(), iv.Tag.Key(), len(iv.Payloads))
			} else {
				fmt.Fprintf(os.Stderr, "ReadAll src %T\n", src)
			}
		}
		err := Var(ec.e().fresher.name("ReadAll.err"), SInt)
		ec.noteFailure(Not(Eq(err, Int(0))))
		ec.e().trusted["std:io.ReadAll (nil error: the whole unread input is returned and consumed)"] = true
		// case split on what the reader is: a decompressing reader consumes its source and yields decode(source);
		// any other reader yields its own unread input
		type alt struct {
			cond *Term
			tgt  Value
			kind string
		}
		var alts []alt
		var conds []*Term
		switch x := src.(type) {
		case *PtrV:
			if t, k, ok := ec.zwrapped(x, "$zr"); ok {
				alts = append(alts, alt{True, t, k})
				conds = append(conds, True)
			}
		case *IfaceV:
			for name, p := range x.Payloads {
				if t, k, ok := ec.zwrapped(p, "$zr"); ok {
					c := Eq(x.Tag, Int(ec.e().typeTag(name)))
					alts = append(alts, alt{c, t, k})
					conds = append(conds, c)
				}
			}
		}
		// a length-limited reader: what is read is some prefix of what the wrapped reader would give; how much of the
		// wrapped stream is consumed is not known
		limited := func(v Value) (Value, bool) {
			if p, ok := v.(*PtrV); ok && p.Obj >= 0 {
				if sv, ok := ec.st.heap[p.Obj].(*StructV); ok && sv.F["$lim"] != nil {
					return sv.F["$lim"], true
				}
			}
			return nil, false
		}
		var limSrc Value
		switch x := src.(type) {
		case *PtrV:
			limSrc, _ = limited(x)
		case *IfaceV:
			for _, p := range x.Payloads {
				if w, ok := limited(p); ok && x.Tag.IsInt() {
					limSrc = w
				}
			}
		}
		if limSrc != nil {
			ec.havocStreamsUnder(limSrc)
			return &TupleV{Vs: []Value{Var(ec.e().fresher.name("ReadAll.limited"), SStr), err}}
		}
		okT := Eq(err, Int(0))
		plain := Not(Or(conds...))
		lv := ec.inLval(src)
		rest := scalar(lv.get())
		k := Var(ec.e().fresher.name("ReadAll.n"), SInt)
		ec.st.Assume(And(Le(Int(0), k), Le(k, StrLen(rest))))
		result := Ite(okT, rest, Substr(rest, Int(0), k))
		if !plain.IsFalse() {
			lv.set(Ite(plain, Ite(okT, Str(""), Substr(rest, k, StrLen(rest))), rest))
		}
		for _, a := range alts {
			alv := ec.inLval(a.tgt)
			enc := scalar(alv.get())
			alv.set(Ite(a.cond, Ite(okT, Str(""), Var(ec.e().fresher.name("ReadAll.rest"), SStr)), enc))
			result = Ite(a.cond, Ite(okT, App("decode:"+a.kind, SStr, enc), Var(ec.e().fresher.name("ReadAll.partial"), SStr)), result)
		}
		return &TupleV{Vs: []Value{result, err}}
	}
	// (*os.File).Close: its error is not counted as a failed callee (the files on these paths are only read; a failed
	// close of a read-only descriptor loses nothing)
	stdModels["(*os.File).Close"] = func(ec *evalCtx, call *ast.CallExpr, recv Value, args []Value) Value {
		ec.e().trusted["std:(*os.File).Close error not counted as a failure (read-only files)"] = true
		return Var(ec.e().fresher.name("File.Close.err"), SInt)
	}
	// Close of a reader / writer held through an interface: reports an error, reads and writes nothing
	for _, n := range []string{"(io.Closer).Close", "(io.ReadCloser).Close", "(io.WriteCloser).Close"} {
		n := n
		stdModels[n] = func(ec *evalCtx, call *ast.CallExpr, recv Value, args []Value) Value {
			ec.e().trusted["std:"+n+" (reads and writes nothing; its error is a result like any other)"] = true
			err := Var(ec.e().fresher.name("Close.err"), SInt)
			ec.noteFailure(Not(Eq(err, Int(0))))
			return err
		}
	}
	// io.LimitReader(r, n): a reader that yields at most n bytes of r
	stdModels["io.LimitReader"] = func(ec *evalCtx, call *ast.CallExpr, recv Value, args []Value) Value {
		obj := ec.e().allocObj(ec.st, &StructV{Names: []string{"$lim", "$n"}, F: map[string]Value{"$lim": args[0], "$n": args[1]}})
		p := &PtrV{Nil: False, Obj: obj}
		return ec.convertTo(p, types.NewPointer(ec.limitedReaderType()), ec.info.TypeOf(call))
	}
	// io.NopCloser(r): the same reader (Close does nothing)
	stdModels["io.NopCloser"] = func(ec *evalCtx, call *ast.CallExpr, recv Value, args []Value) Value {
		return ec.convertTo(args[0], ec.info.TypeOf(call.Args[0]), ec.info.TypeOf(call))
	}
	zreader := func(kind string, withErr bool) stdModel {
		return func(ec *evalCtx, call *ast.CallExpr, recv Value, args []Value) Value {
			obj := ec.e().allocObj(ec.st, &StructV{Names: []string{"$zr", "$kind"}, F: map[string]Value{"$zr": args[0], "$kind": Str(kind)}})
			p := &PtrV{Nil: False, Obj: obj}
			ec.e().trusted["compressing readers / writers ("+kind+"): what they consume and produce is an uninterpreted function of the data; decode(encode(x)) == x is not used"] = true
			if !withErr {
				return p
			}
			err := Var(ec.e().fresher.name(kind+".NewReader.err"), SInt)
			ec.noteFailure(Not(Eq(err, Int(0))))
			return &TupleV{Vs: []Value{p, err}}
		}
	}
	zwriter := func(kind string) stdModel {
		return func(ec *evalCtx, call *ast.CallExpr, recv Value, args []Value) Value {
			obj := ec.e().allocObj(ec.st, &StructV{Names: []string{"$zw", "$kind"}, F: map[string]Value{"$zw": args[0], "$kind": Str(kind)}})
			ec.e().trusted["compressing readers / writers ("+kind+"): what they consume and produce is an uninterpreted function of the data; decode(encode(x)) == x is not used"] = true
			return &PtrV{Nil: False, Obj: obj}
		}
	}
	// a write to / close of a compressing writer appends some bytes (unknown which) to the wrapped writer
	zwrite := func(isClose bool) stdModel {
		return func(ec *evalCtx, call *ast.CallExpr, recv Value, args []Value) Value {
			tgt, _, ok := ec.zwrapped(recv, "$zw")
			if !ok {
				panic(unsupported("compressing writer that was not created by NewWriter in this function"))
			}
			lv := ec.outLval(tgt)
			more := Var(ec.e().fresher.name("z.emitted"), SStr)
			lv.set(Concat(scalar(lv.get()), more))
			err := Var(ec.e().fresher.name("z.err"), SInt)
			ec.noteFailure(Not(Eq(err, Int(0))))
			if isClose {
				return err
			}
			return &TupleV{Vs: []Value{StrLen(scalar(args[0])), err}}
		}
	}
	stdModels["compress/gzip.NewReader"] = zreader("gzip", true)
	stdModels["github.com/andybalholm/brotli.NewReader"] = zreader("br", false)
	stdModels["compress/gzip.NewWriter"] = zwriter("gzip")
	stdModels["github.com/andybalholm/brotli.NewWriter"] = zwriter("br")
	stdModels["(*compress/gzip.Writer).Write"] = zwrite(false)
	stdModels["(*compress/gzip.Writer).Close"] = zwrite(true)
	stdModels["(*github.com/andybalholm/brotli.Writer).Write"] = zwrite(false)
	stdModels["(*github.com/andybalholm/brotli.Writer).Close"] = zwrite(true)
}

// zwrapped: v is (an interface holding) a compressing reader / writer object; returns the stream it wraps.
func (ec *evalCtx) zwrapped(v Value, field string) (Value, string, bool) {
	switch x := v.(type) {
	case *PtrV:
		if x.Obj >= 0 {
			if sv, ok := ec.st.heap[x.Obj].(*StructV); ok && sv.F[field] != nil {
				k := "z"
				if kt, ok := sv.F["$kind"].(*Term); ok && kt.IsStr() {
					k = kt.Str
				}
				return sv.F[field], k, true
			}
		}
	case *IfaceV:
		for _, p := range x.Payloads {
			if t, k, ok := ec.zwrapped(p, field); ok {
				return t, k, true
			}
		}
	}
	return nil, "", false
}

// havocStreamsUnder: the unread input of v - and of the stream a decompressing reader v wraps - becomes unknown.
func (ec *evalCtx) havocStreamsUnder(v Value) {
	ec.inLval(v).set(Var(ec.e().fresher.name("in.unknown"), SStr))
	switch x := v.(type) {
	case *PtrV:
		if t, _, ok := ec.zwrapped(x, "$zr"); ok {
			ec.havocStreamsUnder(t)
		}
	case *IfaceV:
		for _, p := range x.Payloads {
			if t, _, ok := ec.zwrapped(p, "$zr"); ok {
				ec.inLval(t).set(Ite(Eq(x.Tag, Int(ec.e().typeTag(payloadTypeName(x, p)))), Var(ec.e().fresher.name("in.unknown"), SStr), scalar(ec.inLval(t).get())))
			}
		}
		if c, a, b, ok := splitIface(x); ok {
			_ = c
			ec.havocStreamsUnder(a)
			ec.havocStreamsUnder(b)
		}
	}
}

func payloadTypeName(x *IfaceV, p Value) string {
	for name, q := range x.Payloads {
		if q == p {
			return name
		}
	}
	return ""
}

func (ec *evalCtx) limitedReaderType() types.Type {
	if pkg := ec.e().pkgs["io"]; pkg != nil && pkg.Types != nil {
		if o := pkg.Types.Scope().Lookup("LimitedReader"); o != nil {
			return o.Type()
		}
	}
	return types.NewNamed(types.NewTypeName(0, nil, "LimitedReader", nil), types.NewStruct(nil, nil), nil)
}
