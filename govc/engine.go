package main

import (
	"fmt"
	"go/ast"
	"go/token"
	"go/types"
	"os"
	"path/filepath"
	"sort"
	"strings"

	"golang.org/x/tools/go/packages"
)

type Obligation struct {
	Name      string
	Kind      string // requires ensures invariant bounds nil frame lemma cover assert ...
	Func      string
	Hyps      []*Term
	Goal      *Term // nil for cover queries (expect sat)
	Pos       string
	Note      string
	Verdict   string // unsat sat unknown timeout trivial error
	Solver    string
	Secs      float64
	Output    string
	Cover     bool
	AbsPrefix bool // discharge with the prefix order abstracted (generated code)
	// language lemma (decided by the reglang back end)
	LangLeft, LangRight *Re
	Witness             string
	HasWitness          bool
}

type Engine struct {
	curDirect      bool     // the function being verified carries the run's own property tag (not only the borrowed one)
	alsoProp       string   // contracts and clauses of this property are part of the run as well (C14 runs over the C10 contracts)
	noInv          []string // parameters of the function being verified that are exempt from type invariants
	catClosedMemo  map[string]bool
	repo           string
	fset           *token.FileSet
	pkgs           map[string]*packages.Package
	cs             *ContractSet
	fresher        Fresher
	nextObj        int
	obls           []*Obligation
	funcDecls      map[string]*ast.FuncDecl
	funcPkg        map[string]*packages.Package
	langs          *LangEnv
	trusted        map[string]bool
	havocked       map[string]bool
	havockedImpure map[string]bool   // callees without contract or model that are not taken to be pure
	rejected       map[string]string // function -> reason
	verified       []string
	notes          []string
	globalsRO      map[types.Object]bool
	typeTags       map[string]int64
	usedLemmas     map[string]bool
	usedContracts  map[string]bool
	langUsed       map[string]bool
	globalInit     map[types.Object]ast.Expr
	cvObj          int
	effCache       map[string]*Contract
	prop           string // property being checked (clauses tagged {Cxx} apply only to it)
	genInfo        map[string]*genInfo
}

func NewEngine(repo string) *Engine {
	e := &Engine{repo: repo, pkgs: map[string]*packages.Package{}, cs: NewContractSet(),
		funcDecls: map[string]*ast.FuncDecl{}, funcPkg: map[string]*packages.Package{},
		trusted: map[string]bool{}, havocked: map[string]bool{}, havockedImpure: map[string]bool{}, rejected: map[string]string{},
		globalsRO: map[types.Object]bool{}, usedLemmas: map[string]bool{}, usedContracts: map[string]bool{}, langUsed: map[string]bool{},
		langs: NewLangEnv(), genInfo: map[string]*genInfo{}, effCache: map[string]*Contract{}}
	e.langs.Resolve = e.resolveLang
	return e
}

func unusedEngineCtor() *Engine {
	return nil
}

const modulePath = "github.com/a-h/templ"

// resolveLang: RE_<var> = the language of the regexp literal assigned to the
// package-level variable <var> in one of the loaded packages.
func (e *Engine) resolveLang(name string) (*Re, string, bool) {
	if !strings.HasPrefix(name, "RE_") {
		return nil, "", false
	}
	vn := strings.TrimPrefix(name, "RE_")
	var paths []string
	for p := range e.pkgs {
		paths = append(paths, p)
	}
	sort.Strings(paths)
	for _, p := range paths {
		obj, ok := e.pkgs[p].Types.Scope().Lookup(vn).(*types.Var)
		if !ok {
			continue
		}
		pat, ok := e.regexpLiteral(obj)
		if !ok {
			continue
		}
		re, err := FromGoRegexp(pat)
		if err != nil {
			continue
		}
		return re, "(code) Go regexp " + strconvQuote(pat), true
	}
	return nil, "", false
}

func (e *Engine) Load(patterns ...string) error {
	cfg := &packages.Config{
		Mode: packages.NeedName | packages.NeedSyntax | packages.NeedTypes | packages.NeedTypesInfo |
			packages.NeedFiles | packages.NeedImports | packages.NeedDeps | packages.NeedCompiledGoFiles,
		Dir:        e.repo,
		BuildFlags: []string{"-tags=verif"},
		Env:        append(os.Environ(), "GOFLAGS=-mod=mod", "GOPROXY=off", "GOSUMDB=off", "GOTOOLCHAIN=local"),
	}
	pkgs, err := packages.Load(cfg, patterns...)
	if err != nil {
		return err
	}
	for _, p := range pkgs {
		if len(p.Errors) > 0 {
			return fmt.Errorf("package %s: %v", p.PkgPath, p.Errors[0])
		}
		e.addPkg(p)
	}
	return nil
}

func (e *Engine) addPkg(p *packages.Package) {
	if _, ok := e.pkgs[p.PkgPath]; ok {
		return
	}
	e.pkgs[p.PkgPath] = p
	e.fset = p.Fset
	dirs := map[string]bool{}
	for _, f := range p.GoFiles {
		dirs[filepath.Dir(f)] = true
	}
	for d := range dirs {
		e.cs.LoadDir(d, p.PkgPath)
	}
	for _, f := range p.Syntax {
		for _, d := range f.Decls {
			fd, ok := d.(*ast.FuncDecl)
			if !ok {
				continue
			}
			recv := ""
			if fd.Recv != nil && len(fd.Recv.List) > 0 {
				recv = recvTypeName(fd.Recv.List[0].Type)
			}
			k := contractKey(p.PkgPath, recv, fd.Name.Name)
			e.funcDecls[k] = fd
			e.funcPkg[k] = p
		}
	}
}

func recvTypeName(t ast.Expr) string {
	switch x := t.(type) {
	case *ast.StarExpr:
		return recvTypeName(x.X)
	case *ast.Ident:
		return x.Name
	case *ast.IndexExpr:
		return recvTypeName(x.X)
	case *ast.IndexListExpr:
		return recvTypeName(x.X)
	case *ast.ParenExpr:
		return recvTypeName(x.X)
	}
	return ""
}

func shortPkg(path string) string {
	if i := strings.LastIndex(path, "/"); i >= 0 {
		return path[i+1:]
	}
	return path
}

func shortName(c *Contract) string {
	p := shortPkg(c.Pkg)
	if c.Pkg == modulePath {
		p = "templ"
	}
	v := ""
	if c.Variant != "" {
		v = "/" + c.Variant
	}
	if c.Recv != "" {
		return p + "." + c.Recv + "." + c.Name + v
	}
	return p + "." + c.Name + v
}

func (e *Engine) posStr(p token.Pos) string {
	if !p.IsValid() {
		return ""
	}
	ps := e.fset.Position(p)
	rel, err := filepath.Rel(e.repo, ps.Filename)
	if err != nil {
		rel = ps.Filename
	}
	return fmt.Sprintf("%s:%d", rel, ps.Line)
}

// ContractsFor returns the contracts tagged with property id (sorted).
// InstantiateTemplates gives every method of a receiver type with a `methods (*T)` block, and without a contract
// of its own, a copy of that block as its contract.
func (e *Engine) InstantiateTemplates() {
	for key, t := range e.cs.Templates {
		pkg := e.pkgs[t.Pkg]
		if pkg == nil || pkg.Types == nil {
			continue
		}
		obj := pkg.Types.Scope().Lookup(t.Recv)
		if obj == nil {
			e.cs.Errors = append(e.cs.Errors, "methods block for unknown type "+key)
			continue
		}
		named, ok := obj.Type().(*types.Named)
		if !ok {
			continue
		}
		for i := 0; i < named.NumMethods(); i++ {
			m := named.Method(i)
			k := contractKey(t.Pkg, t.Recv, m.Name())
			if own, has := e.cs.Contracts[k]; has {
				if own.UseTemplate && !own.FromTemplate {
					// the block's clauses first, then the function's own
					own.Requires = append(append([]*Clause{}, t.Requires...), own.Requires...)
					own.Ensures = append(append([]*Clause{}, t.Ensures...), own.Ensures...)
					own.Running = append(append([]*Clause{}, t.Running...), own.Running...)
					own.Modifies = append(append([]ast.Expr{}, t.Modifies...), own.Modifies...)
					own.ModText = append(append([]string{}, t.ModText...), own.ModText...)
					own.ModAll = own.ModAll || t.ModAll
					for n, ls := range t.Loops {
						if own.Loops[n] == nil {
							own.Loops[n] = ls
						}
					}
					own.FromTemplate = true
				}
				continue
			}
			c := *t
			c.Name = m.Name()
			c.Template = false
			c.FromTemplate = true
			e.cs.Contracts[k] = &c
		}
	}
}

func (e *Engine) ContractsFor(prop string) []*Contract {
	var out []*Contract
	for _, c := range e.cs.Contracts {
		for _, p := range c.Props {
			if p == prop || (e.alsoProp != "" && p == e.alsoProp) {
				out = append(out, c)
				break
			}
		}
	}
	sort.Slice(out, func(i, j int) bool { return out[i].Key() < out[j].Key() })
	return out
}

func (e *Engine) LemmasFor(prop string) []*Lemma {
	var out []*Lemma
	for _, l := range e.cs.Lemmas {
		for _, p := range l.Props {
			if p == prop {
				out = append(out, l)
				break
			}
		}
	}
	sort.Slice(out, func(i, j int) bool { return out[i].Name < out[j].Name })
	return out
}

func (e *Engine) addObl(o *Obligation) {
	// a run that borrows the contracts of another property (C14 over the C10 contracts) keeps, for the borrowed
	// functions, only the obligations it is about (confinement and lock discipline); the borrowed property proves the rest
	if e.alsoProp != "" && !e.curDirect && o.Kind != "confine" && o.Kind != "lock" {
		return
	}
	e.obls = append(e.obls, o)
}

// applies reports whether a clause is active for the property being checked.
func (e *Engine) applies(c *Clause) bool {
	if len(c.Props) == 0 {
		return true
	}
	for _, p := range c.Props {
		if p == e.prop || (e.alsoProp != "" && p == e.alsoProp) {
			return true
		}
	}
	return false
}

func (e *Engine) activeClauses(cs []*Clause) []*Clause {
	var out []*Clause
	for _, c := range cs {
		if e.applies(c) {
			out = append(out, c)
		}
	}
	return out
}
