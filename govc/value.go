package main

// Executor-side values. SMT sees only scalar terms (Int, Bool, String, arrays);
// structs, pointers and slices are expanded on the Go side.

import (
	"fmt"
	"go/ast"
	"go/types"
	"sort"
)

type Value interface{}

// StructV is a struct by value (flattened record of values).
type StructV struct {
	Names []string
	F     map[string]Value
}

func (s *StructV) With(name string, v Value) *StructV {
	n := &StructV{Names: s.Names, F: make(map[string]Value, len(s.F))}
	for k, x := range s.F {
		n.F[k] = x
	}
	if _, ok := n.F[name]; !ok {
		n.Names = append(append([]string(nil), s.Names...), name)
	}
	n.F[name] = v
	return n
}

// PtrV is a pointer: a nil flag and a concrete object id in the state's heap.
// Distinct pointer parameters are assumed not to alias.
type PtrV struct {
	Nil *Term
	Obj int     // -1: no object (definitely nil); -2: unresolved merge of two pointers (Alt)
	Alt *ptrAlt // c ? A : B, resolved to a merged copy by State.resolvePtrs
}

type ptrAlt struct {
	c    *Term
	a, b *PtrV
}

// SliceV is a slice with value semantics: a length and an element function.
type SliceV struct {
	Len  *Term
	At   func(i *Term) Value
	Nil  *Term  // may be nil (== unknown/not tracked -> treated as False)
	Name string // base slices only: name of the uninterpreted element function
}

// MapV is a Go map: reference identity + SMT arrays for domain and content.
type MapV struct {
	Ref   *Term            // Int identity, 0 = nil map
	Dom   *Term            // Array K Bool
	Val   map[string]*Term // leaf name -> Array K leafSort ("" for scalar values)
	K     *Sort
	Elem  types.Type
	Cands []*types.Func // maps of functions built from a literal: the functions that can be stored in it
}

type TupleV struct{ Vs []Value }

// IfaceV is an interface value with a symbolic dynamic-type tag.
type IfaceV struct {
	Tag      *Term            // Int: 0 = nil interface; other values name dynamic types
	Payloads map[string]Value // dynamic type string -> payload value
	Id       *Term            // opaque identity
}

// FuncV is a function value (closure or named function).
type FuncV struct {
	Name  string
	Id    *Term
	Lit   *ast.FuncLit
	Fc    *FnCtx        // defining context (for closures)
	Cands []*types.Func // closed set of named functions this value can be (read from a literal map of functions)
	// two function values merged at a join (closure variables assigned on different branches)
	AltC       *Term
	AltA, AltB *FuncV
}

func scalar(v Value) *Term {
	switch x := v.(type) {
	case *Term:
		return x
	case *PtrV:
		panic("scalar: pointer value")
	}
	panic(fmt.Sprintf("scalar: not a scalar value: %T", v))
}

// ---------------------------------------------------------------------------
// Slice algebra

func sliceLit(elems []Value) *SliceV {
	n := len(elems)
	return &SliceV{Len: Int(int64(n)), At: func(i *Term) Value {
		if i.IsInt() {
			k := i.Int.Int64()
			if k >= 0 && k < int64(n) {
				return elems[k]
			}
		}
		if n == 0 {
			return nil
		}
		res := elems[n-1]
		for k := n - 2; k >= 0; k-- {
			res = mergeValue(Eq(i, Int(int64(k))), elems[k], res)
		}
		return res
	}, Nil: False}
}

func sliceSub(s *SliceV, lo, hi *Term) *SliceV {
	if lo.IsInt() && lo.Int.Sign() == 0 && hi.Key() == s.Len.Key() {
		return s
	}
	return &SliceV{Len: Sub(hi, lo), At: func(i *Term) Value { return s.At(Add(i, lo)) }, Nil: False}
}

func sliceAppend(a, b *SliceV) *SliceV {
	if b.Len.IsInt() && b.Len.Int.Sign() == 0 {
		return a
	}
	if a.Len.IsInt() && a.Len.Int.Sign() == 0 {
		return &SliceV{Len: b.Len, At: b.At, Nil: False}
	}
	return &SliceV{Len: Add(a.Len, b.Len), At: func(i *Term) Value {
		return mergeValue(Lt(i, a.Len), a.At(i), b.At(Sub(i, a.Len)))
	}, Nil: False}
}

func sliceUpdate(s *SliceV, idx *Term, v Value) *SliceV {
	return &SliceV{Len: s.Len, At: func(i *Term) Value {
		return mergeValue(Eq(i, idx), v, s.At(i))
	}, Nil: s.Nil}
}

func nilSlice() *SliceV {
	return &SliceV{Len: Int(0), At: func(i *Term) Value { return nil }, Nil: True}
}

// ---------------------------------------------------------------------------
// Merging (ite per leaf)

func mergeValue(c *Term, a, b Value) Value {
	if c.IsTrue() {
		return a
	}
	if c.IsFalse() {
		return b
	}
	if a == nil {
		return b
	}
	if b == nil {
		return a
	}
	switch x := a.(type) {
	case *Term:
		y, ok := b.(*Term)
		if !ok {
			panic(fmt.Sprintf("merge: kind mismatch %T vs %T", a, b))
		}
		if x == y {
			return x
		}
		return Ite(c, x, y)
	case *StructV:
		y := b.(*StructV)
		if x == y {
			return x
		}
		n := &StructV{Names: x.Names, F: map[string]Value{}}
		for _, k := range x.Names {
			n.F[k] = mergeValue(c, x.F[k], y.F[k])
		}
		return n
	case *SliceV:
		y := b.(*SliceV)
		if x == y {
			return x
		}
		var nl *Term
		if x.Nil != nil && y.Nil != nil {
			nl = Ite(c, x.Nil, y.Nil)
		}
		return &SliceV{Len: Ite(c, x.Len, y.Len), At: func(i *Term) Value {
			return mergeValue(c, x.At(i), y.At(i))
		}, Nil: nl}
	case *PtrV:
		y := b.(*PtrV)
		if x == y {
			return x
		}
		if x.Obj == y.Obj {
			return &PtrV{Nil: Ite(c, x.Nil, y.Nil), Obj: x.Obj}
		}
		if x.Obj < 0 {
			return &PtrV{Nil: Ite(c, True, y.Nil), Obj: y.Obj}
		}
		if y.Obj < 0 {
			return &PtrV{Nil: Ite(c, x.Nil, True), Obj: x.Obj}
		}
		return &PtrV{Nil: Ite(c, x.Nil, y.Nil), Obj: -2, Alt: &ptrAlt{c, x, y}}
	case *TupleV:
		y := b.(*TupleV)
		n := &TupleV{}
		for i := range x.Vs {
			n.Vs = append(n.Vs, mergeValue(c, x.Vs[i], y.Vs[i]))
		}
		return n
	case *MapV:
		y := b.(*MapV)
		if x == y {
			return x
		}
		n := &MapV{Ref: Ite(c, x.Ref, y.Ref), Dom: Ite(c, x.Dom, y.Dom), Val: map[string]*Term{}, K: x.K, Elem: x.Elem, Cands: x.Cands}
		for k := range x.Val {
			n.Val[k] = Ite(c, x.Val[k], y.Val[k])
		}
		return n
	case *IfaceV:
		y := b.(*IfaceV)
		if x == y {
			return x
		}
		n := &IfaceV{Tag: Ite(c, x.Tag, y.Tag), Id: Ite(c, x.Id, y.Id), Payloads: map[string]Value{}}
		keys := map[string]bool{}
		for k := range x.Payloads {
			keys[k] = true
		}
		for k := range y.Payloads {
			keys[k] = true
		}
		for k := range keys {
			n.Payloads[k] = mergeValue(c, x.Payloads[k], y.Payloads[k])
		}
		return n
	case *FuncV:
		y := b.(*FuncV)
		if x == y {
			return x
		}
		cands := x.Cands
		if cands == nil {
			cands = y.Cands
		}
		if x.Lit != nil || y.Lit != nil || x.AltC != nil || y.AltC != nil {
			return &FuncV{Name: "?", Id: Ite(c, x.Id, y.Id), Cands: cands, AltC: c, AltA: x, AltB: y}
		}
		return &FuncV{Name: "?", Id: Ite(c, x.Id, y.Id), Cands: cands}
	}
	panic(fmt.Sprintf("merge: unsupported value %T", a))
}

type unsupportedErr struct{ msg string }

func (u unsupportedErr) Error() string { return "outside subset: " + u.msg }
func unsupported(format string, args ...interface{}) unsupportedErr {
	return unsupportedErr{fmt.Sprintf(format, args...)}
}

func sortedKeys[V any](m map[string]V) []string {
	var ks []string
	for k := range m {
		ks = append(ks, k)
	}
	sort.Strings(ks)
	return ks
}
