package main

// Solver race: z3-new 5.1.0, z3 4.8.12, cvc5 1.0.x on one SMT-LIB query.

import (
	"bytes"
	"context"
	"fmt"
	"os"
	"os/exec"
	"path/filepath"
	"strings"
	"sync"
	"sync/atomic"
	"time"
)

type SolverResult struct {
	Verdict string // "unsat" "sat" "unknown" "timeout" "error"
	Solver  string
	Output  string
	Secs    float64
	All     map[string]string // per-solver verdicts (thorough)
}

type solverSpec struct {
	name string
	argv func(file string, timeoutS int) []string
}

var solverSpecs = []solverSpec{
	{"z3-new", func(f string, t int) []string { return []string{"z3-new", "-T:" + itoa(t), f} }},
	{"z3", func(f string, t int) []string { return []string{"z3", "-T:" + itoa(t), f} }},
	{"cvc5", func(f string, t int) []string {
		return []string{"cvc5", "--tlimit=" + itoa(t*1000), "--strings-exp", f}
	}},
}

var solverSem = make(chan struct{}, 16)
var queryCounter int64

func parseVerdict(out string) string {
	for _, line := range strings.Split(out, "\n") {
		line = strings.TrimSpace(line)
		switch line {
		case "unsat", "sat", "unknown", "timeout":
			return line
		}
		if strings.HasPrefix(line, "(error") {
			return "error"
		}
	}
	return "unknown"
}

// RunSolvers races the solvers on the query. If all is true every solver's
// verdict is collected (thorough tier) and a sat/unsat disagreement is
// reported as verdict "disagree".
func RunSolvers(query string, timeoutS int, all bool, workdir string, tag string) SolverResult {
	return RunSolversCtx(context.Background(), query, timeoutS, all, workdir, tag)
}

// RunSolversCtx: as RunSolvers; cancelling parent stops the solver processes (used when another attempt on the
// same obligation has already succeeded).
func RunSolversCtx(parent context.Context, query string, timeoutS int, all bool, workdir string, tag string) SolverResult {
	os.MkdirAll(workdir, 0o755)
	n := atomic.AddInt64(&queryCounter, 1)
	file := filepath.Join(workdir, fmt.Sprintf("%04d-%s.smt2", n, sanitizeFile(tag)))
	os.WriteFile(file, []byte(query), 0o644)
	type one struct {
		name, verdict, out string
		secs               float64
	}
	ctx, cancel := context.WithCancel(parent)
	defer cancel()
	ch := make(chan one, len(solverSpecs))
	var wg sync.WaitGroup
	for _, sp := range solverSpecs {
		sp := sp
		wg.Add(1)
		go func() {
			defer wg.Done()
			solverSem <- struct{}{}
			defer func() { <-solverSem }()
			if ctx.Err() != nil {
				ch <- one{sp.name, "cancelled", "", 0}
				return
			}
			argv := sp.argv(file, timeoutS)
			c, cc := context.WithTimeout(ctx, time.Duration(timeoutS+2)*time.Second)
			defer cc()
			cmd := exec.CommandContext(c, argv[0], argv[1:]...)
			var buf bytes.Buffer
			cmd.Stdout = &buf
			cmd.Stderr = &buf
			t0 := time.Now()
			cmd.Run()
			v := parseVerdict(buf.String())
			if c.Err() != nil && v == "unknown" {
				v = "timeout"
			}
			ch <- one{sp.name, v, buf.String(), time.Since(t0).Seconds()}
		}()
	}
	go func() { wg.Wait(); close(ch) }()
	res := SolverResult{Verdict: "unknown", All: map[string]string{}}
	var outs []string
	for o := range ch {
		res.All[o.name] = o.verdict
		outs = append(outs, o.name+": "+firstLines(o.out, 3))
		if o.verdict == "unsat" || o.verdict == "sat" {
			if res.Verdict == "unsat" || res.Verdict == "sat" {
				if res.Verdict != o.verdict {
					res.Verdict = "disagree"
				}
				continue
			}
			res.Verdict, res.Solver, res.Output, res.Secs = o.verdict, o.name, o.out, o.secs
			if !all {
				cancel()
			}
		}
	}
	if res.Verdict == "unknown" {
		to := true
		for _, v := range res.All {
			if v != "timeout" && v != "cancelled" {
				to = false
			}
		}
		if to {
			res.Verdict = "timeout"
		}
		res.Output = strings.Join(outs, "\n")
	}
	if res.Verdict == "unsat" && !keepSMT {
		os.Remove(file)
	}
	return res
}

var keepSMT = os.Getenv("GOVC_KEEP_SMT") != ""

func firstLines(s string, n int) string {
	ls := strings.Split(strings.TrimSpace(s), "\n")
	if len(ls) > n {
		ls = ls[:n]
	}
	return strings.Join(ls, " | ")
}

func sanitizeFile(s string) string {
	var sb strings.Builder
	for _, c := range s {
		if c >= 'a' && c <= 'z' || c >= 'A' && c <= 'Z' || c >= '0' && c <= '9' || c == '.' || c == '-' || c == '_' {
			sb.WriteRune(c)
		} else {
			sb.WriteByte('_')
		}
	}
	r := sb.String()
	if len(r) > 150 {
		r = r[:150]
	}
	return r
}

func itoa(n int) string {
	if n == 0 {
		return "0"
	}
	neg := n < 0
	if neg {
		n = -n
	}
	var b []byte
	for n > 0 {
		b = append([]byte{byte('0' + n%10)}, b...)
		n /= 10
	}
	if neg {
		b = append([]byte{'-'}, b...)
	}
	return string(b)
}
