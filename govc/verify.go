package main

import (
	"context"
	"fmt"
	"go/ast"
	"go/token"
	"go/types"
	"os"
	"os/exec"
	"path/filepath"
	"runtime/debug"
	"sort"
	"strings"
	"sync"
	"time"

	"golang.org/x/tools/go/packages"
)

// funcTarget locates the code a contract is attached to: a declared function /
// method, or the N-th function literal inside one (name "Outer$N").
type funcTarget struct {
	pkg   *packages.Package
	decl  *ast.FuncDecl
	lit   *ast.FuncLit
	ftype *ast.FuncType
	body  *ast.BlockStmt
	sig   *types.Signature
}

func (e *Engine) locate(c *Contract) *funcTarget {
	name := c.Name
	litN := 0
	if k := strings.Index(name, "$"); k >= 0 {
		fmt.Sscanf(name[k+1:], "%d", &litN)
		name = name[:k]
	}
	key := contractKey(c.Pkg, c.Recv, name)
	fd := e.funcDecls[key]
	pkg := e.funcPkg[key]
	if fd == nil || fd.Body == nil {
		return nil
	}
	if litN == 0 {
		return &funcTarget{pkg: pkg, decl: fd, ftype: fd.Type, body: fd.Body, sig: pkg.TypesInfo.Defs[fd.Name].Type().(*types.Signature)}
	}
	n := 0
	var found *ast.FuncLit
	ast.Inspect(fd.Body, func(x ast.Node) bool {
		if fl, ok := x.(*ast.FuncLit); ok {
			n++
			if n == litN && found == nil {
				found = fl
			}
		}
		return true
	})
	if found == nil {
		return nil
	}
	sig, _ := pkg.TypesInfo.TypeOf(found).(*types.Signature)
	return &funcTarget{pkg: pkg, decl: fd, lit: found, ftype: found.Type, body: found.Body, sig: sig}
}

// effective returns the contract with an implemented interface contract merged in.
func (e *Engine) effective(c *Contract, tgt *funcTarget) *Contract {
	if c.Impl == "" {
		return c
	}
	parts := strings.Split(c.Impl, ".")
	var ic *Contract
	if len(parts) == 2 {
		ic = e.cs.Contracts[contractKey(c.Pkg, parts[0], parts[1])]
		if ic == nil {
			for _, cand := range e.cs.Contracts {
				if cand.Iface && cand.Recv == parts[0] && cand.Name == parts[1] {
					ic = cand
				}
			}
		}
	}
	if ic == nil {
		panic(unsupported("implements %s: no such interface contract", c.Impl))
	}
	// rename the interface method's parameter names to this function's names (by position)
	ren := map[string]string{}
	if ifn := e.ifaceMethod(ic); ifn != nil {
		isig := ifn.Type().(*types.Signature)
		k := 0
		for _, fld := range tgt.ftype.Params.List {
			for _, n := range fld.Names {
				if k < isig.Params().Len() {
					ren[isig.Params().At(k).Name()] = n.Name
				}
				k++
			}
		}
		k = 0
		if tgt.ftype.Results != nil {
			for _, fld := range tgt.ftype.Results.List {
				for _, n := range fld.Names {
					if k < isig.Results().Len() && isig.Results().At(k).Name() != "" {
						ren[isig.Results().At(k).Name()] = n.Name
					}
					k++
				}
			}
		}
	}
	m := *c
	renC := func(cl *Clause) *Clause {
		return &Clause{Props: cl.Props, Text: cl.Text + "   (from " + c.Impl + ")", Expr: renameIdents(cl.Expr, ren), Line: cl.Line, File: cl.File}
	}
	m.Requires = nil
	for _, r := range ic.Requires {
		m.Requires = append(m.Requires, renC(r))
	}
	m.Requires = append(m.Requires, c.Requires...)
	m.Ensures = nil
	for _, r := range ic.Ensures {
		m.Ensures = append(m.Ensures, renC(r))
	}
	m.Ensures = append(m.Ensures, c.Ensures...)
	m.Running = nil
	for _, r := range ic.Running {
		m.Running = append(m.Running, renC(r))
	}
	m.Running = append(m.Running, c.Running...)
	m.Modifies = nil
	m.ModText = nil
	for k, x := range ic.Modifies {
		m.Modifies = append(m.Modifies, renameIdents(x, ren))
		m.ModText = append(m.ModText, ic.ModText[k])
	}
	m.Modifies = append(m.Modifies, c.Modifies...)
	m.ModText = append(m.ModText, c.ModText...)
	return &m
}

// evalTypeExpr type-checks a type expression written in a contract.
func (e *Engine) evalTypeExpr(pkg *packages.Package, pos token.Pos, x ast.Expr) types.Type {
	info := &types.Info{Types: map[ast.Expr]types.TypeAndValue{}}
	if err := types.CheckExpr(pkg.Fset, pkg.Types, pos, x, info); err != nil {
		panic(unsupported("type expression %s: %v", exprText(x), err))
	}
	return info.Types[x].Type
}

func (e *Engine) ifaceMethod(ic *Contract) *types.Func {
	pkg := e.pkgs[ic.Pkg]
	if pkg == nil {
		// a dependency that is not among the loaded roots
		for _, p := range e.pkgs {
			if dep := p.Imports[ic.Pkg]; dep != nil && dep.Types != nil {
				pkg = dep
				break
			}
		}
	}
	if pkg == nil {
		return nil
	}
	obj := pkg.Types.Scope().Lookup(ic.Recv)
	if obj == nil {
		return nil
	}
	it, ok := obj.Type().Underlying().(*types.Interface)
	if !ok {
		return nil
	}
	for i := 0; i < it.NumMethods(); i++ {
		if it.Method(i).Name() == ic.Name {
			return it.Method(i)
		}
	}
	return nil
}

// renameIdents copies a contract expression renaming free identifiers.
func renameIdents(e ast.Expr, ren map[string]string) ast.Expr {
	if len(ren) == 0 {
		return e
	}
	switch x := e.(type) {
	case *ast.Ident:
		if n, ok := ren[x.Name]; ok {
			return ast.NewIdent(n)
		}
		return x
	case *ast.BinaryExpr:
		return &ast.BinaryExpr{X: renameIdents(x.X, ren), Op: x.Op, Y: renameIdents(x.Y, ren)}
	case *ast.UnaryExpr:
		return &ast.UnaryExpr{Op: x.Op, X: renameIdents(x.X, ren)}
	case *ast.ParenExpr:
		return &ast.ParenExpr{X: renameIdents(x.X, ren)}
	case *ast.CallExpr:
		n := &ast.CallExpr{Fun: x.Fun}
		if _, isId := x.Fun.(*ast.Ident); !isId {
			n.Fun = renameIdents(x.Fun, ren)
		}
		for _, a := range x.Args {
			n.Args = append(n.Args, renameIdents(a, ren))
		}
		return n
	case *ast.SelectorExpr:
		return &ast.SelectorExpr{X: renameIdents(x.X, ren), Sel: x.Sel}
	case *ast.IndexExpr:
		return &ast.IndexExpr{X: renameIdents(x.X, ren), Index: renameIdents(x.Index, ren)}
	case *ast.SliceExpr:
		n := &ast.SliceExpr{X: renameIdents(x.X, ren)}
		if x.Low != nil {
			n.Low = renameIdents(x.Low, ren)
		}
		if x.High != nil {
			n.High = renameIdents(x.High, ren)
		}
		return n
	case *ast.StarExpr:
		return &ast.StarExpr{X: renameIdents(x.X, ren)}
	}
	return e
}

// VerifyFunc generates the obligations of one function under contract.
func (e *Engine) VerifyFunc(c *Contract) {
	name := shortName(c)
	if c.Iface {
		e.trusted["interface contract "+name+": proved for the implementations under contract, assumed for all other implementations"] = true
		if e.ifaceMethod(c) == nil {
			e.rejected[name] = "interface contract refers to unknown interface method"
		}
		return
	}
	tgt := e.locate(c)
	if tgt == nil {
		e.rejected[name] = "contract refers to unknown function " + c.Key()
		return
	}
	if c.Trusted {
		e.trusted["trusted-contract:"+name] = true
		return
	}
	defer func() {
		if r := recover(); r != nil {
			if u, ok := r.(unsupportedErr); ok {
				e.rejected[name] = u.Error()
				return
			}
			e.rejected[name] = fmt.Sprintf("internal error: %v\n%s", r, debug.Stack())
		}
	}()
	pkg := tgt.pkg
	c = e.effective(c, tgt)
	{
		number := func(cs []*Clause) []*Clause {
			out := make([]*Clause, len(cs))
			plain := 0
			tagged := map[string]int{}
			for i, cl := range cs {
				n := *cl
				if len(cl.Props) > 0 {
					tagged[cl.Props[0]]++
					n.OrdS = fmt.Sprintf("%s-%d", cl.Props[0], tagged[cl.Props[0]])
				} else {
					plain++
					n.Ord = plain
				}
				out[i] = &n
			}
			return out
		}
		cp0 := *c
		cp0.Requires, cp0.Ensures, cp0.Running = number(c.Requires), number(c.Ensures), number(c.Running)
		cp0.Loops = map[int]*LoopSpec{}
		for k, ls := range c.Loops {
			cp0.Loops[k] = &LoopSpec{Invariants: number(ls.Invariants), ModExtra: ls.ModExtra, Unroll: ls.Unroll}
		}
		c = &cp0
		cp := *c
		cp.Requires = e.activeClauses(c.Requires)
		cp.Ensures = e.activeClauses(c.Ensures)
		cp.Running = e.activeClauses(c.Running)
		cp.Loops = map[int]*LoopSpec{}
		for k, ls := range c.Loops {
			cp.Loops[k] = &LoopSpec{Invariants: e.activeClauses(ls.Invariants), ModExtra: ls.ModExtra, Unroll: ls.Unroll}
		}
		c = &cp
	}
	e.curDirect = false
	for _, p := range c.Props {
		if p == e.prop {
			e.curDirect = true
		}
	}
	e.noInv = c.NoInv
	defer func() { e.noInv = nil }()
	fc := &FnCtx{e: e, pkg: pkg, info: pkg.TypesInfo, decl: tgt.decl, body: tgt.body, c: c, name: name,
		counters: map[string]int{}, modified: map[types.Object]bool{}}
	fc.sig = tgt.sig
	fc.firedWhere = map[string]bool{}
	fc.gen = e.genInfo[c.Key()]
	fc.index()
	st := NewState()
	st.ghost[failedKey] = Var("failedDuring0", SBool)
	if e.pkgs[modulePath] != nil {
		e.renderCV(st) // materialise the render's context value before the entry snapshot
	}
	// receiver and parameters
	declareParams := func(ft *ast.FuncType, recv *ast.FieldList) {
		if recv != nil && len(recv.List) > 0 && len(recv.List[0].Names) > 0 {
			n := recv.List[0].Names[0]
			if obj := pkg.TypesInfo.Defs[n]; obj != nil {
				st.Declare(obj, e.freshValue(st, n.Name, obj.Type(), true))
				fc.params = append(fc.params, obj)
			}
		}
		for _, fld := range ft.Params.List {
			for _, n := range fld.Names {
				if obj := pkg.TypesInfo.Defs[n]; obj != nil {
					st.Declare(obj, e.freshValue(st, n.Name, obj.Type(), true))
					fc.params = append(fc.params, obj)
				}
			}
		}
	}
	if tgt.lit != nil {
		// captured variables of the enclosing function: unconstrained
		declareParams(tgt.decl.Type, tgt.decl.Recv)
		if tgt.decl.Type.Results != nil {
			for _, r := range namedResults(pkg.TypesInfo, tgt.decl.Type) {
				if r != nil {
					st.Declare(r, e.freshValue(st, r.Name(), r.Type(), true))
				}
			}
		}
		seen := map[types.Object]bool{}
		ast.Inspect(tgt.lit.Body, func(x ast.Node) bool {
			id, ok := x.(*ast.Ident)
			if !ok {
				return true
			}
			v, ok := pkg.TypesInfo.Uses[id].(*types.Var)
			if !ok || seen[v] || v.IsField() || v.Pkg() == nil || v.Parent() == v.Pkg().Scope() {
				return true
			}
			seen[v] = true
			if _, have := st.vars[v]; have {
				return true
			}
			if v.Pos() >= tgt.lit.Pos() && v.Pos() < tgt.lit.End() {
				return true // declared inside the literal
			}
			st.Declare(v, e.freshValue(st, v.Name(), v.Type(), true))
			return true
		})
		fc.params = nil
		declareParams(tgt.ftype, nil)
	} else {
		declareParams(tgt.ftype, tgt.decl.Recv)
	}
	fc.results = namedResults(pkg.TypesInfo, tgt.ftype)
	for _, r := range fc.results {
		if r != nil {
			st.Declare(r, e.zeroValue(st, r.Type()))
		}
	}
	// requires
	// a lock that the preconditions speak about may be held on entry: its state starts out unknown (otherwise: not held)
	for _, rq := range c.Requires {
		if !e.applies(rq) {
			continue
		}
		ast.Inspect(rq.Expr, func(n ast.Node) bool {
			if call, ok := n.(*ast.CallExpr); ok {
				if id, ok := call.Fun.(*ast.Ident); ok && (id.Name == "held" || id.Name == "xheld") && len(call.Args) == 1 {
					for _, k := range []string{"lock:", "rlock:"} {
						key := k + exprString(call.Args[0])
						if _, have := st.ghost[key]; !have {
							st.ghost[key] = Var(k+"0:"+exprString(call.Args[0]), SBool)
						}
					}
				}
			}
			return true
		})
	}
	for _, r := range c.Requires {
		sc := fc.specCtx(st, nil)
		sc.pol = -1
		// dyntype(param, T): bind the interface-typed parameter to a value of dynamic type T
		if call, ok := r.Expr.(*ast.CallExpr); ok && exprString(call.Fun) == "dyntype" && len(call.Args) == 2 {
			lv := sc.lvalue(call.Args[0])
			hint := strings.ReplaceAll(exprString(call.Args[0]), "templ_7745c5c3_", "")
			if id, ok := call.Args[1].(*ast.Ident); ok && id.Name == "opaque" {
				// an arbitrary writer that is none of the types the code tests for
				lv.set(&IfaceV{Tag: Int(e.typeTag("opaque-writer")), Id: Var(hint+".id", SInt), Payloads: map[string]Value{}})
				continue
			}
			t := e.evalTypeExpr(pkg, tgt.body.Lbrace+1, call.Args[1])
			pv := e.freshValue(st, hint+".dyn", t, true)
			if p, ok := pv.(*PtrV); ok {
				p.Nil = False
			}
			lv.set(e.boxIface(st, pv, t))
			continue
		}
		// "target(x) == y" on writer identities: bind (ghost state is keyed by identity).
		// Under "implies(dyntype(..), ...)" the binding is unconditional: when the
		// antecedent is false the payload object is hypothetical.
		rexpr := r.Expr
		if call, ok := rexpr.(*ast.CallExpr); ok && exprString(call.Fun) == "implies" && len(call.Args) == 2 {
			if inner, ok := call.Args[1].(*ast.BinaryExpr); ok && inner.Op == token.EQL {
				if c2, ok := inner.X.(*ast.CallExpr); ok && exprString(c2.Fun) == "target" {
					rexpr = inner
				}
			}
		}
		if be, ok := rexpr.(*ast.BinaryExpr); ok && be.Op == token.EQL {
			if call, ok := be.X.(*ast.CallExpr); ok && exprString(call.Fun) == "target" {
				if lv, ok := sc.ghostLvalOf(be.X); ok {
					if rv := sc.tryEval(be.Y); rv != nil {
						lv.set(rv)
						continue
					}
				}
			}
		}
		// "param == <slice/map valued expr>": bind the parameter instead of a quantified equation
		if be, ok := r.Expr.(*ast.BinaryExpr); ok && be.Op == token.EQL {
			if id, ok := be.X.(*ast.Ident); ok {
				if obj, ok := st.names[id.Name]; ok {
					if _, isSlice := st.vars[obj].(*SliceV); isSlice {
						if rv, ok := sc.tryEval(be.Y).(*SliceV); ok {
							st.vars[obj] = rv
							continue
						}
					}
				}
			}
		}
		st.Assume(sc.evalBool(r.Expr))
	}
	fc.entry = st.Clone()
	// cover: the preconditions are satisfiable
	e.addObl(&Obligation{Name: name + "#cover.requires", Kind: "cover", Func: name, Hyps: st.Hyps(), Cover: true, Pos: e.posStr(tgt.body.Pos())})
	fc.applyUses(st, "entry")
	outs := fc.execBlock(st, tgt.body.List)
	for _, o := range outs {
		switch o.kind {
		case oReturn:
			fc.finish(o.st, o.rets, fmt.Sprintf("return.%d", fc.retOrd[o.ret]), o.ret.Pos())
		case oFall:
			var rets []Value
			for _, r := range fc.results {
				if r != nil {
					rets = append(rets, o.st.vars[r])
				}
			}
			fc.finish(o.st, rets, "end", tgt.body.Rbrace)
		default:
			panic(unsupported("break/continue escapes function body"))
		}
	}
	// a ghost assert whose program point was never reached guards nothing: the anchor (call) disappeared
	for _, a := range c.Asserts {
		if e.applies(&Clause{Props: a.Props}) && !fc.firedWhere[a.Where] && !strings.HasSuffix(a.Where, ".break") {
			e.addObl(&Obligation{Name: fmt.Sprintf("%s#assert-anchor(%s)", name, a.Where), Kind: "assert", Func: name, Goal: False, Hyps: nil,
				Verdict: "sat", Solver: "engine", Note: "ghost assert `" + a.Text + "` is attached to program point `" + a.Where + "`, which does not occur in the function any more"})
		}
	}
	// helper clauses attached to a program point that never occurs are inert: say so (they cannot make a proof pass)
	if os.Getenv("GOVC_WARN") != "" {
		for _, u := range c.Uses {
			if e.applies(&Clause{Props: u.Props}) && !fc.firedWhere[u.Where] {
				fmt.Fprintf(os.Stderr, "warning: %s: use clause at unknown program point %q never applied: %s\n", name, u.Where, u.Text)
			}
		}
		for _, a := range c.Assumes {
			if e.applies(&Clause{Props: a.Props}) && !fc.firedWhere[a.Where] {
				fmt.Fprintf(os.Stderr, "warning: %s: assume clause at unknown program point %q never applied: %s\n", name, a.Where, a.Text)
			}
		}
		for _, l := range c.Lets {
			if !fc.firedWhere[l.Where] {
				fmt.Fprintf(os.Stderr, "warning: %s: let clause at unknown program point %q never bound: %s\n", name, l.Where, l.Text)
			}
		}
	}
	e.verified = append(e.verified, name)
}

func (fc *FnCtx) finish(st *State, rets []Value, where string, pos token.Pos) {
	// deferred calls, last first
	if len(st.defers) > 0 {
		fc.nameSuffix = "@defer@" + where
		for i := len(st.defers) - 1; i >= 0; i-- {
			rets = st.defers[i].run(st, rets)
		}
		fc.nameSuffix = ""
	}
	scope := map[string]Value{}
	res := fc.sig.Results()
	for i := 0; i < res.Len() && i < len(rets); i++ {
		scope[fmt.Sprintf("result%d", i)] = rets[i]
		if n := res.At(i).Name(); n != "" && n != "_" {
			scope[n] = rets[i]
		}
	}
	if len(rets) == 1 {
		scope["result"] = rets[0]
	}
	scope["lasterr"] = Int(0) // the error result (nil for functions without one)
	if n := res.Len(); n > 0 && n <= len(rets) && isErrorType(res.At(n-1).Type()) {
		scope["lasterr"] = rets[n-1]
	}
	// bind named results in state too
	for i, r := range fc.results {
		if r != nil && i < len(rets) {
			st.vars[r] = rets[i]
		}
	}
	fc.applyUsesScope(st, where, scope)
	fc.applyUsesScope(st, "exit", scope)
	{
		cn := fmt.Sprintf("%s#cover.exit@%s", fc.name, where)
		if fc.nameSeen == nil {
			fc.nameSeen = map[string]int{}
		}
		fc.nameSeen[cn]++
		if n := fc.nameSeen[cn]; n > 1 {
			cn = fmt.Sprintf("%s~path%d", cn, n)
		}
		fc.e.addObl(&Obligation{Name: cn, Kind: "cover-exit", Func: fc.name, Hyps: st.Hyps(), Cover: true, Pos: fc.e.posStr(pos)})
	}
	for _, en := range fc.c.Ensures {
		sc := fc.specCtx(st, scope)
		sc.pol = 1
		t := sc.evalBool(en.Expr)
		fc.obligeNamed(st, fmt.Sprintf("%s#ensures.%s@%s", fc.name, en.ordName(0), where), "ensures", t, pos, en.Text)
	}
	fc.frameCheck(st, where, pos)
}

// frameCheck: every heap location reachable from the parameters that is not in
// the modifies clause is unchanged; slice parameters whose elements were
// written must be listed.
func (fc *FnCtx) frameCheck(st *State, where string, pos token.Pos) {
	if fc.c.ModAll {
		return // "modifies *": no frame is claimed
	}
	type tgt struct {
		obj   int
		field string
	}
	allowed := map[tgt]bool{}
	allowedVars := map[string]bool{}
	sc := fc.specCtx(fc.entry.Clone(), nil)
	for _, m := range fc.c.Modifies {
		if fc.c.ModAll {
			break
		}
		if _, isGhost := sc.ghostLvalOf(m); isGhost {
			// out(b) of an in-memory buffer (strings.Builder / bytes.Buffer) is the buffer object itself
			if call, ok := m.(*ast.CallExpr); ok && exprString(call.Fun) == "out" && len(call.Args) == 1 {
				if w := sc.tryEval(call.Args[0]); w != nil {
					if id, ok := sc.bufferObject(w); ok {
						allowed[tgt{id, "*"}] = true
					}
				}
			}
			continue
		}
		if call, ok := m.(*ast.CallExpr); ok && exprString(call.Fun) == "reach" && len(call.Args) == 1 {
			// reach(x): every object reachable from the entry value of x
			esc := fc.specCtx(fc.entry, nil)
			seen := map[int]bool{}
			var visit func(v Value, depth int)
			visit = func(v Value, depth int) {
				if depth > 12 {
					return
				}
				switch x := v.(type) {
				case *PtrV:
					if x.Alt != nil {
						visit(x.Alt.a, depth+1)
						visit(x.Alt.b, depth+1)
						return
					}
					if x.Obj < 0 || seen[x.Obj] {
						return
					}
					seen[x.Obj] = true
					allowed[tgt{x.Obj, "*"}] = true
					visit(fc.entry.heap[x.Obj], depth+1)
					visit(st.heap[x.Obj], depth+1)
				case *StructV:
					for _, f := range x.Names {
						visit(x.F[f], depth+1)
					}
				case *boxedV:
					if !seen[x.Obj] {
						seen[x.Obj] = true
						allowed[tgt{x.Obj, "*"}] = true
						visit(fc.entry.heap[x.Obj], depth+1)
					}
				}
			}
			if v := esc.tryEval(call.Args[0]); v != nil {
				visit(v, 0)
			}
			continue
		}
		if rootIsCV(m) {
			cvp := fc.e.renderCV(sc.st)
			fc.e.renderCV(fc.entry)
			if _, f := modRootField(m); f == "*" || f == "" {
				allowed[tgt{cvp.Obj, "*"}] = true
			} else {
				allowed[tgt{cvp.Obj, f}] = true
			}
			continue
		}
		if call, ok := m.(*ast.CallExpr); ok && exprString(call.Fun) == "doc" {
			// doc(w): for a runtime.Buffer the pending bytes / sticky error of its bufio.Writer may change
			w := sc.tryEval(call.Args[0])
			if w != nil {
				if sv, ok := sc.runtimeBuffer(w); ok {
					if bwp, ok := sv.F["b"].(*PtrV); ok {
						allowed[tgt{bwp.Obj, "*"}] = true
					}
				}
			}
			continue
		}
		root, field := modRootField(m)
		if field == "" {
			allowedVars[root] = true
			// a pointer parameter listed by name: whole object
			if obj, ok := fc.entry.names[root]; ok {
				if p, ok := fc.entry.vars[obj].(*PtrV); ok {
					allowed[tgt{p.Obj, "*"}] = true
				}
			}
			continue
		}
		obj, ok := sc.st.names[root]
		if !ok {
			panic(unsupported("modifies: unknown root %s", root))
		}
		p, ok := sc.st.vars[obj].(*PtrV)
		if !ok {
			allowedVars[root] = true
			continue
		}
		allowed[tgt{p.Obj, field}] = true
	}
	for obj := range fc.modified {
		if !allowedVars[obj.Name()] {
			fc.obligeNamed(st, fmt.Sprintf("%s#frame.%s@%s", fc.name, obj.Name(), where), "frame", False, pos,
				"elements of slice parameter "+obj.Name()+" are written but it is not in modifies")
		}
	}
	ids := make([]int, 0, len(fc.entry.heap))
	for id := range fc.entry.heap {
		ids = append(ids, id)
	}
	sort.Ints(ids)
	ec := &evalCtx{fc: fc, st: st, spec: true, pol: 1, pkg: fc.pkg}
	for _, id := range ids {
		if allowed[tgt{id, "*"}] {
			continue
		}
		before, after := fc.entry.heap[id], st.heap[id]
		if before == after {
			continue
		}
		bs, ok1 := before.(*StructV)
		as, ok2 := after.(*StructV)
		if ok1 && ok2 {
			for _, f := range bs.Names {
				if allowed[tgt{id, f}] || bs.F[f] == as.F[f] {
					continue
				}
				eq := ec.eqValues(as.F[f], bs.F[f])
				fc.obligeNamed(st, fmt.Sprintf("%s#frame.obj%d.%s@%s", fc.name, id, f, where), "frame", eq, pos,
					"field "+f+" is not in modifies and must be unchanged")
			}
			continue
		}
		eq := ec.eqValues(after, before)
		fc.obligeNamed(st, fmt.Sprintf("%s#frame.obj%d@%s", fc.name, id, where), "frame", eq, pos, "object not in modifies must be unchanged")
	}
	for _, v := range fc.globalWrites {
		fc.e.notes = appendUnique(fc.e.notes, fmt.Sprintf("%s writes package-level variable %s", fc.name, v.Name()))
	}
}

// ---------------------------------------------------------------------------
// Lemmas

// LemmaObligation turns a lemma into an obligation.
func (e *Engine) LemmaObligation(lm *Lemma) {
	name := "lemma:" + lm.Name
	defer func() {
		if r := recover(); r != nil {
			if u, ok := r.(unsupportedErr); ok {
				e.rejected[name] = u.Error()
				return
			}
			e.rejected[name] = fmt.Sprintf("internal error: %v\n%s", r, debug.Stack())
		}
	}()
	switch lm.By {
	case "reglang":
		left, right := e.lemmaLanguages(lm)
		e.addObl(&Obligation{Name: name, Kind: "lemma", Func: name, LangLeft: left, LangRight: right, Note: lm.Text})
	case "smt":
		st := NewState()
		pkg := e.pkgs[lm.Pkg]
		fc := &FnCtx{e: e, pkg: pkg, name: name, counters: map[string]int{}, modified: map[types.Object]bool{}}
		scope := map[string]Value{}
		for _, p := range lm.Params {
			// parameter sorts by suffix convention: name:sort is not supported by the Go parser,
			// so: parameters starting with n/i/j/k/c/r/w are Int, b is Bool? -- use explicit prefixes.
			scope[p] = Var(p, paramSort(p))
		}
		ec := &evalCtx{fc: fc, st: st, spec: true, scope: scope, pkg: pkg, noLocals: true, pol: -1}
		var hyps []*Term
		if lm.Hyps != nil {
			hyps = append(hyps, ec.evalBool(lm.Hyps))
		}
		hyps = append(hyps, st.pc...)
		ec.pol = 1
		goal := ec.evalBool(lm.Concl)
		hyps = append(hyps, st.pc...)
		e.addObl(&Obligation{Name: name, Kind: "lemma", Func: name, Hyps: hyps, Goal: goal, Note: lm.Text})
	case "axiom":
		// a fact about specification functions that the engine does not derive (listed in the trusted base)
		e.trusted["axiom lemma "+lm.Name+": "+lm.Text] = true
	default:
		if strings.HasPrefix(lm.By, "compute") {
			e.computeLemma(lm, name)
			return
		}
		e.rejected[name] = "unknown lemma back end " + lm.By
	}
}

// computeLemma: `by compute(lo, hi)` — the single Int parameter ranges over
// [lo, hi); the statement is evaluated for every value (tables and languages
// are constants, so each instance folds to a boolean).
func (e *Engine) computeLemma(lm *Lemma, name string) {
	var lo, hi int
	if n, _ := fmt.Sscanf(strings.ReplaceAll(lm.By, " ", ""), "compute(%d,%d)", &lo, &hi); n != 2 || len(lm.Params) != 1 {
		panic(unsupported("lemma %s: expected `by compute(lo, hi)` and one parameter", lm.Name))
	}
	pkg := e.pkgs[lm.Pkg]
	fc := &FnCtx{e: e, pkg: pkg, name: name, counters: map[string]int{}, modified: map[types.Object]bool{}}
	bad := ""
	for v := lo; v < hi; v++ {
		st := NewState()
		ec := &evalCtx{fc: fc, st: st, spec: true, scope: map[string]Value{lm.Params[0]: Int(int64(v))}, pkg: pkg, noLocals: true}
		var hyp *Term = True
		if lm.Hyps != nil {
			hyp = ec.evalBool(lm.Hyps)
		}
		res := Implies(hyp, ec.evalBool(lm.Concl))
		if !res.IsTrue() {
			if res.IsFalse() {
				bad = fmt.Sprintf("fails for %s = %d", lm.Params[0], v)
			} else {
				bad = fmt.Sprintf("does not fold to a constant for %s = %d: %s", lm.Params[0], v, res.Key())
			}
			break
		}
	}
	o := &Obligation{Name: name, Kind: "lemma", Func: name, Note: lm.Text, Goal: True, Solver: fmt.Sprintf("compute(%d values)", hi-lo)}
	if bad == "" {
		o.Verdict = "unsat"
	} else {
		o.Verdict = "sat"
		o.Output = bad
	}
	e.addObl(o)
}

// paramSort: lemma parameter sorts by naming convention: names beginning with
// "n_", "i_" or a single letter among i j k n c r w are Int; "b_" Bool; everything else String.
func paramSort(p string) *Sort {
	if strings.HasPrefix(p, "n_") || strings.HasPrefix(p, "i_") {
		return SInt
	}
	if strings.HasPrefix(p, "b_") {
		return SBool
	}
	if len(p) == 1 && strings.Contains("ijknc", p) {
		return SInt
	}
	return SStr
}

// lemmaLanguages derives, for a lemma of the shape
//
//	B1(x1) && ... && Bn(xn) ==> inL(cat(pieces...), R)
//
// where each Bi is a boolean combination of inL(xi, L) atoms over one
// parameter, the inclusion  L(piece1)·...·L(piecek) ⊆ R.
func (e *Engine) lemmaLanguages(lm *Lemma) (*Re, *Re) {
	constraint := map[string]*Re{}
	for _, p := range lm.Params {
		constraint[p] = reAll
	}
	var addHyp func(x ast.Expr)
	addHyp = func(x ast.Expr) {
		if be, ok := x.(*ast.BinaryExpr); ok && be.Op == token.LAND {
			addHyp(be.X)
			addHyp(be.Y)
			return
		}
		if pe, ok := x.(*ast.ParenExpr); ok {
			addHyp(pe.X)
			return
		}
		param, re := e.langFormula(x)
		if _, ok := constraint[param]; !ok {
			panic(unsupported("lemma %s: hypothesis about %q which is not a parameter", lm.Name, param))
		}
		constraint[param] = reAnd(constraint[param], re)
	}
	if lm.Hyps != nil {
		addHyp(lm.Hyps)
	}
	call, ok := lm.Concl.(*ast.CallExpr)
	if !ok || exprString(call.Fun) != "inL" || len(call.Args) != 2 {
		panic(unsupported("lemma %s: conclusion must be inL(expr, LANG)", lm.Name))
	}
	right := e.langs.Get(exprString(call.Args[1]))
	e.langUsed[exprString(call.Args[1])] = true
	var pieces []*Re
	var addPiece func(x ast.Expr)
	addPiece = func(x ast.Expr) {
		switch y := x.(type) {
		case *ast.Ident:
			c, ok := constraint[y.Name]
			if !ok {
				panic(unsupported("lemma %s: %q is not a parameter", lm.Name, y.Name))
			}
			pieces = append(pieces, c)
		case *ast.BasicLit:
			if y.Kind != token.STRING {
				panic(unsupported("lemma %s: literal %s", lm.Name, y.Value))
			}
			s, _ := strconvUnquote(y.Value)
			pieces = append(pieces, reLit(s))
		case *ast.CallExpr:
			if exprString(y.Fun) != "cat" {
				panic(unsupported("lemma %s: only cat(...) is allowed in the conclusion", lm.Name))
			}
			for _, a := range y.Args {
				addPiece(a)
			}
		case *ast.BinaryExpr:
			if y.Op != token.ADD {
				panic(unsupported("lemma %s: operator %s", lm.Name, y.Op))
			}
			addPiece(y.X)
			addPiece(y.Y)
		case *ast.ParenExpr:
			addPiece(y.X)
		default:
			panic(unsupported("lemma %s: conclusion piece %T", lm.Name, x))
		}
	}
	addPiece(call.Args[0])
	return reCat(pieces...), right
}

// langFormula: boolean combination of inL(p, L) atoms over a single parameter p.
func (e *Engine) langFormula(x ast.Expr) (string, *Re) {
	switch y := x.(type) {
	case *ast.ParenExpr:
		return e.langFormula(y.X)
	case *ast.UnaryExpr:
		if y.Op == token.NOT {
			p, r := e.langFormula(y.X)
			return p, reNot(r)
		}
	case *ast.BinaryExpr:
		if y.Op == token.LAND || y.Op == token.LOR {
			p1, r1 := e.langFormula(y.X)
			p2, r2 := e.langFormula(y.Y)
			if p1 != p2 {
				panic(unsupported("lemma hypothesis mixes parameters %s and %s", p1, p2))
			}
			if y.Op == token.LAND {
				return p1, reAnd(r1, r2)
			}
			return p1, reAlt(r1, r2)
		}
	case *ast.CallExpr:
		if exprString(y.Fun) == "inL" && len(y.Args) == 2 {
			id, ok := y.Args[0].(*ast.Ident)
			if !ok {
				panic(unsupported("lemma hypothesis inL(%s, ...): first argument must be a parameter", exprText(y.Args[0])))
			}
			ln := exprString(y.Args[1])
			e.langUsed[ln] = true
			return id.Name, e.langs.Get(ln)
		}
	}
	panic(unsupported("lemma hypothesis %s is not a language formula", exprText(x)))
}

// ---------------------------------------------------------------------------
// Discharging

type Tier struct {
	Name     string
	TimeoutS int
	RetryS   int
	All      bool
}

var quickTier = Tier{"quick", 10, 30, false}
var thoroughTier = Tier{"thorough", 60, 0, true}

// batchDischarge sends groups of obligations to one z3-new process each (push /
// pop around every obligation, per-query timeout). Only definite answers are
// taken: unsat discharges an obligation, sat satisfies a cover query; everything
// else falls through to the individual solver race (which also produces models).
func (e *Engine) batchDischarge(workdir string) {
	var pending []*Obligation
	qmemo := map[*Term]bool{}
	for _, o := range e.obls {
		if o.Verdict == "" && o.LangLeft == nil {
			// quantified obligations are decided one by one (with the weaker-query attempts); inside a batch each
			// of them would sit out its time limit while the others wait
			quant := o.Goal != nil && hasQuantifier(o.Goal, qmemo)
			for _, h := range o.Hyps {
				if quant {
					break
				}
				quant = hasQuantifier(h, qmemo)
			}
			if !quant {
				pending = append(pending, o)
			}
		}
	}
	if len(pending) < 40 {
		return
	}
	const chunk = 48
	var wg sync.WaitGroup
	sem := make(chan struct{}, 16)
	os.MkdirAll(workdir, 0o755)
	for i := 0; i < len(pending); i += chunk {
		j := i + chunk
		if j > len(pending) {
			j = len(pending)
		}
		group := pending[i:j]
		idx := i / chunk
		wg.Add(1)
		go func() {
			defer wg.Done()
			sem <- struct{}{}
			defer func() { <-sem }()
			p := &smtPrinter{decls: map[string]decl{}, memo: map[string]string{}}
			sliced := make([][]*Term, len(group))
			goals := make([]*Term, len(group))
			for gi, o := range group {
				sliced[gi], goals[gi] = SliceHyps(o.Hyps, o.Goal), o.Goal
				if o.AbsPrefix && !o.Cover {
					sliced[gi], goals[gi] = AbstractPrefix(sliced[gi], goals[gi])
				}
			}
			for gi := range group {
				for _, h := range sliced[gi] {
					p.collect(h, nil)
				}
				if goals[gi] != nil {
					p.collect(goals[gi], nil)
				}
			}
			var sb strings.Builder
			sb.WriteString("(set-option :timeout 3000)\n(set-logic ALL)\n")
			names := append([]string(nil), p.order...)
			sort.Strings(names)
			for _, n := range names {
				d := p.decls[n]
				var as []string
				for _, a := range d.args {
					as = append(as, a.String())
				}
				fmt.Fprintf(&sb, "(declare-fun %s (%s) %s)\n", smtName(n), strings.Join(as, " "), d.res)
			}
			for gi, o := range group {
				sb.WriteString("(push 1)\n")
				for _, h := range sliced[gi] {
					fmt.Fprintf(&sb, "(assert %s)\n", p.print(h))
				}
				if goals[gi] != nil {
					fmt.Fprintf(&sb, "(assert (not %s))\n", p.print(goals[gi]))
				}
				_ = o
				sb.WriteString("(check-sat)\n(pop 1)\n")
			}
			file := filepath.Join(workdir, fmt.Sprintf("batch-%04d.smt2", idx))
			os.WriteFile(file, []byte(sb.String()), 0o644)
			t0 := time.Now()
			ctx, cancel := context.WithTimeout(context.Background(), time.Duration(4*len(group)+10)*time.Second)
			defer cancel()
			out, _ := exec.CommandContext(ctx, "z3-new", file).CombinedOutput()
			secs := time.Since(t0).Seconds() / float64(len(group))
			var verdicts []string
			for _, line := range strings.Split(string(out), "\n") {
				line = strings.TrimSpace(line)
				if line == "sat" || line == "unsat" || line == "unknown" || line == "timeout" {
					verdicts = append(verdicts, line)
				} else if strings.HasPrefix(line, "(error") {
					verdicts = nil // do not trust a batch with errors
					break
				}
			}
			if len(verdicts) != len(group) {
				return
			}
			for k, o := range group {
				switch {
				case verdicts[k] == "unsat" && !o.Cover:
					o.Verdict, o.Solver, o.Secs = "unsat", "z3-new(batch)", secs
				case verdicts[k] == "sat" && o.Cover:
					o.Verdict, o.Solver, o.Secs = "sat", "z3-new(batch)", secs
				}
			}
			if !keepSMT {
				os.Remove(file)
			}
		}()
	}
	wg.Wait()
}

func (e *Engine) Discharge(tier Tier, workdir string) {
	if !tier.All {
		e.batchDischarge(workdir)
	}
	var wg sync.WaitGroup
	sem := make(chan struct{}, 12)
	for _, o := range e.obls {
		if o.Verdict != "" {
			continue
		}
		o := o
		wg.Add(1)
		go func() {
			defer wg.Done()
			sem <- struct{}{}
			defer func() { <-sem }()
			e.dischargeOne(o, tier, workdir)
		}()
	}
	wg.Wait()
}

func (e *Engine) dischargeOne(o *Obligation, tier Tier, workdir string) {
	t0 := time.Now()
	defer func() { o.Secs = time.Since(t0).Seconds() }()
	if o.LangLeft != nil {
		e.dischargeLang(o, tier, workdir)
		return
	}
	extra := ""
	if o.Cover {
		// a cover query looks for a contradiction among the assumptions; quantified assumptions (representation
		// invariants) are left out of it: with them the solvers only ever answer "unknown" after the time limit
		qm := map[*Term]bool{}
		var keep []*Term
		for _, h := range o.Hyps {
			if !hasQuantifier(h, qm) {
				keep = append(keep, h)
			}
		}
		o.Hyps = keep
	}
	hy, gl := SliceHyps(o.Hyps, o.Goal), o.Goal
	if o.AbsPrefix && !o.Cover {
		hy, gl = AbstractPrefix(hy, gl)
	}
	q := SMTQuery(hy, gl, extra, true)
	if len(q) > 4_000_000 {
		o.Verdict = "error"
		o.Output = fmt.Sprintf("VC too large (%d bytes): function is outside reach", len(q))
		return
	}
	var res SolverResult
	// Weaker queries (sound: each only drops or abstracts hypotheses / theory facts, and only "unsat" is accepted from
	// them): local proof attempts from the most recent hypotheses or from the last asserted stepping stones, and the
	// string abstraction (String as an uninterpreted sort) for arguments in which strings are only opaque values.
	type attempt struct {
		label string
		query string
	}
	var weaker []attempt
	if !o.Cover {
		if aq, ok := AbstractStringsQuery(q); ok && (strings.Contains(q, "(forall") || strings.Contains(q, "(exists")) {
			weaker = append(weaker, attempt{"string abstraction", aq})
		}
		if !o.AbsPrefix && strings.Count(q, "str.prefixof") >= 3 {
			// chains of append-only facts: the prefix relation as an abstract order (reflexive, transitive instances)
			ph, pg := AbstractPrefix(hy, gl)
			weaker = append(weaker, attempt{"prefix order abstracted", SMTQuery(ph, pg, extra, true)})
		}
		if len(o.Hyps) > 120 {
			uniq := DedupeHyps(o.Hyps)
			for _, win := range []int{12, 40, -2, -8} {
				if win >= len(uniq) {
					continue
				}
				var sel []*Term
				label := ""
				if win > 0 {
					sel = uniq[len(uniq)-win:]
					label = fmt.Sprintf("last %d hypotheses", win)
				} else {
					var keys []int
					for i, h := range uniq {
						if keyFacts[h] {
							keys = append(keys, i)
						}
					}
					if len(keys) == 0 {
						continue
					}
					if len(keys) > -win {
						keys = keys[len(keys)+win:]
					}
					for _, i := range keys {
						sel = append(sel, uniq[i])
					}
					if len(uniq) > 12 {
						sel = append(sel, uniq[len(uniq)-12:]...)
					}
					label = fmt.Sprintf("last %d asserted stepping stones", -win)
				}
				wh, wg := SliceHyps(sel, o.Goal), o.Goal
				if o.AbsPrefix {
					wh, wg = AbstractPrefix(wh, wg)
				}
				wq := SMTQuery(wh, wg, extra, true)
				if aq, ok := AbstractStringsQuery(wq); ok {
					weaker = append(weaker, attempt{label + ", string abstraction", aq})
				} else {
					weaker = append(weaker, attempt{label, wq})
				}
			}
		}
	}
	if o.Cover && strings.Contains(q, "(forall") {
		// a cover query only has to find a contradiction; with quantified hypotheses "sat" is out of reach anyway
		to := tier.TimeoutS
		if to > 4 {
			to = 4
		}
		res = RunSolvers(q, to, false, workdir, o.Name)
	} else if len(weaker) == 0 {
		res = RunSolvers(q, tier.TimeoutS, tier.All, workdir, o.Name)
	} else {
		type wres struct {
			r     SolverResult
			label string
		}
		ch := make(chan wres, len(weaker)+1)
		actx, acancel := context.WithCancel(context.Background())
		defer acancel()
		go func() { ch <- wres{RunSolversCtx(actx, q, tier.TimeoutS, tier.All, workdir, o.Name), ""} }()
		for i, a := range weaker {
			i, a := i, a
			go func() {
				ch <- wres{RunSolversCtx(actx, a.query, tier.TimeoutS, false, workdir, fmt.Sprintf("%s.weak%d", o.Name, i)), a.label}
			}()
		}
		for i := 0; i <= len(weaker); i++ {
			w := <-ch
			if w.label == "" {
				if res.Verdict != "unsat" {
					res = w.r
				}
			} else if w.r.Verdict == "unsat" && res.Verdict != "unsat" {
				w.r.Solver += " (" + w.label + ")"
				res = w.r
			}
			if res.Verdict == "unsat" {
				break
			}
		}
	}
	if (res.Verdict == "timeout" || res.Verdict == "unknown" || res.Verdict == "") && tier.RetryS > 0 && !o.Cover {
		res = RunSolvers(q, tier.RetryS, true, workdir, o.Name)
	}
	o.Verdict, o.Solver, o.Output = res.Verdict, res.Solver, res.Output
	if tier.All {
		var parts []string
		for _, k := range sortedKeys(res.All) {
			parts = append(parts, k+"="+res.All[k])
		}
		o.Solver += " [" + strings.Join(parts, " ") + "]"
	}
}

func (e *Engine) dischargeLang(o *Obligation, tier Tier, workdir string) {
	diff := reAnd(o.LangLeft, reNot(o.LangRight))
	w, found, states, err := reWitness(diff, 0)
	own := "unsat"
	if err != nil {
		own = "unknown"
	} else if found {
		own = "sat"
	}
	o.Solver = fmt.Sprintf("reglang-derivatives(%d states)", states)
	o.Verdict = own
	if found {
		o.Witness, o.HasWitness = w, true
	}
	// cross-check with z3-new's regex solver (required to agree in the thorough tier; fallback in quick)
	if tier.All || own == "unknown" {
		q := "(set-logic ALL)\n(declare-const s String)\n(assert (str.in_re s " + o.LangLeft.SMT() + "))\n(assert (not (str.in_re s " + o.LangRight.SMT() + ")))\n(check-sat)\n(get-model)\n"
		res := RunSolvers(q, tier.TimeoutS, false, workdir, o.Name)
		o.Solver += " + " + res.Solver + ":" + res.Verdict
		switch {
		case own == "unknown":
			o.Verdict = res.Verdict
			o.Output = res.Output
		case (res.Verdict == "sat" || res.Verdict == "unsat") && res.Verdict != own:
			o.Verdict = "disagree"
			o.Output = "reglang says " + own + ", " + res.Solver + " says " + res.Verdict + "\n" + res.Output
		}
	}
}

func hasQuantifier(t *Term, memo map[*Term]bool) bool {
	if t == nil {
		return false
	}
	if v, ok := memo[t]; ok {
		return v
	}
	r := t.Op == "forall" || t.Op == "exists"
	for _, a := range t.Args {
		if r {
			break
		}
		r = hasQuantifier(a, memo)
	}
	memo[t] = r
	return r
}
