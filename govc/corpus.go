package main

// Generated-code corpus: templates are regenerated with the parser and
// generator of the repository under verification on every run, into a scratch
// module outside /repo and /verif, and the generated closures are verified
// against the generated-code contract.

import (
	"bytes"
	"encoding/json"
	"fmt"
	"go/ast"
	"go/types"
	"os"
	"os/exec"
	"path/filepath"
	"sort"
	"strings"

	"golang.org/x/tools/go/packages"
)

type corpusMeta struct {
	Dir       string          `json:"dir"`
	File      string          `json:"file"`
	Literals  []string        `json:"literals"`
	SourceMap json.RawMessage `json:"sourceMap"`
	Error     string          `json:"error,omitempty"`
}

type Corpus struct {
	Dir   string
	Metas []corpusMeta
	Pkgs  []*packages.Package
	Skip  map[string]string // dir -> reason
	// Broken: directories whose regenerated code does not type-check (dir -> first error)
	Broken map[string]string
}

func copyFile(src, dst string) error {
	data, err := os.ReadFile(src)
	if err != nil {
		return err
	}
	os.MkdirAll(filepath.Dir(dst), 0o755)
	return os.WriteFile(dst, data, 0o644)
}

func goEnv() []string {
	return append(os.Environ(), "GOFLAGS=-mod=mod", "GOPROXY=off", "GOSUMDB=off", "GOTOOLCHAIN=local")
}

// BuildCorpus regenerates the corpus. only, if non-empty, restricts the corpus to the named directories.
// A directory of /verif/corpus that holds a file PROPS (property ids separated by white space) is part of the corpus of
// those properties only.
func (r *Run) BuildCorpus(only map[string]bool, prop string) (*Corpus, error) {
	scratch, err := os.MkdirTemp("", "govc-corpus-")
	if err != nil {
		return nil, err
	}
	c := &Corpus{Dir: scratch, Skip: map[string]string{}, Broken: map[string]string{}}
	gomod := "module verifcorpus\n\ngo 1.23.0\n\nrequire github.com/a-h/templ v0.0.0\n\nreplace github.com/a-h/templ => " + r.repo + "\n"
	os.WriteFile(filepath.Join(scratch, "go.mod"), []byte(gomod), 0o644)
	copyFile(filepath.Join(r.repo, "go.sum"), filepath.Join(scratch, "go.sum"))
	if err := copyFile(filepath.Join(r.verif, "corpusgen", "main.go.txt"), filepath.Join(scratch, "cmd", "corpusgen", "main.go")); err != nil {
		return c, err
	}
	croot := filepath.Join(scratch, "corpus")
	addDir := func(src, name string) {
		if len(only) > 0 && !only[name] {
			return
		}
		ents, _ := os.ReadDir(src)
		for _, e := range ents {
			n := e.Name()
			if e.IsDir() || strings.HasSuffix(n, "_test.go") || strings.HasSuffix(n, "_templ.go") {
				continue
			}
			if strings.HasSuffix(n, ".templ") || strings.HasSuffix(n, ".go") {
				copyFile(filepath.Join(src, n), filepath.Join(croot, name, n))
			}
			if strings.HasSuffix(n, "_test.go.txt") {
				// replay oracle shipped with a corpus template
				copyFile(filepath.Join(src, n), filepath.Join(croot, name, strings.TrimSuffix(n, ".txt")))
			}
		}
	}
	gens, _ := filepath.Glob(filepath.Join(r.repo, "generator", "test-*"))
	sort.Strings(gens)
	for _, g := range gens {
		addDir(g, strings.ReplaceAll(filepath.Base(g), "-", "_"))
	}
	extra, _ := filepath.Glob(filepath.Join(r.verif, "corpus", "*"))
	sort.Strings(extra)
	for _, g := range extra {
		if st, err := os.Stat(g); err == nil && st.IsDir() {
			if data, err := os.ReadFile(filepath.Join(g, "PROPS")); err == nil {
				mine := false
				for _, f := range strings.Fields(string(data)) {
					mine = mine || f == prop
				}
				if !mine {
					continue
				}
			}
			addDir(g, "x_"+strings.ReplaceAll(filepath.Base(g), "-", "_"))
		}
	}
	cmd := exec.Command("go", "run", "./cmd/corpusgen", croot)
	cmd.Dir = scratch
	cmd.Env = goEnv()
	var buf bytes.Buffer
	cmd.Stdout = &buf
	cmd.Stderr = &buf
	if err := cmd.Run(); err != nil {
		return c, fmt.Errorf("corpusgen failed: %v\n%s", err, firstLines(buf.String(), 12))
	}
	data, err := os.ReadFile(filepath.Join(croot, "corpus.json"))
	if err != nil {
		return c, err
	}
	if err := json.Unmarshal(data, &c.Metas); err != nil {
		return c, err
	}
	for _, m := range c.Metas {
		if m.Error != "" {
			c.Skip[m.Dir] = m.Error
		}
	}
	return c, nil
}

func (c *Corpus) Remove() {
	if c != nil && c.Dir != "" {
		os.RemoveAll(c.Dir)
	}
}

// LoadCorpus type-checks the regenerated packages together with the templ
// packages whose contracts they are verified against.
func (r *Run) LoadCorpus(c *Corpus) error {
	cfg := &packages.Config{
		Mode: packages.NeedName | packages.NeedSyntax | packages.NeedTypes | packages.NeedTypesInfo |
			packages.NeedFiles | packages.NeedImports | packages.NeedDeps | packages.NeedCompiledGoFiles,
		Dir:        c.Dir,
		BuildFlags: []string{"-tags=verif"},
		Env:        goEnv(),
	}
	pkgs, err := packages.Load(cfg, "./corpus/...", modulePath, modulePath+"/runtime", modulePath+"/safehtml")
	if err != nil {
		return err
	}
	for _, p := range pkgs {
		if strings.HasPrefix(p.PkgPath, "verifcorpus/") {
			if len(p.Errors) > 0 {
				c.Skip[filepath.Base(p.PkgPath)] = "does not type-check: " + p.Errors[0].Error()
				c.Broken[filepath.Base(p.PkgPath)] = p.Errors[0].Error()
				continue
			}
			c.Pkgs = append(c.Pkgs, p)
			r.e.addPkg(p)
			continue
		}
		if len(p.Errors) > 0 {
			return fmt.Errorf("package %s: %v", p.PkgPath, p.Errors[0])
		}
		r.e.addPkg(p)
	}
	sort.Slice(c.Pkgs, func(i, j int) bool { return c.Pkgs[i].PkgPath < c.Pkgs[j].PkgPath })
	return nil
}

// genClosure is one function literal passed to templruntime.GeneratedTemplate.
type genClosure struct {
	pkg      *packages.Package
	decl     *ast.FuncDecl
	lit      *ast.FuncLit
	ordinal  int  // N-th function literal inside decl (source order, 1-based)
	topLevel bool // a template body (checks ctx.Err()) rather than a child block
	name     string
}

func (r *Run) generatedClosures(c *Corpus) []*genClosure {
	var out []*genClosure
	for _, p := range c.Pkgs {
		for _, f := range p.Syntax {
			fname := p.Fset.Position(f.Pos()).Filename
			if !strings.HasSuffix(fname, "_templ.go") {
				continue
			}
			for _, d := range f.Decls {
				fd, ok := d.(*ast.FuncDecl)
				if !ok || fd.Body == nil {
					continue
				}
				n := 0
				depth := 0
				var stack []ast.Node
				ast.Inspect(fd.Body, func(x ast.Node) bool {
					if x == nil {
						top := stack[len(stack)-1]
						stack = stack[:len(stack)-1]
						if _, ok := top.(*ast.FuncLit); ok {
							depth--
						}
						return true
					}
					stack = append(stack, x)
					if fl, ok := x.(*ast.FuncLit); ok {
						n++
						depth++
						// is it the argument of templruntime.GeneratedTemplate?
						if len(stack) >= 2 {
							if call, ok := stack[len(stack)-2].(*ast.CallExpr); ok {
								if fn := calleeFunc(p.TypesInfo, call); fn != nil && fn.FullName() == modulePath+"/runtime.GeneratedTemplate" {
									recv := ""
									if fd.Recv != nil && len(fd.Recv.List) > 0 {
										recv = recvTypeName(fd.Recv.List[0].Type) + "."
									}
									out = append(out, &genClosure{pkg: p, decl: fd, lit: fl, ordinal: n, topLevel: depth == 1,
										name: fmt.Sprintf("%s.%s%s$%d", filepath.Base(p.PkgPath), recv, fd.Name.Name, n)})
								}
							}
						}
					}
					return true
				})
			}
		}
	}
	return out
}

var _ = types.Universe

// runCorpusTest runs a replay test that ships with a corpus template, inside the scratch module.
func (r *Run) runCorpusTest(dir, runName string) (string, error) {
	if r.corpus == nil {
		return "", fmt.Errorf("no corpus")
	}
	cmd := exec.Command("go", "test", "-vet=off", "-count=1", "-v", "-timeout", "120s", "-run", "^"+runName+"$", "./corpus/"+dir)
	cmd.Dir = r.corpus.Dir
	cmd.Env = goEnv()
	var buf bytes.Buffer
	cmd.Stdout = &buf
	cmd.Stderr = &buf
	err := cmd.Run()
	return buf.String(), err
}
