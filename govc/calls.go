package main

import (
	"fmt"
	"go/ast"
	"go/token"
	"go/types"
	"math/big"
	"os"
	"strings"
)

type bigInt = big.Int

var bigOne = big.NewInt(1)

func (ec *evalCtx) evalCall(call *ast.CallExpr) Value {
	if ec.spec {
		return ec.specCall(call)
	}
	// conversion?
	if tv, ok := ec.info.Types[call.Fun]; ok && tv.IsType() {
		return ec.evalConversion(call, tv.Type)
	}
	// builtin?
	if id, ok := ast.Unparen(call.Fun).(*ast.Ident); ok {
		if b, ok := ec.info.Uses[id].(*types.Builtin); ok {
			return ec.evalBuiltin(b.Name(), call)
		}
	}
	// sync/atomic on an addressable integer: the location is shared with other goroutines, so what is read is
	// unconstrained (within the type) and what is written is forgotten at once
	if f := calleeFunc(ec.info, call); f != nil && f.Pkg() != nil && f.Pkg().Path() == "sync/atomic" && len(call.Args) >= 1 {
		if ue, ok := ast.Unparen(call.Args[0]).(*ast.UnaryExpr); ok && ue.Op == token.AND {
			lv := ec.lvalue(ue.X)
			t := ec.info.TypeOf(ue.X)
			for _, a := range call.Args[1:] {
				ec.eval(a)
			}
			fresh := ec.e().freshValue(ec.st, "atomic."+f.Name(), t, false)
			lv.set(ec.e().freshValue(ec.st, "atomic.cell", t, false))
			ec.e().notes = appendUnique(ec.e().notes, "sync/atomic operations: the value read is unconstrained within its type (other goroutines), the cell is unknown afterwards")
			switch {
			case strings.HasPrefix(f.Name(), "Add"), strings.HasPrefix(f.Name(), "Load"), strings.HasPrefix(f.Name(), "Swap"):
				return fresh
			case strings.HasPrefix(f.Name(), "Store"):
				return nil
			case strings.HasPrefix(f.Name(), "CompareAndSwap"):
				return Var(ec.e().fresher.name("atomic.cas"), SBool)
			}
			panic(unsupported("sync/atomic.%s", f.Name()))
		}
	}
	var recv Value
	if sel, ok := ast.Unparen(call.Fun).(*ast.SelectorExpr); ok {
		if s := ec.info.Selections[sel]; s != nil && s.Kind() == types.MethodVal {
			recv = ec.eval(sel.X)
		}
	}
	var args []Value
	sig, _ := ec.info.TypeOf(call.Fun).(*types.Signature)
	_, argIsTuple := ec.info.TypeOf(firstOrNil(call.Args)).(*types.Tuple)
	if len(call.Args) == 1 && sig != nil && argIsTuple {
		tv := ec.eval(call.Args[0]).(*TupleV)
		tup := ec.info.TypeOf(call.Args[0]).(*types.Tuple)
		for i, v := range tv.Vs {
			var pt types.Type
			if sig.Variadic() && i >= sig.Params().Len()-1 {
				pt = sig.Params().At(sig.Params().Len() - 1).Type().(*types.Slice).Elem()
			} else if i < sig.Params().Len() {
				pt = sig.Params().At(i).Type()
			}
			if i < tup.Len() {
				v = ec.convertTo(v, tup.At(i).Type(), pt)
			}
			args = append(args, v)
		}
		// f(g()) with variadic f: pack the tail
		if sig.Variadic() {
			n := sig.Params().Len() - 1
			if len(args) >= n {
				rest := args[n:]
				var packed Value = nilSlice()
				if len(rest) > 0 {
					packed = sliceLit(append([]Value(nil), rest...))
				}
				args = append(append([]Value(nil), args[:n]...), packed)
			}
		}
	} else {
		for i, a := range call.Args {
			v := ec.eval(a)
			if sig != nil {
				var pt types.Type
				if sig.Variadic() && i >= sig.Params().Len()-1 {
					if call.Ellipsis.IsValid() {
						pt = sig.Params().At(sig.Params().Len() - 1).Type()
					} else {
						pt = sig.Params().At(sig.Params().Len() - 1).Type().(*types.Slice).Elem()
					}
				} else if i < sig.Params().Len() {
					pt = sig.Params().At(i).Type()
				}
				v = ec.convertTo(v, ec.info.TypeOf(a), pt)
			}
			args = append(args, v)
		}
		// pack variadic
		if sig != nil && sig.Variadic() && !call.Ellipsis.IsValid() {
			n := sig.Params().Len() - 1
			if len(args) >= n {
				rest := args[n:]
				var packed Value
				if len(rest) == 0 {
					packed = nilSlice()
				} else {
					packed = sliceLit(append([]Value(nil), rest...))
				}
				args = append(append([]Value(nil), args[:n]...), packed)
			}
		}
	}
	// lemma uses / ghost asserts registered "before <call>" see the evaluated arguments as arg0, arg1, ...
	argScope := map[string]Value{}
	for i, a := range args {
		argScope[fmt.Sprintf("arg%d", i)] = a
	}
	ec.fc.applyUsesScope(ec.st, "before "+ec.fc.callTag[call], argScope)
	if ec.fc.gen != nil {
		ec.genHook(call, calleeFunc(ec.info, call), recv, args)
	}
	v := ec.callWith(call, recv, args)
	if ec.fc.gen != nil {
		ec.genPostHook(call, calleeFunc(ec.info, call), v)
	}
	// clauses registered "after <call>" also see the results as result0, result1, ... (result for a single one)
	resScope := map[string]Value{}
	for k, a := range argScope {
		resScope[k] = a
	}
	switch rv := v.(type) {
	case *TupleV:
		for i, x := range rv.Vs {
			resScope[fmt.Sprintf("result%d", i)] = x
		}
	case nil:
	default:
		resScope["result0"] = rv
		resScope["result"] = rv
	}
	ec.fc.applyUsesScope(ec.st, "after "+ec.fc.callTag[call], resScope)
	return v
}

// callWith performs the call with already evaluated receiver and arguments.
func (ec *evalCtx) callWith(call *ast.CallExpr, recv Value, args []Value) Value {
	fn := calleeFunc(ec.info, call)
	sig, _ := ec.info.TypeOf(call.Fun).(*types.Signature)
	if sig == nil {
		if ft := ec.info.TypeOf(call.Fun); ft != nil {
			sig, _ = ft.Underlying().(*types.Signature) // a value of a named function type
		}
	}
	if fn != nil {
		full := fn.Origin().FullName()
		if m, ok := stdModels[full]; ok {
			ec.e().trusted["std:"+full] = true
			return m(ec, call, recv, args)
		}
		if c := ec.e().contractForFunc(fn); c != nil {
			if c.Inline {
				return ec.inlineCall(c, fn, call, recv, args)
			}
			return ec.applyContract(c, fn, call, recv, args, sig)
		}
		// interface method with an interface contract
		if ic := ec.e().ifaceContract(fn); ic != nil {
			return ec.applyContract(ic, fn, call, recv, args, sig)
		}
		// a concrete method without a contract of its own whose shape is that of an interface method under contract
		// (parse.Parser.Parse): the interface contract is assumed for it
		if ic := ec.e().cs.Contracts["github.com/a-h/parse.Parser.Parse"]; ic != nil && ic.Iface && fn.Name() == "Parse" {
			if fs, ok := fn.Type().(*types.Signature); ok && fs.Recv() != nil && fs.Params().Len() == 1 && fs.Results().Len() == 3 &&
				types.TypeString(fs.Params().At(0).Type(), nil) == "*github.com/a-h/parse.Input" && isErrorType(fs.Results().At(2).Type()) {
				ec.e().trusted["methods with the shape of parse.Parser.Parse are assumed to satisfy its interface contract ("+fn.FullName()+")"] = true
				// the contract is written over the interface method's parameter names
				if im := ec.e().ifaceMethod(ic); im != nil {
					return ec.applyContract(ic, im, call, nil, args, sig)
				} else if os.Getenv("GOVC_DEBUG") != "" {
					fmt.Fprintf(os.Stderr, "ifaceMethod nil: pkg=%q recv=%q name=%q havepkg=%v\n", ic.Pkg, ic.Recv, ic.Name, ec.e().pkgs[ic.Pkg] != nil)
				}
				return ec.applyContract(ic, fn, call, recv, args, sig)
			}
		}
	} else if fv, ok := ec.eval(call.Fun).(*FuncV); ok && (fv.Lit != nil || fv.AltC != nil) {
		return ec.callClosure(fv, call, args)
	} else if ok && len(fv.Cands) > 0 {
		return ec.callCandidates(fv, call, args, sig)
	}
	return ec.havocCall(call, fn, recv, args, sig)
}

// pureCallee: callees without contract or model whose result is taken to be a function of the arguments and which
// modify nothing the caller can see: the value-level standard library (strings, strconv, unicode, bytes functions,
// path, html, url, fmt.Sprint*, errors, hashes, hex/base64, math, sort.Search*), conversions-like helpers. Everything
// else - module functions without contract, methods of interfaces without contract, function values, I/O - may
// return something new on every call and may change whatever it can reach.
func pureCallee(fn *types.Func) bool {
	if os.Getenv("GOVC_LAX_HAVOC") != "" {
		return true
	}
	if fn == nil || fn.Pkg() == nil {
		return false
	}
	if strings.HasPrefix(fn.Pkg().Path(), "verifcorpus/") {
		// functions of the template corpus itself (user code called from template expressions): the properties about
		// generated code assume user expressions to be deterministic and without effect on the render state
		return true
	}
	sig, _ := fn.Type().(*types.Signature)
	isMethod := sig != nil && sig.Recv() != nil
	switch p := fn.Pkg().Path(); p {
	case "strings", "strconv", "unicode", "unicode/utf8", "unicode/utf16", "path", "path/filepath", "html", "net/url", "errors",
		"crypto/sha256", "crypto/sha1", "crypto/md5", "encoding/hex", "encoding/base64", "math", "math/bits", "slices", "maps", "cmp", "mime":
		if isMethod {
			// methods of value types of these packages (url.URL.String, strings.Replacer.Replace ...) read only
			_, ptr := sig.Recv().Type().(*types.Pointer)
			if !ptr {
				return true
			}
			full := fn.FullName()
			return strings.HasPrefix(full, "(*strings.Replacer)") || (p == "net/url" && (strings.HasPrefix(full, "(*net/url.URL).") && !strings.Contains(full, "Unmarshal")))
		}
		return true
	case "bytes":
		return !isMethod
	case "fmt":
		return strings.HasPrefix(fn.Name(), "Sprint") || fn.Name() == "Errorf"
	case "sort":
		return strings.HasPrefix(fn.Name(), "Search") || strings.HasSuffix(fn.Name(), "AreSorted")
	case "time":
		// Duration / Time arithmetic, formatting and construction; time.Now() and time.Since() are not
		return isMethod || fn.Name() == "Date" || fn.Name() == "Unix" || fn.Name() == "UnixMilli" || fn.Name() == "ParseDuration"
	case "reflect":
		return fn.Name() == "TypeOf" || fn.Name() == "DeepEqual"
	}
	return false
}

// havocCall: result is an uninterpreted function of the argument terms.
func (ec *evalCtx) havocCall(call *ast.CallExpr, fn *types.Func, recv Value, args []Value, sig *types.Signature) Value {
	name := exprString(call.Fun)
	if fn != nil {
		name = fn.Origin().FullName()
	}
	if sig == nil {
		panic(unsupported("call of %s without signature", name))
	}
	pure := pureCallee(fn)
	if !pure && fn != nil && ec.e().cs != nil && ec.e().cs.AssumePure[fn.Origin().FullName()] {
		pure = true
		ec.e().trusted["assumed pure (deterministic, no effects; assumepure directive): "+fn.Origin().FullName()] = true
	}
	if pure {
		ec.e().havocked[name] = true
	} else {
		ec.e().havockedImpure[name] = true
		// anything reachable through the receiver and the arguments may be changed by the callee
		ec.argsOnly = true
		ec.havocReachable(recv, args)
		ec.argsOnly = false
	}
	// a function literal handed to an unknown callee may be run by it: the variables of the enclosing function that
	// the literal assigns become unknown
	for _, a := range args {
		if fv, ok := a.(*FuncV); ok && fv.Lit != nil && ec.fc != nil {
			var outer []modTarget
			for _, t := range ec.fc.assignedIn(fv.Lit.Body) {
				if t.obj != nil && !(t.obj.Pos() >= fv.Lit.Pos() && t.obj.Pos() < fv.Lit.End()) {
					outer = append(outer, t)
				}
			}
			ec.fc.havoc(ec.st, outer, nil)
		}
	}
	// an unmodelled method of a header map may change it: its ghost view becomes unknown
	if mv, ok := recv.(*MapV); ok && fn != nil && strings.HasPrefix(fn.FullName(), "(net/http.Header).") {
		ec.headerLval(mv).set(Var(ec.e().fresher.name("hdr.havoc"), SArr(SStr, SStr)))
	}
	var leaves []*Term
	ok := true
	var flat func(v Value)
	flat = func(v Value) {
		switch x := v.(type) {
		case *Term:
			leaves = append(leaves, x)
		case *StructV:
			for _, n := range x.Names {
				flat(x.F[n])
			}
		case *IfaceV:
			leaves = append(leaves, x.Tag, x.Id)
		case *PtrV:
			leaves = append(leaves, x.Nil, Int(int64(x.Obj)))
		case *FuncV:
			leaves = append(leaves, x.Id)
		case nil:
		default:
			ok = false
		}
	}
	if recv != nil {
		flat(recv)
	}
	for _, a := range args {
		flat(a)
	}
	mkRes := func(i int, t types.Type) Value {
		hint := fmt.Sprintf("%s.ret%d", stripPkg(name), i)
		if !pure {
			// not known to be a function of its arguments: every call gives a new unknown
			return ec.e().freshValue(ec.st, hint, t, false)
		}
		if ok {
			switch {
			case isStringLike(t):
				return App("havoc:"+name+fmt.Sprintf("#%d", i), SStr, leaves...)
			case isErrorType(t):
				return App("havoc:"+name+fmt.Sprintf("#%d", i), SInt, leaves...)
			}
			if b, isB := t.Underlying().(*types.Basic); isB {
				if b.Info()&types.IsBoolean != 0 {
					return App("havoc:"+name+fmt.Sprintf("#%d", i), SBool, leaves...)
				}
				if ii, isInt := intKind(t); isInt {
					r := App("havoc:"+name+fmt.Sprintf("#%d", i), SInt, leaves...)
					ec.st.Assume(rangeAssumption(r, ii))
					return r
				}
			}
		}
		if ok && len(leaves) > 0 {
			if foreignStruct(t) {
				sig := ""
				for _, l := range leaves {
					sig += l.Sort.Kind[:1]
				}
				return App(fmt.Sprintf("havoc:%s#%d/%s.opaque", name, i, sig), SInt, leaves...)
			}
		}
		return ec.e().freshValue(ec.st, hint, t, false)
	}
	noteErr := func(v Value, t types.Type) Value {
		if isErrorType(t) {
			ec.noteFailure(Not(Eq(scalar(v), Int(0))))
		}
		return v
	}
	switch sig.Results().Len() {
	case 0:
		return nil
	case 1:
		return noteErr(mkRes(0, sig.Results().At(0).Type()), sig.Results().At(0).Type())
	}
	tv := &TupleV{}
	for i := 0; i < sig.Results().Len(); i++ {
		tv.Vs = append(tv.Vs, noteErr(mkRes(i, sig.Results().At(i).Type()), sig.Results().At(i).Type()))
	}
	return tv
}

func (ec *evalCtx) evalBuiltin(name string, call *ast.CallExpr) Value {
	switch name {
	case "len", "cap":
		v := ec.derefArr(ec.eval(call.Args[0]))
		switch x := v.(type) {
		case *SliceV:
			return x.Len
		case *Term:
			return StrLen(x)
		case *MapV:
			return ec.mapLen(x)
		}
		panic(unsupported("len of %T", v))
	case "append":
		base := ec.eval(call.Args[0])
		if t, ok := base.(*Term); ok && t.Sort == SStr {
			// []byte append
			res := t
			for i, a := range call.Args[1:] {
				v := scalar(ec.eval(a))
				if call.Ellipsis.IsValid() && i == len(call.Args)-2 {
					res = Concat(res, v)
				} else {
					res = Concat(res, FromCode(v))
				}
			}
			return res
		}
		s, ok := base.(*SliceV)
		if !ok {
			if _, isNil := base.(nilMarker); isNil {
				s = nilSlice()
			} else {
				panic(unsupported("append to %T", base))
			}
		}
		et := ec.info.TypeOf(call).Underlying().(*types.Slice).Elem()
		if call.Ellipsis.IsValid() {
			o := ec.eval(call.Args[1])
			if _, isNil := o.(nilMarker); isNil {
				return s
			}
			return sliceAppend(s, o.(*SliceV))
		}
		var elems []Value
		for _, a := range call.Args[1:] {
			elems = append(elems, ec.convertTo(ec.eval(a), ec.info.TypeOf(a), et))
		}
		return sliceAppend(s, sliceLit(elems))
	case "make":
		t := ec.info.TypeOf(call)
		switch u := t.Underlying().(type) {
		case *types.Slice:
			n := scalar(ec.eval(call.Args[1]))
			ec.oblige("bounds", Le(Int(0), n), call.Pos(), "make with negative length")
			if isStringLike(t) {
				// make([]byte, n): n zero bytes
				z := Var(ec.e().fresher.name("zeros"), SStr)
				ec.st.Assume(Eq(StrLen(z), n))
				ec.st.Assume(App("allzero", SBool, z))
				return z
			}
			zero := ec.e().zeroValue(ec.st, u.Elem())
			return &SliceV{Len: n, At: func(i *Term) Value { return zero }, Nil: False}
		case *types.Map:
			return ec.e().emptyMap(ec.st, u)
		case *types.Chan:
			// a channel is its identity; a channel made here is fresh (nobody else knows it) until a ghost
			// initialisation (init clause) binds its tag
			c := Var(ec.e().fresher.name("chan"), SInt)
			ec.st.Assume(Gt(c, Int(0)))
			capv := Int(0)
			if len(call.Args) > 1 {
				capv = scalar(ec.eval(call.Args[1]))
			}
			ec.st.Assume(Eq(App("chan.cap", SInt, c), capv))
			ec.st.ghost["chanfresh:"+c.Name] = True
			if ec.e().cs != nil && ec.e().closableElem(u.Elem()) {
				ec.st.ghost["chanown:"+c.Name] = True
				ec.st.ghost["chanopen"] = Store(chanOpenArr(ec.st), c, True)
			}
			return c
		}
		panic(unsupported("make(%s)", t))
	case "new":
		t := ec.info.TypeOf(call).Underlying().(*types.Pointer).Elem()
		return &PtrV{Nil: False, Obj: ec.e().allocObj(ec.st, ec.e().zeroValue(ec.st, t))}
	case "panic":
		ec.oblige("panic", False, call.Pos(), "explicit panic reachable")
		ec.st.Assume(False)
		return nil
	case "min", "max":
		r := scalar(ec.eval(call.Args[0]))
		for _, a := range call.Args[1:] {
			v := scalar(ec.eval(a))
			if name == "min" {
				r = Ite(Le(r, v), r, v)
			} else {
				r = Ite(Ge(r, v), r, v)
			}
		}
		return r
	case "close":
		cv := ec.eval(call.Args[0])
		if ct, ok := ec.info.TypeOf(call.Args[0]).Underlying().(*types.Chan); ok && ec.e().neverClosedElem(ct.Elem()) {
			ec.oblige("close", False, call.Pos(), "close("+exprText(call.Args[0])+"): channels of this element type are declared neverclosed - senders that hold no lock rely on it")
		}
		if ec.closableChan(call.Args[0]) {
			c := scalar(cv)
			own := False
			if c.Op == "var" {
				if f, ok := ec.st.ghost["chanown:"+c.Name].(*Term); ok {
					own = f
				}
			}
			ec.oblige("close", own, call.Pos(), "close("+exprText(call.Args[0])+"): only the activation that made a channel closes it, and only once")
			ec.oblige("close", Select(chanOpenArr(ec.st), c), call.Pos(), "close("+exprText(call.Args[0])+"): the channel must still be open (a second close panics)")
			// every lock whose invariant speaks about chanopen must be held: the invariant is re-proved at its release
			for _, li := range ec.e().cs.LockInvs {
				if !strings.Contains(li.Text, "chanopen") {
					continue
				}
				held := False
				for k, v := range ec.st.ghost {
					if strings.HasPrefix(k, "lock:") && strings.HasSuffix(k, "."+li.Mutex) {
						if t, ok := v.(*Term); ok {
							held = Or(held, t)
						}
					}
				}
				ec.oblige("close", held, call.Pos(), "close("+exprText(call.Args[0])+"): "+li.Type+"."+li.Mutex+" must be held - its invariant ("+li.Text+") speaks about which channels are open")
			}
			ec.st.ghost["chanopen"] = Store(chanOpenArr(ec.st), c, False)
			if c.Op == "var" {
				ec.st.ghost["chanown:"+c.Name] = False
			}
		}
		if ci := ec.chanInvOf(call.Args[0]); ci != nil {
			ec.oblige("send", False, call.Pos(), "close of a channel of "+ci.Elem+": receivers assume the channel invariant of every value received, a closed channel delivers zero values")
		}
		return nil
	case "delete":
		lv := ec.lvalue(call.Args[0])
		m := lv.get().(*MapV)
		k := keyTerm(ec.eval(call.Args[1]))
		n := *m
		n.Dom = Store(m.Dom, k, False)
		lv.set(&n)
		return nil
	case "copy":
		panic(unsupported("copy"))
	}
	panic(unsupported("builtin %s", name))
}

// ---------------------------------------------------------------------------
// Contract application at a call site

func (ec *evalCtx) bindFormals(fn *types.Func, recv Value, args []Value) map[string]Value {
	sig := fn.Origin().Type().(*types.Signature)
	scope := map[string]Value{}
	if sig.Recv() != nil && recv != nil {
		rv := recv
		// auto address / deref to match receiver kind
		_, wantPtr := sig.Recv().Type().(*types.Pointer)
		if _, isPtr := rv.(*PtrV); wantPtr && !isPtr {
			if bx, ok := rv.(*boxedV); ok {
				rv = &PtrV{Nil: False, Obj: bx.Obj}
			} else {
				rv = &PtrV{Nil: False, Obj: ec.e().allocObj(ec.st, rv)}
			}
		} else if p, isPtr := rv.(*PtrV); !wantPtr && isPtr {
			rv = ec.st.heap[p.Obj]
		}
		if n := sig.Recv().Name(); n != "" && n != "_" {
			scope[n] = rv
		}
		scope["$recv"] = rv
	}
	for i := 0; i < sig.Params().Len() && i < len(args); i++ {
		if n := sig.Params().At(i).Name(); n != "" && n != "_" {
			scope[n] = args[i]
		}
	}
	return scope
}

func (ec *evalCtx) applyContract(c *Contract, fn *types.Func, call *ast.CallExpr, recv Value, args []Value, sig *types.Signature) Value {
	fc := ec.fc
	e := ec.e()
	tag := fc.callTag[call]
	if tag == "" {
		tag = exprString(call.Fun)
	}
	scope := ec.bindFormals(fn, recv, args)
	preScope := copyScope(scope)
	calleePkg := e.pkgs[c.Pkg]
	pre := ec.st.Clone()
	sc := &evalCtx{fc: fc, st: ec.st, spec: true, scope: scope, pkg: calleePkg, noLocals: true, pol: 1}
	for k, r := range c.Requires {
		if !e.applies(r) {
			continue
		}
		t := sc.evalBool(r.Expr)
		fc.obligeNamed(ec.st, fmt.Sprintf("%s#call.%s.requires.%d", fc.name, tag, k+1), "requires", t, call.Pos(), r.Text)
	}
	// call-site clauses: read in the caller's scope (its locals and receiver) with the formals bound to the arguments
	for k, r := range c.CallSite {
		if !e.applies(r) {
			continue
		}
		cs := &evalCtx{fc: fc, st: ec.st, spec: true, scope: copyScope(scope), pkg: fc.pkg, pol: 1}
		var t *Term
		func() {
			defer func() {
				if p := recover(); p != nil {
					if u, ok := p.(unsupportedErr); ok {
						// the caller does not have what the clause talks about: the obligation cannot be met here
						t = False
						r = &Clause{Text: r.Text + " (not expressible at this call site: " + u.Error() + ")", Props: r.Props}
						return
					}
					panic(p)
				}
			}()
			t = cs.evalBool(r.Expr)
		}()
		fc.obligeNamed(ec.st, fmt.Sprintf("%s#call.%s.callsite.%d", fc.name, tag, k+1), "callsite", t, call.Pos(), r.Text)
	}
	e.usedContracts[c.Key()] = true
	if c.ModAll {
		ec.havocReachable(recv, args)
	}
	// havoc modifies
	osig := fn.Origin().Type().(*types.Signature)
	for mi, m := range c.Modifies {
		if sc.havocGhost(m) {
			continue
		}
		lv := sc.lvalue(m)
		var nv Value
		if rootIsCV(m) || c.Iface {
			nv = e.freshLike(ec.st, lv.get(), stripPkg(c.Name)+"."+c.ModText[mi])
		} else {
			var mt types.Type
			func() {
				defer func() {
					if r := recover(); r != nil {
						if _, ok := r.(unsupportedErr); !ok {
							panic(r)
						}
					}
				}()
				mt = e.typeOfSpecExpr(c, m)
			}()
			if mt != nil {
				nv = e.freshValue(ec.st, stripPkg(c.Name)+"."+c.ModText[mi], mt, false)
			} else {
				// e.g. an unexported field of another package's type (modelled from its source): a fresh value
				// of the shape the location holds now
				nv = e.freshLike(ec.st, lv.get(), stripPkg(c.Name)+"."+c.ModText[mi])
			}
		}
		lv.set(nv)
		// by-value slice parameter with element writes: the caller's variable changes too
		if id, ok := m.(*ast.Ident); ok {
			for i := 0; i < osig.Params().Len() && i < len(call.Args); i++ {
				if osig.Params().At(i).Name() == id.Name {
					if isAssignable(call.Args[i]) {
						ec.lvalue(call.Args[i]).set(nv)
					}
				}
			}
		}
	}
	// results
	var results []Value
	res := osig.Results()
	var callSig *types.Signature = sig
	for i := 0; i < res.Len(); i++ {
		rt := res.At(i).Type()
		if callSig != nil && i < callSig.Results().Len() {
			rt = callSig.Results().At(i).Type()
		}
		var rv Value
		if c.Pure {
			rv = ec.pureResult(c, fn, i, rt, recv, args)
		}
		if rv == nil {
			rv = e.freshValue(ec.st, stripPkg(c.Name)+".result", rt, false)
		}
		results = append(results, rv)
		if n := res.At(i).Name(); n != "" && n != "_" {
			scope[n] = rv
		}
		scope[fmt.Sprintf("result%d", i)] = rv
	}
	if len(results) == 1 {
		scope["result"] = results[0]
	}
	scope["lasterr"] = Int(0)
	if n := res.Len(); n > 0 && isErrorType(res.At(n-1).Type()) {
		scope["lasterr"] = results[n-1]
	}
	post := &evalCtx{fc: fc, st: ec.st, spec: true, scope: scope, pkg: calleePkg, noLocals: true, old: pre, pol: -1}
	post.oldScope = preScope
	resultNames := map[string]int{}
	for i := 0; i < res.Len(); i++ {
		if n := res.At(i).Name(); n != "" && n != "_" {
			resultNames[n] = i
		}
	}
	var conjuncts []ast.Expr
	var flatten func(x ast.Expr)
	flatten = func(x ast.Expr) {
		switch y := x.(type) {
		case *ast.ParenExpr:
			flatten(y.X)
			return
		case *ast.BinaryExpr:
			if y.Op == token.LAND {
				flatten(y.X)
				flatten(y.Y)
				return
			}
		case *ast.CallExpr:
			// implies(C, body) with C folding to a constant
			if exprString(y.Fun) == "implies" && len(y.Args) == 2 {
				if ct, ok := post.tryEval(y.Args[0]).(*Term); ok {
					if ct.IsTrue() {
						flatten(y.Args[1])
						return
					}
					if ct.IsFalse() {
						return
					}
				}
			}
		}
		conjuncts = append(conjuncts, x)
	}
	for _, en := range c.Ensures {
		if e.applies(en) {
			flatten(en.Expr)
		}
	}
	for _, en := range conjuncts {
		// a boolean result asserted outright: bind it to the constant
		if id, ok := en.(*ast.Ident); ok {
			if _, isRes := resultNames[id.Name]; isRes {
				post.assignSpec(id, True, resultNames, len(results))
				continue
			}
		}
		if ue, ok := en.(*ast.UnaryExpr); ok && ue.Op == token.NOT {
			if id, ok := ue.X.(*ast.Ident); ok {
				if _, isRes := resultNames[id.Name]; isRes {
					post.assignSpec(id, False, resultNames, len(results))
					continue
				}
			}
		}
		// assignment form for reference-like values:  <modified location or result> == expr
		if be, ok := en.(*ast.BinaryExpr); ok && be.Op == token.EQL && post.assignable(be.X, c, resultNames) {
			cur := post.tryEval(be.X)
			switch cur.(type) {
			case *SliceV, *MapV, *IfaceV, *PtrV:
				rhs := post.tryEval(be.Y)
				if _, isNil := rhs.(nilMarker); rhs != nil && !isNil {
					post.assignSpec(be.X, rhs, resultNames, len(results))
					continue
				}
			}
		}
		// a conjunct about the callee's own ghost bindings (let NAME = ... @ point inside its body) says nothing a
		// caller can use: it is checked when the callee is verified and left out here
		if mentionsGhostLet(en) {
			continue
		}
		// likewise a conjunct about a local of the callee at its exit (err of a function without results): leaving an
		// assumption out is always sound
		var pt *Term
		func() {
			ng := len(ec.st.guards)
			defer func() {
				if r := recover(); r != nil {
					if u, ok := r.(unsupportedErr); ok && strings.Contains(u.msg, "unknown identifier") {
						ec.st.guards = ec.st.guards[:ng]
						pt = nil
						return
					}
					panic(r)
				}
			}()
			pt = post.evalBool(en)
		}()
		if pt != nil {
			ec.st.Assume(pt)
		}
	}
	for i := range results {
		if v, ok := scope[fmt.Sprintf("result%d", i)]; ok {
			results[i] = v
		}
	}
	switch len(results) {
	case 0:
		return nil
	case 1:
		return results[0]
	}
	return &TupleV{Vs: results}
}

func copyScope(m map[string]Value) map[string]Value {
	n := make(map[string]Value, len(m))
	for k, v := range m {
		n[k] = v
	}
	return n
}

func isAssignable(e ast.Expr) bool {
	switch x := ast.Unparen(e).(type) {
	case *ast.Ident:
		return x.Name != "_"
	case *ast.SelectorExpr:
		return isAssignable(x.X)
	}
	return false
}

func (ec *evalCtx) tryEval(e ast.Expr) (v Value) {
	// an evaluation that gives up half way must not leave its short-circuit guards (a && b, implies) behind
	ng := len(ec.st.guards)
	defer func() {
		if r := recover(); r != nil {
			if _, ok := r.(unsupportedErr); ok {
				ec.st.guards = ec.st.guards[:ng]
				v = nil
				return
			}
			panic(r)
		}
	}()
	return ec.eval(e)
}

// assignable reports whether e (a contract expression) is `result`, a named
// result, or an lvalue listed in modifies.
func (ec *evalCtx) assignable(e ast.Expr, c *Contract, resultNames map[string]int) bool {
	if id, ok := e.(*ast.Ident); ok {
		if id.Name == "result" || strings.HasPrefix(id.Name, "result") {
			return true
		}
		if _, ok := resultNames[id.Name]; ok {
			return true
		}
	}
	txt := exprString(e)
	for _, m := range c.ModText {
		if m == txt {
			return true
		}
	}
	if call, ok := e.(*ast.CallExpr); ok {
		switch exprString(call.Fun) {
		case "target":
			// target(x) is assignable when *x or x's owner is modified
			return true
		}
		return false
	}
	root, field := modRootField(e)
	if root == "" {
		return false
	}
	for _, m := range c.Modifies {
		r, f := modRootField(m)
		if r == root && (f == "*" || f == field) {
			return true
		}
	}
	return false
}

func (ec *evalCtx) assignSpec(lhs ast.Expr, v Value, resultNames map[string]int, nres int) {
	if id, ok := lhs.(*ast.Ident); ok {
		if _, inScope := ec.scope[id.Name]; inScope {
			ec.scope[id.Name] = v
			idx := -1
			if id.Name == "result" {
				idx = 0
			} else if i, ok := resultNames[id.Name]; ok {
				idx = i
			} else if strings.HasPrefix(id.Name, "result") {
				fmt.Sscanf(id.Name, "result%d", &idx)
			}
			if idx >= 0 {
				ec.scope[fmt.Sprintf("result%d", idx)] = v
				if nres == 1 {
					ec.scope["result"] = v
				}
				for n, i := range resultNames {
					if i == idx {
						ec.scope[n] = v
					}
				}
			}
			return
		}
	}
	if lv, ok := ec.ghostLvalOf(lhs); ok {
		lv.set(v)
		return
	}
	ec.lvalue(lhs).set(v)
}

// typeOfSpecExpr type-checks a contract expression in the scope of the
// function body to obtain its Go type (used for havoc of modifies targets).
func (e *Engine) typeOfSpecExpr(c *Contract, expr ast.Expr) types.Type {
	tgt := e.locate(c)
	if tgt == nil {
		panic(unsupported("no declaration for %s", c.Key()))
	}
	pkg := tgt.pkg
	info := &types.Info{Types: map[ast.Expr]types.TypeAndValue{}}
	pos := tgt.body.Lbrace + 1
	if err := types.CheckExpr(pkg.Fset, pkg.Types, pos, expr, info); err != nil {
		panic(unsupported("modifies %s: %v", exprString(expr), err))
	}
	return info.Types[expr].Type
}

// ---------------------------------------------------------------------------
// Inlining of small helper functions marked `inline`

func (ec *evalCtx) inlineCall(c *Contract, fn *types.Func, call *ast.CallExpr, recv Value, args []Value) Value {
	e := ec.e()
	fd := e.funcDecls[c.Key()]
	pkg := e.funcPkg[c.Key()]
	if fd == nil || fd.Body == nil {
		panic(unsupported("inline: no body for %s", c.Key()))
	}
	if ec.fc.depth > 8 {
		panic(unsupported("inline depth"))
	}
	sub := &FnCtx{e: e, pkg: pkg, info: pkg.TypesInfo, decl: fd, body: fd.Body, c: nil, name: ec.fc.name + ">" + c.Name, firedWhere: map[string]bool{},
		counters: ec.fc.counters, modified: map[types.Object]bool{}, depth: ec.fc.depth + 1}
	sub.sig = pkg.TypesInfo.Defs[fd.Name].Type().(*types.Signature)
	sub.index()
	st := ec.st
	savedNames := make(map[string]types.Object, len(st.names))
	for k, v := range st.names {
		savedNames[k] = v
	}
	// bind parameters
	if fd.Recv != nil && len(fd.Recv.List) > 0 && len(fd.Recv.List[0].Names) > 0 {
		obj := pkg.TypesInfo.Defs[fd.Recv.List[0].Names[0]]
		if obj != nil {
			rv := recv
			_, wantPtr := obj.Type().(*types.Pointer)
			if _, isPtr := rv.(*PtrV); wantPtr && !isPtr {
				rv = &PtrV{Nil: False, Obj: e.allocObj(st, rv)}
			} else if p, isPtr := rv.(*PtrV); !wantPtr && isPtr {
				rv = st.heap[p.Obj]
			}
			st.Declare(obj, rv)
		}
	}
	i := 0
	for _, fld := range fd.Type.Params.List {
		for _, n := range fld.Names {
			if obj := pkg.TypesInfo.Defs[n]; obj != nil && i < len(args) {
				st.Declare(obj, args[i])
			}
			i++
		}
	}
	sub.results = namedResults(pkg.TypesInfo, fd.Type)
	for _, r := range sub.results {
		if r != nil {
			st.Declare(r, e.zeroValue(st, r.Type()))
		}
	}
	outs := sub.execBlock(st, fd.Body.List)
	// merge all return outcomes: require they can be merged pairwise by path conditions
	var rets []Outcome
	for _, o := range outs {
		switch o.kind {
		case oReturn:
			rets = append(rets, o)
		case oFall:
			var rv []Value
			for _, r := range sub.results {
				if r != nil {
					rv = append(rv, o.st.vars[r])
				}
			}
			rets = append(rets, Outcome{kind: oReturn, st: o.st, rets: rv})
		default:
			panic(unsupported("inline: stray break/continue"))
		}
	}
	if len(rets) == 0 {
		ec.st.Assume(False)
		return nil
	}
	merged := rets[len(rets)-1]
	base := ec.st
	nb := len(base.pc)
	for k := len(rets) - 2; k >= 0; k-- {
		o := rets[k]
		cond := And(o.st.pc[nb:]...)
		ms := mergeStates(cond, o.st, merged.st, base)
		var mr []Value
		for j := range o.rets {
			mr = append(mr, mergeValue(cond, o.rets[j], merged.rets[j]))
		}
		merged = Outcome{kind: oReturn, st: ms, rets: mr}
	}
	*ec.st = *merged.st
	ec.st.names = savedNames
	switch len(merged.rets) {
	case 0:
		return nil
	case 1:
		return merged.rets[0]
	}
	return &TupleV{Vs: merged.rets}
}

func namedResults(info *types.Info, ft *ast.FuncType) []types.Object {
	var out []types.Object
	if ft.Results == nil {
		return nil
	}
	for _, fld := range ft.Results.List {
		if len(fld.Names) == 0 {
			out = append(out, nil)
			continue
		}
		for _, n := range fld.Names {
			out = append(out, info.Defs[n])
		}
	}
	return out
}

func rootIsCV(m ast.Expr) bool {
	switch x := m.(type) {
	case *ast.StarExpr:
		return rootIsCV(x.X)
	case *ast.SelectorExpr:
		return rootIsCV(x.X)
	case *ast.ParenExpr:
		return rootIsCV(x.X)
	case *ast.CallExpr:
		return exprString(x.Fun) == "cv"
	}
	return false
}

// freshLike: an unconstrained value of the same shape as v.
func (e *Engine) freshLike(st *State, v Value, hint string) Value {
	nm := e.fresher.name(hint)
	var rec func(v Value, nm string) Value
	rec = func(v Value, nm string) Value {
		switch x := v.(type) {
		case *Term:
			return Var(nm, x.Sort)
		case *StructV:
			n := &StructV{Names: x.Names, F: map[string]Value{}}
			for _, f := range x.Names {
				n.F[f] = rec(x.F[f], nm+"."+f)
			}
			return n
		case *PtrV:
			if x.Obj < 0 {
				return &PtrV{Nil: Var(nm+".isnil", SBool), Obj: e.allocObj(st, Var(nm+".opaque", SInt))}
			}
			return &PtrV{Nil: Var(nm+".isnil", SBool), Obj: e.allocObj(st, rec(st.heap[x.Obj], nm+".deref"))}
		case *IfaceV:
			return e.freshIface(st, nm)
		case *FuncV:
			return &FuncV{Name: nm, Id: Var(nm+".fn", SInt)}
		case *MapV:
			n := &MapV{Ref: Var(nm+".ref", SInt), Dom: Var(nm+".dom", x.Dom.Sort), Val: map[string]*Term{}, K: x.K, Elem: x.Elem}
			for k, a := range x.Val {
				n.Val[k] = Var(nm+".val"+k, a.Sort)
			}
			st.Assume(Implies(Eq(n.Ref, Int(0)), Eq(n.Dom, constArray(x.K, SBool, False))))
			st.Assume(Ge(n.Ref, Int(0)))
			return n
		case *SliceV:
			ln := Var(nm+".len", SInt)
			st.Assume(Le(Int(0), ln))
			sample := x
			return &SliceV{Len: ln, Nil: Var(nm+".isnil", SBool), Name: nm, At: func(i *Term) Value {
				el := sample.At(i)
				return likeElem(el, nm+".at", i)
			}}
		case nil:
			return nil
		}
		panic(unsupported("freshLike of %T", v))
	}
	return rec(v, nm)
}

func likeElem(el Value, fn string, i *Term) Value {
	switch x := el.(type) {
	case *Term:
		return App(fn, x.Sort, i)
	case *StructV:
		n := &StructV{Names: x.Names, F: map[string]Value{}}
		for _, f := range x.Names {
			n.F[f] = likeElem(x.F[f], fn+"."+f, i)
		}
		return n
	case *IfaceV:
		return &IfaceV{Tag: App(fn+".tag", SInt, i), Id: App(fn+".id", SInt, i), Payloads: map[string]Value{}}
	}
	return App(fn, SInt, i)
}

func firstOrNil(xs []ast.Expr) ast.Expr {
	if len(xs) == 0 {
		return nil
	}
	return xs[0]
}

// pureResult: for a contract marked `pure` the result is a function of the
// argument values (user expressions are assumed deterministic): every scalar
// leaf is an uninterpreted function of the argument leaves.
func (ec *evalCtx) pureResult(c *Contract, fn *types.Func, idx int, rt types.Type, recv Value, args []Value) Value {
	var leaves []*Term
	ok := true
	var flat func(v Value)
	flat = func(v Value) {
		switch x := v.(type) {
		case *Term:
			leaves = append(leaves, x)
		case *StructV:
			for _, n := range x.Names {
				flat(x.F[n])
			}
		case *IfaceV:
			leaves = append(leaves, x.Tag, x.Id)
		case *FuncV:
			leaves = append(leaves, x.Id)
		case *SliceV:
			if x.Len.IsInt() && x.Len.Int.Int64() <= 16 {
				for i := int64(0); i < x.Len.Int.Int64(); i++ {
					flat(x.At(Int(i)))
				}
			} else {
				ok = false
			}
		case nil:
		default:
			ok = false
		}
	}
	if recv != nil {
		flat(recv)
	}
	for _, a := range args {
		flat(a)
	}
	if !ok {
		return nil
	}
	sig := ""
	for _, l := range leaves {
		sig += l.Sort.Kind[:1]
	}
	base := fmt.Sprintf("pure:%s#%d/%s", fn.Origin().FullName(), idx, sig)
	var build func(t types.Type, nm string) Value
	build = func(t types.Type, nm string) Value {
		if isStringLike(t) {
			return App(nm, SStr, leaves...)
		}
		if isErrorType(t) {
			return App(nm, SInt, leaves...)
		}
		switch u := t.Underlying().(type) {
		case *types.Basic:
			if u.Info()&types.IsBoolean != 0 {
				return App(nm, SBool, leaves...)
			}
			return App(nm, SInt, leaves...)
		case *types.Struct:
			sv := &StructV{F: map[string]Value{}}
			for i := 0; i < u.NumFields(); i++ {
				f := u.Field(i)
				v := build(f.Type(), nm+"."+f.Name())
				if v == nil {
					return nil
				}
				sv.Names = append(sv.Names, f.Name())
				sv.F[f.Name()] = v
			}
			return sv
		case *types.Interface:
			return &IfaceV{Tag: App(nm+".tag", SInt, leaves...), Id: App(nm+".id", SInt, leaves...), Payloads: map[string]Value{}}
		case *types.Pointer, *types.Signature, *types.Chan:
			return nil
		}
		return nil
	}
	if foreignStruct(rt) {
		return App(base+".opaque", SInt, leaves...)
	}
	return build(rt, base)
}

// callCandidates: a call through a function value read from a literal map of
// named functions (never assigned elsewhere): the callee is one of them; each
// candidate's contract is applied and the results are selected by identity.
func (ec *evalCtx) callCandidates(fv *FuncV, call *ast.CallExpr, args []Value, sig *types.Signature) Value {
	seen := map[string]bool{}
	var result Value
	var ids []*Term
	for _, cand := range fv.Cands {
		if seen[cand.FullName()] {
			continue
		}
		seen[cand.FullName()] = true
		c := ec.e().contractForFunc(cand)
		if c == nil {
			panic(unsupported("function %s is stored in a dispatch table but has no contract", cand.FullName()))
		}
		id := App("fn:"+cand.FullName(), SInt)
		ids = append(ids, Eq(fv.Id, id))
		var r Value
		if c.Inline {
			r = ec.inlineCall(c, cand, call, nil, args)
		} else {
			r = ec.applyContract(c, cand, call, nil, args, sig)
		}
		if result == nil {
			result = r
		} else {
			result = mergeValue(Eq(fv.Id, id), r, result)
		}
	}
	ec.st.Assume(Or(ids...))
	return result
}

// havocReachable: the effect of a callee with "modifies *". Every object reachable from the receiver and the
// arguments keeps its identity and its pointer structure, all its scalar, string, map and slice contents become
// unknown; all ghost state (writer outputs, traces, failure flag) becomes unknown as well.
func (ec *evalCtx) havocReachable(recv Value, args []Value) {
	e := ec.e()
	seen := map[int]bool{}
	var inPlace func(v Value, hint string) Value
	var visit func(v Value, hint string)
	inPlace = func(v Value, hint string) Value {
		switch x := v.(type) {
		case *Term:
			return Var(e.fresher.name(hint), x.Sort)
		case *StructV:
			n := &StructV{Names: x.Names, F: map[string]Value{}}
			for _, f := range x.Names {
				n.F[f] = inPlace(x.F[f], hint+"."+f)
			}
			return n
		case *PtrV:
			visit(x, hint)
			return x
		case *MapV, *SliceV:
			return e.freshLike(ec.st, x, hint)
		}
		return v // interfaces and function values are immutable; what they refer to is reached through ghost state
	}
	visit = func(v Value, hint string) {
		switch x := v.(type) {
		case *PtrV:
			if x.Alt != nil {
				visit(x.Alt.a, hint)
				visit(x.Alt.b, hint)
				return
			}
			if x.Obj < 0 || seen[x.Obj] {
				return
			}
			seen[x.Obj] = true
			if obj, ok := ec.st.heap[x.Obj]; ok && obj != nil {
				ec.st.heap[x.Obj] = inPlace(obj, hint+".deref")
			}
		case *StructV:
			for _, f := range x.Names {
				visit(x.F[f], hint+"."+f)
			}
		case *IfaceV:
			for _, p := range x.Payloads {
				visit(p, hint)
			}
		}
	}
	if recv != nil {
		visit(recv, "havoc.recv")
	}
	for i, a := range args {
		visit(a, fmt.Sprintf("havoc.arg%d", i))
	}
	if ec.argsOnly {
		// a callee without contract: what it was handed may have been written to, read from or changed - the ghost
		// streams and traces of exactly those values are forgotten (it reports failure through its results only)
		forget := func(v Value) {
			func() {
				defer func() { recover() }()
				k := writerKey(ec, v)
				for _, pre := range []string{"out:", "in:", "tr:", "refused:", "hdr:"} {
					delete(ec.st.ghost, pre+k)
				}
			}()
		}
		if recv != nil {
			forget(recv)
		}
		for _, a := range args {
			switch a.(type) {
			case *IfaceV, *PtrV, *MapV:
				forget(a)
			}
		}
		return
	}
	ec.st.ghost[failedKey] = Or(scalar(ec.failedLval().get()), Var(e.fresher.name("havoc.failed"), SBool))
	e.fresher.n++
	ec.st.ghost["$epoch"] = Int(int64(e.fresher.n))
	for k := range ec.st.ghost {
		if strings.HasPrefix(k, "out:") || strings.HasPrefix(k, "in:") || strings.HasPrefix(k, "tr:") || strings.HasPrefix(k, "refused:") || strings.HasPrefix(k, "hdr:") {
			delete(ec.st.ghost, k)
		}
	}
}

func mentionsGhostLet(e ast.Expr) bool {
	found := false
	ast.Inspect(e, func(n ast.Node) bool {
		if call, ok := n.(*ast.CallExpr); ok {
			if id, ok := call.Fun.(*ast.Ident); ok && id.Name == "ghost" {
				found = true
			}
		}
		return !found
	})
	return found
}
