package main

// Assumed contracts ("models") for functions outside /repo. Every model that an
// obligation depended on is listed in the evidence trusted_base as std:<name>.

import (
	"fmt"
	"go/ast"
	"go/types"
	"strings"
	"unicode"
	"unicode/utf8"
)

type stdModel func(ec *evalCtx, call *ast.CallExpr, recv Value, args []Value) Value
type specModel func(ec *evalCtx, args []Value) Value

var stdModels = map[string]stdModel{}
var specModels = map[string]specModel{}

func pure(f specModel) stdModel {
	return func(ec *evalCtx, call *ast.CallExpr, recv Value, args []Value) Value { return f(ec, args) }
}

func init() {
	base := map[string]specModel{
		"strings.HasPrefix": func(ec *evalCtx, a []Value) Value {
			return fixModel(ec, "PFX", "str.prefixof", scalar(a[0]), scalar(a[1]))
		},
		"strings.HasSuffix": func(ec *evalCtx, a []Value) Value {
			return fixModel(ec, "SFX", "str.suffixof", scalar(a[0]), scalar(a[1]))
		},
		"strings.Contains": func(ec *evalCtx, a []Value) Value { return mk("str.contains", SBool, scalar(a[0]), scalar(a[1])) },
		"strings.TrimPrefix": func(ec *evalCtx, a []Value) Value {
			s, p := scalar(a[0]), scalar(a[1])
			return Ite(mk("str.prefixof", SBool, p, s), Substr(s, StrLen(p), StrLen(s)), s)
		},
		"strings.TrimSuffix": func(ec *evalCtx, a []Value) Value {
			s, p := scalar(a[0]), scalar(a[1])
			return Ite(mk("str.suffixof", SBool, p, s), Substr(s, Int(0), Sub(StrLen(s), StrLen(p))), s)
		},
		"strings.Index": func(ec *evalCtx, a []Value) Value {
			return mk("str.indexof", SInt, scalar(a[0]), scalar(a[1]), Int(0))
		},
		"strings.IndexByte": func(ec *evalCtx, a []Value) Value {
			return mk("str.indexof", SInt, scalar(a[0]), FromCode(scalar(a[1])), Int(0))
		},
		"strings.IndexRune":    modelIndexRune,
		"strings.ContainsRune": func(ec *evalCtx, a []Value) Value { return Ge(scalar(modelIndexRune(ec, a)), Int(0)) },
		"strings.EqualFold":    modelEqualFold,
		"strings.Split":        func(ec *evalCtx, a []Value) Value { return splitModel(ec, scalar(a[0]), scalar(a[1])) },
		"strings.Join":         func(ec *evalCtx, a []Value) Value { return joinModel(ec, a[0].(*SliceV), scalar(a[1])) },
		"utf8.DecodeRuneInString": func(ec *evalCtx, a []Value) Value {
			r, w := ec.e().decodeRune(ec.st, scalar(a[0]))
			return &TupleV{Vs: []Value{r, w}}
		},
		"utf8.RuneLen": func(ec *evalCtx, a []Value) Value { return runeLen(scalar(a[0])) },
		"strconv.Itoa": func(ec *evalCtx, a []Value) Value { return itoaModel(ec, scalar(a[0])) },
		"errors.New": func(ec *evalCtx, a []Value) Value {
			id := App("errors.New", SInt, scalar(a[0]))
			ec.st.Assume(Not(Eq(id, Int(0))))
			if !ec.spec {
				ec.noteFailure(True) // creating an error value marks the failure it reports
			}
			return id
		},
	}
	for k, v := range base {
		specModels[k] = v
		full := k
		switch {
		case len(k) > 5 && k[:5] == "utf8.":
			full = "unicode/utf8." + k[5:]
		}
		stdModels[full] = pure(v)
	}
	stdModels["(*strings.Builder).WriteString"] = builderWrite(func(ec *evalCtx, a []Value) *Term { return scalar(a[0]) })
	stdModels["(*strings.Builder).WriteByte"] = builderWrite(func(ec *evalCtx, a []Value) *Term { return FromCode(scalar(a[0])) })
	stdModels["(*strings.Builder).WriteRune"] = builderWrite(func(ec *evalCtx, a []Value) *Term { return ec.e().encodeRune(ec.st, scalar(a[0])) })
	stdModels["(*strings.Builder).Write"] = builderWrite(func(ec *evalCtx, a []Value) *Term { return scalar(a[0]) })
	stdModels["(*strings.Builder).Grow"] = func(ec *evalCtx, call *ast.CallExpr, recv Value, args []Value) Value {
		ec.oblige("panic", Le(Int(0), scalar(args[0])), call.Pos(), "strings.Builder.Grow with negative count")
		return nil
	}
	stdModels["(*strings.Builder).String"] = builderRead(func(b *Term) Value { return b })
	stdModels["(*strings.Builder).Len"] = builderRead(func(b *Term) Value { return StrLen(b) })
	stdModels["(*strings.Builder).Reset"] = func(ec *evalCtx, call *ast.CallExpr, recv Value, args []Value) Value {
		setBuf(ec, call, recv, Str(""))
		return nil
	}
	stdModels["(*bytes.Buffer).WriteString"] = stdModels["(*strings.Builder).WriteString"]
	stdModels["(*bytes.Buffer).WriteByte"] = stdModels["(*strings.Builder).WriteByte"]
	stdModels["(*bytes.Buffer).WriteRune"] = stdModels["(*strings.Builder).WriteRune"]
	stdModels["(*bytes.Buffer).Write"] = stdModels["(*strings.Builder).Write"]
	stdModels["(*bytes.Buffer).String"] = stdModels["(*strings.Builder).String"]
	stdModels["(*bytes.Buffer).Bytes"] = stdModels["(*strings.Builder).String"]
	stdModels["(*bytes.Buffer).Len"] = stdModels["(*strings.Builder).Len"]
	stdModels["(*bytes.Buffer).Reset"] = stdModels["(*strings.Builder).Reset"]
	// strings.ReplaceAll(s, old, new) with a one-byte constant old that does not occur in the constant new:
	// the result is free of that byte
	stdModels["strings.ReplaceAll"] = func(ec *evalCtx, call *ast.CallExpr, recv Value, args []Value) Value {
		s0, o, n := scalar(args[0]), scalar(args[1]), scalar(args[2])
		r := App("strings.ReplaceAll", SStr, s0, o, n)
		if o.IsStr() && n.IsStr() && len(o.Str) == 1 && !strings.Contains(n.Str, o.Str) {
			ec.st.Assume(ec.e().inL(r, ec.e().langs.NoByteStar(o.Str[0])))
			ec.e().trusted["std:strings.ReplaceAll (no occurrence of a one-byte old remains when new does not contain it)"] = true
		}
		return r
	}
	// strconv.Unquote(s): the value the Go literal s denotes (uninterpreted; `unquoted(s)` in contracts) and an error
	stdModels["strconv.Unquote"] = func(ec *evalCtx, call *ast.CallExpr, recv Value, args []Value) Value {
		s0 := scalar(args[0])
		errT := App("strconv.Unquote.err", SInt, s0)
		ec.noteFailure(Not(Eq(errT, Int(0))))
		return &TupleV{Vs: []Value{App("strconv.Unquote", SStr, s0), errT}}
	}
	// strconv.Quote(s): a double-quoted Go string literal; its body has no raw line feed and no raw double quote
	stdModels["strconv.Quote"] = func(ec *evalCtx, call *ast.CallExpr, recv Value, args []Value) Value {
		body := App("strconv.QuoteBody", SStr, scalar(args[0]))
		ec.st.Assume(ec.e().inL(body, ec.e().langs.NoByteStar('\n')))
		ec.e().trusted["std:strconv.Quote (result is \" body \" with a body free of raw line feeds)"] = true
		return Concat(Str("\""), body, Str("\""))
	}
	// utf8.EncodeRune(p, r): the encoding of r is written over the first bytes of p (a []byte is a byte string here)
	stdModels["unicode/utf8.EncodeRune"] = func(ec *evalCtx, call *ast.CallExpr, recv Value, args []Value) Value {
		p, r := scalar(args[0]), scalar(args[1])
		enc := ec.e().encodeRune(ec.st, r)
		ec.oblige("bounds", Le(StrLen(enc), StrLen(p)), call.Pos(), "utf8.EncodeRune: buffer too short for the encoded rune")
		lv := ec.lvalue(call.Args[0])
		lv.set(Concat(enc, Substr(p, StrLen(enc), StrLen(p))))
		ec.e().trusted["std:unicode/utf8.EncodeRune"] = true
		return StrLen(enc)
	}
	stdModels["fmt.Errorf"] = func(ec *evalCtx, call *ast.CallExpr, recv Value, args []Value) Value {
		id := Var(ec.e().fresher.name("fmt.Errorf"), SInt)
		ec.st.Assume(Not(Eq(id, Int(0))))
		ec.noteFailure(True)
		// %w: the new error wraps the error argument at that position (errors.Is / errors.As see through it)
		if len(call.Args) > 0 && len(args) > 0 {
			if f, ok := args[0].(*Term); ok && f.IsStr() {
				rest := args[1:]
				if len(rest) == 1 {
					if sl, ok := rest[0].(*SliceV); ok && sl.Len.IsInt() {
						var un []Value
						for i := int64(0); i < sl.Len.Int.Int64(); i++ {
							un = append(un, sl.At(Int(i)))
						}
						rest = un
					}
				}
				k := 0
				fs := f.Str
				for i := 0; i+1 < len(fs); i++ {
					if fs[i] != '%' {
						continue
					}
					if fs[i+1] == '%' {
						i++
						continue
					}
					j := i + 1
					for j < len(fs) && strings.ContainsRune("+-# 0123456789.[]*", rune(fs[j])) {
						j++
					}
					if j < len(fs) && fs[j] == 'w' && k < len(rest) {
						var cause *Term
						switch x := rest[k].(type) {
						case *Term:
							cause = x
						case *IfaceV:
							cause = x.Id
						}
						if cause != nil && cause.Sort == SInt {
							ec.st.Assume(App("err.wraps", SBool, id, cause))
						}
					}
					k++
					i = j
				}
			}
		}
		return id
	}
	for _, n := range []string{"Debug", "Info", "Warn", "Error"} {
		stdModels["(*log/slog.Logger)."+n] = func(ec *evalCtx, call *ast.CallExpr, recv Value, args []Value) Value { return nil }
	}
	stdModels["(*regexp.Regexp).MatchString"] = func(ec *evalCtx, call *ast.CallExpr, recv Value, args []Value) Value {
		sel := call.Fun.(*ast.SelectorExpr)
		var obj types.Object
		switch x := ast.Unparen(sel.X).(type) {
		case *ast.Ident:
			obj = ec.info.Uses[x]
		case *ast.SelectorExpr:
			obj = ec.info.Uses[x.Sel]
		}
		v, ok := obj.(*types.Var)
		if !ok || v.Pkg() == nil || v.Parent() != v.Pkg().Scope() {
			panic(unsupported("MatchString on a regexp that is not a package-level variable"))
		}
		pat, ok := ec.e().regexpLiteral(v)
		if !ok {
			panic(unsupported("regexp %s is not MustCompile(<literal>) or is reassigned", v.Name()))
		}
		name := "RE_" + v.Name()
		if !ec.e().langs.Has(name) {
			re, err := FromGoRegexp(pat)
			if err != nil {
				panic(unsupported("regexp %s: %v", v.Name(), err))
			}
			ec.e().langs.Define(name, re, "(code) Go regexp "+strconvQuote(pat))
		}
		return ec.e().inL(scalar(args[0]), name)
	}
	// context.WithValue under templ's own context key: the model of a render is one context value shared by
	// every context derived from it (getContext / InitializeContext, trusted). Verified code that installs another
	// value under that key splits the per-render state (registry of emitted items, children slot).
	stdModels["context.WithValue"] = func(ec *evalCtx, call *ast.CallExpr, recv Value, args []Value) Value {
		if len(call.Args) == 3 {
			if id, ok := ast.Unparen(call.Args[1]).(*ast.Ident); ok {
				if obj := ec.info.Uses[id]; obj != nil && obj.Pkg() != nil && obj.Pkg().Path() == modulePath && obj.Name() == "contextKey" {
					ec.oblige("ctxvalue", False, call.Pos(), "context.WithValue(ctx, contextKey, ...): a second context value for the same render - what is registered or installed through one context is invisible through the other")
				}
			}
		}
		ec.e().havockedImpure["context.WithValue"] = true
		return ec.e().freshIface(ec.st, ec.e().fresher.name("context.WithValue"))
	}
	stdModels["time.NewTimer"] = func(ec *evalCtx, call *ast.CallExpr, recv Value, args []Value) Value {
		// a timer: a non-nil pointer to a struct whose channel C is some channel (never closed by the runtime)
		sv := &StructV{Names: []string{"C"}, F: map[string]Value{"C": Var(ec.e().fresher.name("timer.C"), SInt)}}
		return &PtrV{Nil: False, Obj: ec.e().allocObj(ec.st, sv)}
	}
	stdModels["(*time.Timer).Reset"] = func(ec *evalCtx, call *ast.CallExpr, recv Value, args []Value) Value {
		return Var(ec.e().fresher.name("timer.Reset"), SBool)
	}
	stdModels["(*time.Timer).Stop"] = func(ec *evalCtx, call *ast.CallExpr, recv Value, args []Value) Value {
		return Var(ec.e().fresher.name("timer.Stop"), SBool)
	}
	stdModels["(*sync.Mutex).Lock"] = lockModel(true, false)
	stdModels["(*sync.Mutex).Unlock"] = lockModel(false, false)
	stdModels["(*sync.RWMutex).Lock"] = lockModel(true, false)
	stdModels["(*sync.RWMutex).Unlock"] = lockModel(false, false)
	stdModels["(*sync.RWMutex).RLock"] = lockModel(true, true)
	stdModels["(*sync.RWMutex).RUnlock"] = lockModel(false, true)
}

// lockModel: ghost lock state per mutex expression - "lock:" exclusive, "rlock:" shared (sync.RWMutex.RLock).
func lockModel(acquire, shared bool) stdModel {
	return func(ec *evalCtx, call *ast.CallExpr, recv Value, args []Value) Value {
		name := exprString(call.Fun.(*ast.SelectorExpr).X)
		get := func(k string) *Term {
			if v, ok := ec.st.ghost[k+name].(*Term); ok {
				return v
			}
			return False
		}
		ex, sh := get("lock:"), get("rlock:")
		key := "lock:" + name
		cur := ex
		if shared {
			key, cur = "rlock:"+name, sh
		}
		if acquire {
			// acquiring while this goroutine holds the lock exclusively (or, for Lock, in any way) deadlocks
			if shared {
				ec.oblige("lock", Not(ex), call.Pos(), "read lock acquired while the write lock is held: "+name)
			} else {
				ec.oblige("lock", And(Not(ex), Not(sh)), call.Pos(), "lock acquired twice: "+name)
			}
			ec.st.ghost[key] = True
			ec.e().forgetChanOpen(ec.st)
			ec.lockInvariant(call, true)
		} else {
			ec.oblige("lock", cur, call.Pos(), "unlock of a lock not held: "+key)
			ec.lockInvariant(call, false)
			ec.st.ghost[key] = False
			ec.e().forgetChanOpen(ec.st)
		}
		return nil
	}
}

// lockInvariant: x.mu.Lock() / x.mu.Unlock() where a `lockinv T.mu(x) protects ...: inv` directive exists for the
// struct type T of x. Acquiring: other goroutines may have changed the protected fields - they are forgotten and the
// invariant is assumed. Releasing: the invariant is proved (it is what the next holder assumes).
func (ec *evalCtx) lockInvariant(call *ast.CallExpr, acquire bool) {
	if ec.e().cs == nil || len(ec.e().cs.LockInvs) == 0 {
		return
	}
	sel, ok := ast.Unparen(call.Fun.(*ast.SelectorExpr).X).(*ast.SelectorExpr)
	if !ok {
		return
	}
	t := ec.info.TypeOf(sel.X)
	if p, ok := t.Underlying().(*types.Pointer); ok {
		t = p.Elem()
	}
	nt, ok := t.(*types.Named)
	if !ok || nt.Obj().Pkg() == nil {
		return
	}
	li := ec.e().cs.LockInvs[nt.Obj().Pkg().Path()+"."+nt.Obj().Name()+"."+sel.Sel.Name]
	if li == nil {
		return
	}
	owner := ec.eval(sel.X)
	pkg := ec.e().pkgs[li.Pkg]
	if acquire {
		p, ok := owner.(*PtrV)
		if !ok {
			panic(unsupported("lockinv: the owner of %s is not held through a pointer", exprText(sel)))
		}
		sv, ok := ec.st.heap[p.Obj].(*StructV)
		if !ok {
			panic(unsupported("lockinv: opaque owner object"))
		}
		st := nt.Underlying().(*types.Struct)
		for _, f := range li.Protects {
			for i := 0; i < st.NumFields(); i++ {
				if st.Field(i).Name() == f {
					sv = sv.With(f, ec.e().freshValue(ec.st, "locked."+f, st.Field(i).Type(), false))
				}
			}
		}
		ec.st.heap[p.Obj] = sv
		sc := &evalCtx{fc: ec.fc, st: ec.st, spec: true, scope: map[string]Value{li.Param: owner}, pkg: pkg, noLocals: true, pol: -1}
		ec.st.Assume(sc.evalBool(li.Expr))
		ec.e().notes = appendUnique(ec.e().notes, "lock invariant of "+li.Type+"."+li.Mutex+" ("+li.Text+"): assumed when the lock is acquired (the protected fields "+strings.Join(li.Protects, ", ")+" are otherwise unknown then), proved when it is released; the protected fields are only touched with the lock held in the functions under contract")
		return
	}
	sc := &evalCtx{fc: ec.fc, st: ec.st, spec: true, scope: map[string]Value{li.Param: owner}, pkg: pkg, noLocals: true, pol: 1}
	ec.fc.oblige(ec.st, "lockinv", sc.evalBool(li.Expr), call.Pos(), "lock invariant of "+li.Type+"."+li.Mutex+" at "+exprText(call.Fun)+": "+li.Text)
}

func recvStruct(ec *evalCtx, recv Value) (*StructV, func(*StructV)) {
	switch r := recv.(type) {
	case *PtrV:
		sv, ok := ec.st.heap[r.Obj].(*StructV)
		if !ok {
			panic(unsupported("opaque buffer object"))
		}
		return sv, func(n *StructV) { ec.st.heap[r.Obj] = n }
	case *boxedV:
		sv := ec.st.heap[r.Obj].(*StructV)
		return sv, func(n *StructV) { ec.st.heap[r.Obj] = n }
	}
	return nil, nil
}

func setBuf(ec *evalCtx, call *ast.CallExpr, recv Value, nb *Term) {
	if sv, set := recvStruct(ec, recv); sv != nil {
		set(sv.With("buf", nb))
		return
	}
	lv := ec.lvalue(call.Fun.(*ast.SelectorExpr).X)
	lv.set(lv.get().(*StructV).With("buf", nb))
}

func getBuf(ec *evalCtx, recv Value) *Term {
	if sv, _ := recvStruct(ec, recv); sv != nil {
		return scalar(sv.F["buf"])
	}
	sv, ok := recv.(*StructV)
	if !ok {
		panic(unsupported("buffer receiver %T", recv))
	}
	return scalar(sv.F["buf"])
}

func builderWrite(what func(ec *evalCtx, a []Value) *Term) stdModel {
	return func(ec *evalCtx, call *ast.CallExpr, recv Value, args []Value) Value {
		add := what(ec, args)
		if p, ok := recv.(*PtrV); ok {
			ec.oblige("nil", Not(p.Nil), call.Pos(), "nil receiver")
		}
		cur := getBuf(ec, recv)
		setBuf(ec, call, recv, Concat(cur, add))
		sig := ec.info.TypeOf(call.Fun).(*types.Signature)
		switch sig.Results().Len() {
		case 0:
			return nil
		case 1:
			return Int(0) // error (always nil)
		}
		return &TupleV{Vs: []Value{StrLen(add), Int(0)}}
	}
}

func builderRead(f func(b *Term) Value) stdModel {
	return func(ec *evalCtx, call *ast.CallExpr, recv Value, args []Value) Value {
		return f(getBuf(ec, recv))
	}
}

// ---------------------------------------------------------------------------

// splitModel: strings.Split(s, sep) for non-empty sep as uninterpreted
// len/at functions of (s, sep) with the facts the proofs need.
func splitModel(ec *evalCtx, s, sep *Term) Value {
	ln := App("split.len", SInt, s, sep)
	res := &SliceV{Len: ln, Nil: False, At: func(i *Term) Value { return App("split.at", SStr, s, sep, i) }}
	first := App("split.at", SStr, s, sep, Int(0))
	ec.st.Assume(Ge(ln, Int(1)))
	// one part <=> separator absent, and then the part is s itself
	ec.st.Assume(Eq(Eq(ln, Int(1)), Not(mk("str.contains", SBool, s, sep))))
	ec.st.Assume(Implies(Eq(ln, Int(1)), Eq(first, s)))
	return res
}

func joinModel(ec *evalCtx, parts *SliceV, sep *Term) Value {
	// join is left uninterpreted (an opaque string per call) except for the 0/1 element cases
	{
		r := Var(ec.e().fresher.name("strings.Join"), SStr)
		ec.st.Assume(Implies(Eq(parts.Len, Int(0)), Eq(r, Str(""))))
		if first, ok := parts.At(Int(0)).(*Term); ok && first.Sort == SStr {
			ec.st.Assume(Implies(Eq(parts.Len, Int(1)), Eq(r, first)))
		}
		return r
	}
}

func modelIndexRune(ec *evalCtx, a []Value) Value {
	s, c := scalar(a[0]), scalar(a[1])
	if !c.IsInt() || c.Int.Int64() >= 0x80 || c.Int.Int64() < 0 {
		panic(unsupported("IndexRune/ContainsRune with non-constant or non-ASCII rune"))
	}
	ch := string([]byte{byte(c.Int.Int64())})
	i := mk("str.indexof", SInt, s, Str(ch), Int(0))
	// language facts: the text before the first occurrence does not contain it
	lang := ec.e().langs.NoByteStar(byte(c.Int.Int64()))
	ec.st.Assume(Implies(Lt(i, Int(0)), ec.e().inL(s, lang)))
	ec.st.Assume(Implies(Ge(i, Int(0)), And(ec.e().inL(Substr(s, Int(0), i), lang), Lt(i, StrLen(s)),
		Eq(mk("str.at", SStr, s, i), Str(ch)))))
	ec.st.Assume(Ge(i, Int(-1)))
	// s without the byte <=> index -1
	ec.st.Assume(Implies(ec.e().inL(s, lang), Lt(i, Int(0))))
	return i
}

func modelEqualFold(ec *evalCtx, a []Value) Value {
	s, t := scalar(a[0]), scalar(a[1])
	if !t.IsStr() {
		s, t = t, s
	}
	if !t.IsStr() {
		panic(unsupported("EqualFold with two non-constant arguments"))
	}
	if s.Op == "app" && s.Name == "url.scheme" && len(s.Args) == 1 {
		// Scheme of a parsed URL: the lower-cased ASCII scheme prefix of the source text
		ascii := true
		var parts []*Re
		for i := 0; i < len(t.Str); i++ {
			c := t.Str[i]
			if c >= 0x80 {
				ascii = false
			}
			var set byteSet
			set.add(c)
			if c >= 'a' && c <= 'z' {
				set.add(c - 'a' + 'A')
			} else if c >= 'A' && c <= 'Z' {
				set.add(c - 'A' + 'a')
			}
			parts = append(parts, reSet(set))
		}
		if ascii && len(t.Str) > 0 {
			name := "GO_URL_SCHEME_" + sanitizeFile(strings.ToLower(t.Str))
			if !ec.e().langs.Has(name) {
				ec.e().langs.Define(name, reCat(append(parts, reByte(':'), reStar(reAny()))...), fmt.Sprintf("(code) URLs whose scheme equals %q ignoring ASCII case", t.Str))
			}
			return ec.e().inL(s.Args[0], name)
		}
	}
	lang := ec.e().langs.Fold(t.Str)
	return ec.e().inL(s, lang)
}

// foldClosure returns all runes equal to r under simple case folding.
func foldClosure(r rune) []rune {
	out := []rune{r}
	for f := unicode.SimpleFold(r); f != r; f = unicode.SimpleFold(f) {
		out = append(out, f)
	}
	return out
}

// decodeRune: utf8.DecodeRuneInString(s) as uninterpreted (r, w) with the
// facts: empty -> (RuneError,0); else 1<=w<=4, w<=len(s); r<0x80 <=> first
// byte <0x80, and then w==1 and r==s[0]; r>=0x80 -> every consumed byte >=0x80.
func (e *Engine) decodeRune(st *State, s *Term) (*Term, *Term) {
	r := App("utf8.rune", SInt, s)
	w := App("utf8.width", SInt, s)
	n := StrLen(s)
	b0 := ByteAt(s, Int(0))
	st.Assume(Implies(Eq(n, Int(0)), And(Eq(r, Int(0xFFFD)), Eq(w, Int(0)))))
	st.Assume(Implies(Gt(n, Int(0)), And(Le(Int(1), w), Le(w, Int(4)), Le(w, n))))
	st.Assume(And(Le(Int(0), r), Le(r, Int(0x10FFFF))))
	st.Assume(Implies(Gt(n, Int(0)), Eq(Lt(r, Int(0x80)), Lt(b0, Int(0x80)))))
	st.Assume(Implies(And(Gt(n, Int(0)), Lt(b0, Int(0x80))), And(Eq(w, Int(1)), Eq(r, b0))))
	hi := e.langs.HighBytesPlus()
	st.Assume(Implies(And(Gt(n, Int(0)), Ge(b0, Int(0x80))), e.inL(Substr(s, Int(0), w), hi)))
	if e.langs.Has("UTF8_VALID") {
		// on well-formed UTF-8 the decoder consumes exactly one encoded scalar value: the width is RuneLen of the
		// rune, re-encoding gives back the consumed bytes, the rest is well-formed again
		valid := e.inL(s, "UTF8_VALID")
		st.Assume(Implies(And(valid, Gt(n, Int(0))), And(Eq(w, runeLen(r)), Eq(App("utf8.encode", SStr, r), Substr(s, Int(0), w)),
			e.inL(Substr(s, w, n), "UTF8_VALID"))))
	}
	e.trusted["std:unicode/utf8.DecodeRuneInString"] = true
	return r, w
}

func (e *Engine) encodeRune(st *State, r *Term) *Term {
	if r.IsInt() {
		v := r.Int.Int64()
		if v >= 0 && v <= unicode.MaxRune {
			return Str(string(rune(v)))
		}
	}
	s := App("utf8.encode", SStr, r)
	st.Assume(Implies(And(Le(Int(0), r), Lt(r, Int(0x80))), Eq(s, FromCode(r))))
	st.Assume(And(Le(Int(1), StrLen(s)), Le(StrLen(s), Int(4))))
	return s
}

func runeLen(r *Term) *Term {
	if r.IsInt() {
		return Int(int64(utf8.RuneLen(rune(r.Int.Int64()))))
	}
	return Ite(Lt(r, Int(0)), Int(-1), Ite(Lt(r, Int(0x80)), Int(1), Ite(Lt(r, Int(0x800)), Int(2),
		Ite(And(Ge(r, Int(0xD800)), Le(r, Int(0xDFFF))), Int(-1), Ite(Lt(r, Int(0x10000)), Int(3), Ite(Le(r, Int(0x10FFFF)), Int(4), Int(-1)))))))
}

func itoaModel(ec *evalCtx, n *Term) *Term {
	if n.IsInt() {
		return Str(n.Int.String())
	}
	s := mk("str.from_int", SStr, n)
	// str.from_int is "" for negatives; only claim the non-negative case
	r := App("strconv.Itoa", SStr, n)
	ec.st.Assume(Implies(Ge(n, Int(0)), Eq(r, s)))
	ec.st.Assume(ec.e().inL(r, ec.e().langs.Named("DECIMAL_INT", `-?[0-9]+`)))
	return r
}

var _ = fmt.Sprintf

// fixModel: HasPrefix / HasSuffix with a constant affix are additionally
// linked to the languages PFX_<hex> = affix .* and SFX_<hex> = .* affix.
func fixModel(ec *evalCtx, kind, op string, s, affix *Term) *Term {
	r := mk(op, SBool, affix, s)
	if affix.IsStr() && !s.IsStr() && len(affix.Str) > 0 && len(affix.Str) <= 8 {
		name := fmt.Sprintf("%s_%x", kind, affix.Str)
		ec.st.Assume(Eq(r, ec.e().inL(s, name)))
	}
	return r
}
