package main

// Symbolic executor over the typed AST of one function (statements).

import (
	"fmt"
	"go/ast"
	"go/token"
	"go/types"
	"strings"

	"golang.org/x/tools/go/packages"
)

type outKind int

const (
	oFall outKind = iota
	oReturn
	oBreak
	oContinue
)

type Outcome struct {
	kind  outKind
	label string
	st    *State
	rets  []Value
	ret   *ast.ReturnStmt
	br    *ast.BranchStmt
}

type FnCtx struct {
	e            *Engine
	pkg          *packages.Package
	info         *types.Info
	decl         *ast.FuncDecl
	body         *ast.BlockStmt
	sig          *types.Signature
	c            *Contract
	name         string
	counters     map[string]int
	loopOrd      map[ast.Stmt]int
	retOrd       map[*ast.ReturnStmt]int
	brOrd        map[*ast.BranchStmt]int
	callTag      map[*ast.CallExpr]string
	entry        *State
	params       []types.Object
	results      []types.Object // named results (nil entries when unnamed)
	modified     map[types.Object]bool
	labels       map[ast.Stmt]string
	depth        int
	closure      bool
	globalWrites []*types.Var
	nameSeen     map[string]int
	firedWhere   map[string]bool // program points of assert clauses that were reached
	gen          *genInfo        // non-nil: a closure of generated code (call-site hooks active)
	nameSuffix   string          // appended to obligation names while deferred calls run at an exit
}

func (fc *FnCtx) counter(kind string) int {
	fc.counters[kind]++
	return fc.counters[kind]
}

func (fc *FnCtx) oblige(st *State, kind string, goal *Term, pos token.Pos, note string) {
	name := fmt.Sprintf("%s#%s.%d", fc.name, kind, fc.counter(kind))
	fc.obligeNamed(st, name, kind, goal, pos, note)
}

func (fc *FnCtx) obligeNamed(st *State, name, kind string, goal *Term, pos token.Pos, note string) {
	name += fc.nameSuffix
	// the same program point reached on several (unmerged) paths: number the occurrences
	if fc.nameSeen == nil {
		fc.nameSeen = map[string]int{}
	}
	fc.nameSeen[name]++
	if n := fc.nameSeen[name]; n > 1 {
		name = fmt.Sprintf("%s~path%d", name, n)
	}
	o := &Obligation{Name: name, Kind: kind, Func: fc.name, Hyps: st.Hyps(), Goal: goal, Pos: fc.e.posStr(pos), Note: note, AbsPrefix: fc.gen != nil}
	if goal.IsTrue() {
		o.Verdict = "unsat"
		o.Solver = "simplifier"
	}
	fc.e.addObl(o)
}

func (fc *FnCtx) index() {
	fc.loopOrd = map[ast.Stmt]int{}
	fc.retOrd = map[*ast.ReturnStmt]int{}
	fc.brOrd = map[*ast.BranchStmt]int{}
	nb := 0
	fc.callTag = map[*ast.CallExpr]string{}
	fc.labels = map[ast.Stmt]string{}
	nl, nr := 0, 0
	callCount := map[string]int{}
	var walk func(n ast.Node, top bool)
	walk = func(n ast.Node, top bool) {
		ast.Inspect(n, func(x ast.Node) bool {
			switch s := x.(type) {
			case *ast.FuncLit:
				if x != n {
					return false // closures are indexed separately
				}
			case *ast.ForStmt, *ast.RangeStmt:
				nl++
				fc.loopOrd[s.(ast.Stmt)] = nl
			case *ast.ReturnStmt:
				nr++
				fc.retOrd[s] = nr
			case *ast.BranchStmt:
				nb++
				fc.brOrd[s] = nb
			case *ast.LabeledStmt:
				fc.labels[s.Stmt] = s.Label.Name
			case *ast.CallExpr:
				nm := exprString(s.Fun)
				callCount[nm]++
				fc.callTag[s] = fmt.Sprintf("%s#%d", nm, callCount[nm])
			}
			return true
		})
	}
	walk(fc.body, true)
}

func exprString(e ast.Expr) string {
	switch x := e.(type) {
	case *ast.Ident:
		return x.Name
	case *ast.SelectorExpr:
		return exprString(x.X) + "." + x.Sel.Name
	case *ast.StarExpr:
		return "*" + exprString(x.X)
	case *ast.ParenExpr:
		return "(" + exprString(x.X) + ")"
	case *ast.IndexExpr:
		return exprString(x.X) + "[" + exprString(x.Index) + "]"
	case *ast.CallExpr:
		return exprString(x.Fun) + "()"
	case *ast.BasicLit:
		return x.Value
	case *ast.IndexListExpr:
		return exprString(x.X) + "[...]"
	}
	return fmt.Sprintf("%T", e)
}

// ---------------------------------------------------------------------------
// Statements

func (fc *FnCtx) execBlock(st *State, stmts []ast.Stmt) []Outcome {
	cur := []*State{st}
	var outs []Outcome
	for _, s := range stmts {
		var next []*State
		for _, c := range cur {
			for _, o := range fc.exec(c, s) {
				if o.kind == oFall {
					next = append(next, o.st)
				} else {
					outs = append(outs, o)
				}
			}
		}
		cur = next
		if len(cur) == 0 {
			break
		}
		if fc.c != nil && len(fc.c.Running) > 0 && fc.nameSuffix == "" {
			if _, isDecl := s.(*ast.DeclStmt); !isDecl {
				for _, c := range cur {
					fc.checkRunning(c, s)
				}
			}
		}
		if len(cur) > 64 {
			panic(unsupported("path explosion (>64 live states)"))
		}
	}
	for _, c := range cur {
		outs = append(outs, Outcome{kind: oFall, st: c})
	}
	return outs
}

// checkRunning: running invariants are proved after every statement and then
// assumed, which cuts long chains of facts into single steps.
func (fc *FnCtx) checkRunning(st *State, after ast.Stmt) {
	for k, rc := range fc.c.Running {
		sc := fc.specCtx(st, nil)
		sc.pol = 1
		var t *Term
		func() {
			defer func() {
				if r := recover(); r != nil {
					if u, ok := r.(unsupportedErr); ok && strings.Contains(u.msg, "unknown identifier") {
						t = nil // a variable of the invariant is not declared yet
						return
					}
					panic(r)
				}
			}()
			t = sc.evalBool(rc.Expr)
		}()
		if t == nil {
			continue
		}
		fc.oblige(st, "running"+rc.ordName(k), t, after.Pos(), rc.Text)
		st.Assume(t)
	}
}

func (fc *FnCtx) ec(st *State) *evalCtx {
	return &evalCtx{fc: fc, st: st, info: fc.info, pkg: fc.pkg}
}

func (fc *FnCtx) exec(st *State, s ast.Stmt) []Outcome {
	switch x := s.(type) {
	case *ast.BlockStmt:
		return fc.execBlock(st, x.List)
	case *ast.ExprStmt:
		fc.ec(st).eval(x.X)
		return []Outcome{{kind: oFall, st: st}}
	case *ast.AssignStmt:
		fc.execAssign(st, x)
		return []Outcome{{kind: oFall, st: st}}
	case *ast.IncDecStmt:
		ec := fc.ec(st)
		lv := ec.lvalue(x.X)
		cur := scalar(lv.get())
		var nv *Term
		if x.Tok == token.INC {
			nv = Add(cur, Int(1))
		} else {
			nv = Sub(cur, Int(1))
		}
		if ii, ok := intKind(fc.info.TypeOf(x.X)); ok {
			nv = wrapInt(nv, ii)
		}
		lv.set(nv)
		return []Outcome{{kind: oFall, st: st}}
	case *ast.DeclStmt:
		gd := x.Decl.(*ast.GenDecl)
		if gd.Tok == token.VAR {
			for _, sp := range gd.Specs {
				vs := sp.(*ast.ValueSpec)
				ec := fc.ec(st)
				if len(vs.Values) == 1 && len(vs.Names) > 1 {
					tv := ec.eval(vs.Values[0]).(*TupleV)
					for i, n := range vs.Names {
						if obj := fc.info.Defs[n]; obj != nil {
							st.Declare(obj, tv.Vs[i])
						}
					}
					continue
				}
				for i, n := range vs.Names {
					obj := fc.info.Defs[n]
					if obj == nil {
						continue
					}
					var v Value
					if i < len(vs.Values) {
						v = ec.convertTo(ec.eval(vs.Values[i]), fc.info.TypeOf(vs.Values[i]), obj.Type())
					} else {
						v = fc.e.zeroValue(st, obj.Type())
					}
					st.Declare(obj, v)
				}
			}
		}
		return []Outcome{{kind: oFall, st: st}}
	case *ast.ReturnStmt:
		ec := fc.ec(st)
		var rets []Value
		if len(x.Results) == 0 {
			for _, r := range fc.results {
				if r != nil {
					rets = append(rets, st.vars[r])
				}
			}
		} else if _, isTuple := fc.info.TypeOf(x.Results[0]).(*types.Tuple); len(x.Results) == 1 && fc.sig.Results().Len() > 1 && isTuple {
			tv := ec.eval(x.Results[0]).(*TupleV)
			tt := fc.info.TypeOf(x.Results[0]).(*types.Tuple)
			for i, v := range tv.Vs {
				if i < tt.Len() && i < fc.sig.Results().Len() {
					v = ec.convertTo(v, tt.At(i).Type(), fc.sig.Results().At(i).Type())
				}
				rets = append(rets, v)
			}
		} else {
			for i, r := range x.Results {
				v := ec.eval(r)
				v = ec.convertTo(v, fc.info.TypeOf(r), fc.sig.Results().At(i).Type())
				rets = append(rets, v)
			}
		}
		return []Outcome{{kind: oReturn, st: st, rets: rets, ret: x}}
	case *ast.IfStmt:
		return fc.execIf(st, x)
	case *ast.ForStmt:
		return fc.execFor(st, x)
	case *ast.RangeStmt:
		return fc.execRange(st, x)
	case *ast.SwitchStmt:
		return fc.execSwitch(st, x)
	case *ast.TypeSwitchStmt:
		return fc.execTypeSwitch(st, x)
	case *ast.BranchStmt:
		lbl := ""
		if x.Label != nil {
			lbl = x.Label.Name
		}
		switch x.Tok {
		case token.BREAK:
			return []Outcome{{kind: oBreak, st: st, label: lbl, br: x}}
		case token.CONTINUE:
			return []Outcome{{kind: oContinue, st: st, label: lbl, br: x}}
		}
		panic(unsupported("branch statement %s", x.Tok))
	case *ast.LabeledStmt:
		return fc.exec(st, x.Stmt)
	case *ast.EmptyStmt:
		return []Outcome{{kind: oFall, st: st}}
	case *ast.DeferStmt:
		fc.execDefer(st, x)
		return []Outcome{{kind: oFall, st: st}}
	case *ast.GoStmt:
		fc.execGo(st, x)
		return []Outcome{{kind: oFall, st: st}}
	case *ast.SelectStmt:
		return fc.execSelect(st, x)
	case *ast.SendStmt:
		ec := fc.ec(st)
		c := scalar(ec.eval(x.Chan))
		v := ec.eval(x.Value)
		if ci := ec.chanInvOf(x.Chan); ci != nil {
			pkg := fc.e.pkgs[ci.Pkg]
			sc := &evalCtx{fc: fc, st: st, spec: true, scope: map[string]Value{ci.Ch: c, ci.Msg: v}, pkg: pkg, noLocals: true, pol: 1}
			fc.oblige(st, "send", sc.evalBool(ci.Expr), x.Pos(), "channel invariant of "+ci.Elem+" at the send "+exprText(x.Chan)+" <- "+exprText(x.Value)+": "+ci.Text)
		}
		if ec.closableChan(x.Chan) {
			fc.oblige(st, "send", Select(chanOpenArr(st), c), x.Pos(), "send on "+exprText(x.Chan)+": the channel must be open (a send on a closed channel panics) - nothing keeps another goroutine from closing it here")
		}
		// blocking (and so deadlock freedom) is not modelled: the statement is taken to complete
		return []Outcome{{kind: oFall, st: st}}
	}
	panic(unsupported("statement %T", s))
}

func (fc *FnCtx) execAssign(st *State, x *ast.AssignStmt) {
	ec := fc.ec(st)
	if x.Tok != token.ASSIGN && x.Tok != token.DEFINE {
		// op=
		lv := ec.lvalue(x.Lhs[0])
		op := map[token.Token]token.Token{token.ADD_ASSIGN: token.ADD, token.SUB_ASSIGN: token.SUB, token.MUL_ASSIGN: token.MUL,
			token.QUO_ASSIGN: token.QUO, token.REM_ASSIGN: token.REM, token.OR_ASSIGN: token.OR, token.AND_ASSIGN: token.AND}[x.Tok]
		if op == 0 {
			panic(unsupported("assignment operator %s", x.Tok))
		}
		r := ec.eval(x.Rhs[0])
		v := ec.binop(op, lv.get(), r, fc.info.TypeOf(x.Lhs[0]), x.Pos())
		lv.set(v)
		return
	}
	var vals []Value
	if len(x.Rhs) == 1 && len(x.Lhs) > 1 {
		v := ec.evalMulti(x.Rhs[0], len(x.Lhs))
		vals = v.Vs
	} else {
		for i, r := range x.Rhs {
			v := ec.eval(r)
			var lt types.Type
			if id, ok := x.Lhs[i].(*ast.Ident); ok && id.Name == "_" {
				lt = nil
			} else if x.Tok == token.DEFINE {
				if id, ok := x.Lhs[i].(*ast.Ident); ok {
					if obj := fc.info.Defs[id]; obj != nil {
						lt = obj.Type()
					} else if obj := fc.info.Uses[id]; obj != nil {
						lt = obj.Type()
					}
				}
			} else {
				lt = fc.info.TypeOf(x.Lhs[i])
			}
			if lt != nil {
				v = ec.convertTo(v, fc.info.TypeOf(r), lt)
			}
			vals = append(vals, v)
		}
	}
	for i, l := range x.Lhs {
		if id, ok := l.(*ast.Ident); ok {
			if id.Name == "_" {
				continue
			}
			if x.Tok == token.DEFINE {
				if obj := fc.info.Defs[id]; obj != nil {
					st.Declare(obj, vals[i])
					continue
				}
			}
		}
		ec.lvalue(l).set(vals[i])
	}
}

func (fc *FnCtx) execIf(st *State, x *ast.IfStmt) []Outcome {
	if x.Init != nil {
		outs := fc.exec(st, x.Init)
		st = outs[0].st
	}
	ec := fc.ec(st)
	c := scalar(ec.eval(x.Cond))
	return fc.branch(st, c, func(s *State) []Outcome { return fc.execBlock(s, x.Body.List) },
		func(s *State) []Outcome {
			if x.Else == nil {
				return []Outcome{{kind: oFall, st: s}}
			}
			return fc.exec(s, x.Else)
		})
}

// branch executes thenF under c and elseF under !c and merges fall-through.
func (fc *FnCtx) branch(st *State, c *Term, thenF, elseF func(*State) []Outcome) []Outcome {
	if c.IsTrue() {
		return thenF(st)
	}
	if c.IsFalse() {
		return elseF(st)
	}
	a := st.Clone()
	a.Assume(c)
	b := st.Clone()
	b.Assume(Not(c))
	oa := thenF(a)
	ob := elseF(b)
	var fa, fb []*State
	var outs []Outcome
	for _, o := range oa {
		if o.kind == oFall {
			fa = append(fa, o.st)
		} else {
			outs = append(outs, o)
		}
	}
	for _, o := range ob {
		if o.kind == oFall {
			fb = append(fb, o.st)
		} else {
			outs = append(outs, o)
		}
	}
	if len(fa) == 1 && len(fb) == 1 {
		ms := mergeStates(c, fa[0], fb[0], st)
		for obj, v := range ms.vars {
			if r := fc.e.resolveValue(ms, v); r != v {
				ms.vars[obj] = r
			}
		}
		for id, v := range ms.heap {
			if r := fc.e.resolveValue(ms, v); r != v {
				ms.heap[id] = r
			}
		}
		outs = append(outs, Outcome{kind: oFall, st: ms})
		return outs
	}
	for _, s := range fa {
		outs = append(outs, Outcome{kind: oFall, st: s})
	}
	for _, s := range fb {
		outs = append(outs, Outcome{kind: oFall, st: s})
	}
	return outs
}

func (fc *FnCtx) execSwitch(st *State, x *ast.SwitchStmt) []Outcome {
	if x.Init != nil {
		st = fc.exec(st, x.Init)[0].st
	}
	var tag Value
	var tagT types.Type
	if x.Tag != nil {
		tag = fc.ec(st).eval(x.Tag)
		tagT = fc.info.TypeOf(x.Tag)
	}
	var clauses []*ast.CaseClause
	var def *ast.CaseClause
	for _, s := range x.Body.List {
		cc := s.(*ast.CaseClause)
		if cc.List == nil {
			def = cc
		} else {
			clauses = append(clauses, cc)
		}
	}
	for _, cc := range clauses {
		for _, s := range cc.Body {
			if b, ok := s.(*ast.BranchStmt); ok && b.Tok == token.FALLTHROUGH {
				panic(unsupported("fallthrough"))
			}
		}
	}
	var rec func(s *State, k int) []Outcome
	rec = func(s *State, k int) []Outcome {
		if k == len(clauses) {
			if def != nil {
				return fc.execBlock(s, def.Body)
			}
			return []Outcome{{kind: oFall, st: s}}
		}
		cc := clauses[k]
		ec := fc.ec(s)
		var conds []*Term
		for _, e := range cc.List {
			if tag == nil {
				// later alternatives are evaluated only if earlier are false
				s.guards = append(s.guards, Not(Or(conds...)))
				conds = append(conds, scalar(ec.eval(e)))
				s.guards = s.guards[:len(s.guards)-1]
			} else {
				v := ec.eval(e)
				conds = append(conds, ec.eqValues(tag, ec.convertTo(v, fc.info.TypeOf(e), tagT)))
			}
		}
		return fc.branch(s, Or(conds...), func(t *State) []Outcome { return fc.execBlock(t, cc.Body) },
			func(t *State) []Outcome { return rec(t, k+1) })
	}
	outs := rec(st, 0)
	// unlabeled break inside switch terminates the switch
	lbl := fc.labels[x]
	var res []Outcome
	for _, o := range outs {
		if o.kind == oBreak && (o.label == "" || o.label == lbl) {
			o.kind = oFall
			o.label = ""
		}
		res = append(res, o)
	}
	return res
}

func (fc *FnCtx) execSelect(st *State, x *ast.SelectStmt) []Outcome {
	// only the non-blocking "case <-ctx.Done(): ... default: ..." form:
	// executed as a nondeterministic branch.
	var def, other *ast.CommClause
	for _, s := range x.Body.List {
		cc := s.(*ast.CommClause)
		if cc.Comm == nil {
			def = cc
		}
	}
	if def == nil {
		return fc.execBlockingSelect(st, x)
	}
	for _, s := range x.Body.List {
		cc := s.(*ast.CommClause)
		if cc.Comm != nil {
			if other != nil {
				panic(unsupported("select with several communication clauses and a default"))
			}
			other = cc
		}
	}
	if def == nil {
		return fc.execBlockingSelect(st, x)
	}
	if other == nil {
		panic(unsupported("select with a default clause only"))
	}
	nd := Var(fc.e.fresher.name("select.nd"), SBool)
	var ctxErr *Term
	if es, ok := other.Comm.(*ast.ExprStmt); ok {
		if ue, ok := es.X.(*ast.UnaryExpr); ok && ue.Op == token.ARROW {
			if call, ok := ue.X.(*ast.CallExpr); ok {
				if sel, ok := call.Fun.(*ast.SelectorExpr); ok && sel.Sel.Name == "Done" {
					if iv, ok := fc.ec(st).eval(sel.X).(*IfaceV); ok {
						ctxErr = App("ctx.Err", SInt, iv.Id)
					}
				}
			}
		}
	}
	return fc.branch(st, nd, func(s *State) []Outcome {
		if ctxErr != nil {
			s.Assume(Not(Eq(ctxErr, Int(0)))) // Done() is closed: Err() is non-nil
		}
		return fc.execBlock(s, other.Body)
	},
		func(s *State) []Outcome { return fc.execBlock(s, def.Body) })
}

// execGo: `go func(params) { body }(args)` - the arguments are evaluated here; the body is verified as the start of a
// new goroutine: it holds no lock, everything reachable through pointers may have been changed by the time it runs,
// and so may the openness of channels. Its obligations are named <function>$goN#...; what it does to the state is
// invisible to the spawning function (which continues at once). `go f(args)` with a named function: the arguments are
// evaluated, the callee runs under its own contract (if any) elsewhere.
func (fc *FnCtx) execGo(st *State, x *ast.GoStmt) {
	ec := fc.ec(st)
	fl, ok := ast.Unparen(x.Call.Fun).(*ast.FuncLit)
	if !ok {
		for _, a := range x.Call.Args {
			ec.eval(a)
		}
		if sel, ok := x.Call.Fun.(*ast.SelectorExpr); ok {
			ec.eval(sel.X)
		}
		return
	}
	var args []Value
	for _, a := range x.Call.Args {
		args = append(args, ec.eval(a))
	}
	t := st.Clone()
	for k := range t.ghost {
		if strings.HasPrefix(k, "lock:") || strings.HasPrefix(k, "rlock:") {
			t.ghost[k] = False
		}
		if strings.HasPrefix(k, "chanown:") || strings.HasPrefix(k, "chanfresh:") {
			t.ghost[k] = False // the new goroutine made none of them
		}
	}
	tec := fc.ec(t)
	var ptrs []Value
	for _, v := range t.vars {
		ptrs = append(ptrs, v)
	}
	tec.havocReachable(nil, ptrs)
	fc.e.forgetChanOpen(t)
	i := 0
	for _, fld := range fl.Type.Params.List {
		for _, n := range fld.Names {
			if obj := fc.info.Defs[n]; obj != nil && i < len(args) {
				t.Declare(obj, args[i])
			}
			i++
		}
	}
	fc.counters["go"]++
	saved := fc.nameSuffix
	fc.nameSuffix = fmt.Sprintf("%s@go%d", saved, fc.counters["go"])
	defer func() { fc.nameSuffix = saved }()
	fc.execBlock(t, fl.Body.List)
	fc.e.notes = appendUnique(fc.e.notes, "go statements: the body of a function literal is verified as a new goroutine (no lock held, shared memory and channel openness arbitrary); the spawning function does not wait for it")
}

// execBlockingSelect: a select without default - one of the communications happens (which one is not known; that one
// of them eventually can is not proved). Receive clauses bind the received value; <-ctx.Done() means ctx.Err() != nil.
func (fc *FnCtx) execBlockingSelect(st *State, x *ast.SelectStmt) []Outcome {
	var res []Outcome
	clauses := x.Body.List
	for i, s := range clauses {
		cc := s.(*ast.CommClause)
		s1 := st
		if i < len(clauses)-1 {
			s1 = st.Clone()
		}
		ec := fc.ec(s1)
		switch c := cc.Comm.(type) {
		case *ast.ExprStmt:
			ue, ok := ast.Unparen(c.X).(*ast.UnaryExpr)
			if !ok || ue.Op != token.ARROW {
				panic(unsupported("select clause %s", exprText(c.X)))
			}
			if call, ok := ue.X.(*ast.CallExpr); ok {
				if sel, ok := call.Fun.(*ast.SelectorExpr); ok && sel.Sel.Name == "Done" {
					if iv, ok := ec.eval(sel.X).(*IfaceV); ok {
						s1.Assume(Not(Eq(App("ctx.Err", SInt, iv.Id), Int(0))))
						break
					}
				}
			}
			ec.recvFrom(ue.X)
		case *ast.AssignStmt:
			fc.execAssign(s1, c)
		case *ast.SendStmt:
			for _, o := range fc.exec(s1, c) {
				_ = o
			}
		default:
			panic(unsupported("select clause %T", cc.Comm))
		}
		res = append(res, fc.execBlock(s1, cc.Body)...)
	}
	return res
}

// ---------------------------------------------------------------------------
// Loops

type modTarget struct {
	obj   types.Object
	field string // first field through a pointer ("" = whole variable)
}

// assignedIn computes the set of variables / object fields that a loop body may modify.
func (fc *FnCtx) assignedIn(nodes ...ast.Node) []modTarget {
	seen := map[string]bool{}
	var out []modTarget
	add := func(obj types.Object, field string) {
		if obj == nil {
			return
		}
		k := fmt.Sprintf("%p.%s", obj, field)
		if !seen[k] {
			seen[k] = true
			out = append(out, modTarget{obj, field})
		}
	}
	var rootOf func(e ast.Expr) (types.Object, string)
	rootOf = func(e ast.Expr) (types.Object, string) {
		switch x := e.(type) {
		case *ast.Ident:
			if obj := fc.info.Uses[x]; obj != nil {
				return obj, ""
			}
			return fc.info.Defs[x], ""
		case *ast.ParenExpr:
			return rootOf(x.X)
		case *ast.IndexExpr:
			return rootOf(x.X)
		case *ast.SliceExpr:
			return rootOf(x.X)
		case *ast.StarExpr:
			o, _ := rootOf(x.X)
			return o, "*"
		case *ast.SelectorExpr:
			if sel := fc.info.Selections[x]; sel != nil {
				o, f := rootOf(x.X)
				if f != "" {
					return o, f
				}
				if o != nil {
					if _, isPtr := o.Type().Underlying().(*types.Pointer); isPtr {
						return o, x.Sel.Name
					}
				}
				return o, ""
			}
			// package-qualified
			return fc.info.Uses[x.Sel], ""
		}
		return nil, ""
	}
	for _, n := range nodes {
		if n == nil {
			continue
		}
		ast.Inspect(n, func(x ast.Node) bool {
			switch s := x.(type) {
			case *ast.AssignStmt:
				for _, l := range s.Lhs {
					add(rootOf(l))
				}
			case *ast.IncDecStmt:
				add(rootOf(s.X))
			case *ast.RangeStmt:
				if s.Tok == token.ASSIGN {
					if s.Key != nil {
						add(rootOf(s.Key))
					}
					if s.Value != nil {
						add(rootOf(s.Value))
					}
				}
			case *ast.UnaryExpr:
				if s.Op == token.AND {
					if _, isLit := s.X.(*ast.CompositeLit); !isLit {
						add(rootOf(s.X))
					}
				}
			case *ast.CallExpr:
				// method with pointer receiver on an addressable variable
				if sel, ok := s.Fun.(*ast.SelectorExpr); ok {
					if selinfo := fc.info.Selections[sel]; selinfo != nil && selinfo.Kind() == types.MethodVal {
						if fn, ok := selinfo.Obj().(*types.Func); ok {
							sig := fn.Type().(*types.Signature)
							if sig.Recv() != nil {
								if _, isPtr := sig.Recv().Type().(*types.Pointer); isPtr {
									o, f := rootOf(sel.X)
									if o != nil {
										if _, isStd := stdModels[fn.Origin().FullName()]; isStd && !mutatesReceiver(fn.Origin().FullName()) {
											return true
										}
										if tv := fc.info.TypeOf(sel.X); tv != nil && f != "" && f != "*" {
											if _, isPtrExpr := tv.Underlying().(*types.Pointer); isPtrExpr {
												if _, isStd := stdModels[fn.Origin().FullName()]; !isStd {
													// a method called through a pointer-typed field (g.w.Write): the object the field points
													// to changes, the field itself keeps pointing to it
													add(o, f+"->")
													return true
												}
											}
										}
										if c := fc.e.contractForFunc(fn); c != nil && !c.Inline && c.ModAll {
											add(o, "**")
										} else if c := fc.e.contractForFunc(fn); c != nil && !c.Inline {
											// contract's modifies decides; handled below
											for _, m := range c.Modifies {
												if r, fld := modRootField(m); r == sig.Recv().Name() {
													if f == "" {
														add(o, fld)
													} else {
														add(o, f)
													}
												}
											}
										} else {
											if _, isP := o.Type().Underlying().(*types.Pointer); isP && f == "" {
												add(o, "*") // the pointee changes, the pointer variable does not
											} else {
												add(o, f)
											}
										}
									}
								}
							}
						}
					}
				}
				// library calls that write into their first argument
				if fn := calleeFunc(fc.info, s); fn != nil && len(s.Args) > 0 {
					switch fn.FullName() {
					case "unicode/utf8.EncodeRune":
						add(rootOf(s.Args[0]))
					}
				}
				// "modifies *": whatever the arguments reach
				if fn := calleeFunc(fc.info, s); fn != nil {
					if c := fc.e.contractForFunc(fn); c != nil && c.ModAll {
						for _, a := range s.Args {
							if o, _ := rootOf(a); o != nil {
								if _, isVar := o.(*types.Var); isVar {
									add(o, "**")
								}
							}
						}
					}
				}
				// arguments named in a contract's modifies
				if fn := calleeFunc(fc.info, s); fn != nil {
					if c := fc.e.contractForFunc(fn); c != nil {
						sig := fn.Type().(*types.Signature)
						for _, m := range c.Modifies {
							r, fld := modRootField(m)
							for i := 0; i < sig.Params().Len() && i < len(s.Args); i++ {
								if sig.Params().At(i).Name() == r {
									o, f := rootOf(s.Args[i])
									if f == "" {
										f = fld
									}
									add(o, f)
								}
							}
						}
					}
				}
			}
			return true
		})
	}
	return out
}

// mutatesReceiver: library models whose effect is on the receiver object itself
// (in-memory buffers); all other modelled methods act on ghost state only.
func mutatesReceiver(full string) bool {
	return strings.HasPrefix(full, "(*strings.Builder).") || strings.HasPrefix(full, "(*bytes.Buffer).") || full == "(*github.com/a-h/parse.Input).Take" || full == "(*github.com/a-h/parse.Input).Seek"
}

func modRootField(m ast.Expr) (string, string) {
	switch x := m.(type) {
	case *ast.Ident:
		return x.Name, ""
	case *ast.StarExpr:
		r, _ := modRootField(x.X)
		return r, "*"
	case *ast.SelectorExpr:
		r, f := modRootField(x.X)
		if f == "" {
			return r, x.Sel.Name
		}
		return r, f
	case *ast.IndexExpr:
		return modRootField(x.X)
	case *ast.ParenExpr:
		return modRootField(x.X)
	}
	return "", ""
}

func (fc *FnCtx) havoc(st *State, targets []modTarget, extra []string) {
	for _, t := range targets {
		v, ok := st.vars[t.obj]
		if !ok {
			// package-level variable or not yet declared
			continue
		}
		if strings.HasSuffix(t.field, "->") {
			if p, isPtr := v.(*PtrV); isPtr && p.Obj >= 0 {
				if sv, ok := st.heap[p.Obj].(*StructV); ok {
					if fv, ok := sv.F[strings.TrimSuffix(t.field, "->")]; ok {
						fc.ec(st).havocReachable(nil, []Value{fv})
						continue
					}
				}
			}
			continue
		}
		if t.field == "**" {
			// deep: everything the variable reaches keeps its identity and loses its contents
			fc.ec(st).havocReachable(nil, []Value{v})
			continue
		}
		if p, isPtr := v.(*PtrV); isPtr && t.field != "" {
			if p.Obj < 0 {
				continue
			}
			ov := st.heap[p.Obj]
			pt := t.obj.Type().Underlying().(*types.Pointer)
			if t.field == "*" {
				st.heap[p.Obj] = fc.e.freshValue(st, t.obj.Name()+".deref", pt.Elem(), false)
				continue
			}
			sv, ok := ov.(*StructV)
			if !ok {
				st.heap[p.Obj] = fc.e.freshValue(st, t.obj.Name()+".deref", pt.Elem(), false)
				continue
			}
			ft := fieldType(pt.Elem(), t.field)
			if ft == nil {
				panic(unsupported("havoc: unknown field %s", t.field))
			}
			st.heap[p.Obj] = sv.With(t.field, fc.e.freshValue(st, t.obj.Name()+"."+t.field, ft, false))
			continue
		}
		st.vars[t.obj] = fc.e.freshValue(st, t.obj.Name(), t.obj.Type(), false)
	}
	for _, name := range extra {
		if obj, ok := st.names[name]; ok {
			st.vars[obj] = fc.e.freshValue(st, name, obj.Type(), false)
		}
	}
}

// havocGhosts: a loop whose body calls anything may write to any writer in
// scope, extend any response trace and set failedDuring.
func (fc *FnCtx) havocGhosts(st *State, nodes ...ast.Node) {
	effect := false
	for _, n := range nodes {
		if n == nil {
			continue
		}
		ast.Inspect(n, func(x ast.Node) bool {
			if c, ok := x.(*ast.CallExpr); ok {
				if id, ok := ast.Unparen(c.Fun).(*ast.Ident); ok {
					if _, isB := fc.info.Uses[id].(*types.Builtin); isB {
						return true
					}
				}
				if tv, ok := fc.info.Types[c.Fun]; ok && tv.IsType() {
					return true
				}
				effect = true
			}
			return true
		})
	}
	if !effect {
		return
	}
	ec := fc.ec(st)
	st.ghost[failedKey] = Var(fc.e.fresher.name("failedDuring"), SBool)
	fc.e.fresher.n++
	st.ghost["$epoch"] = Int(int64(fc.e.fresher.n))
	for k := range st.ghost {
		if strings.HasPrefix(k, "out:") || strings.HasPrefix(k, "in:") || strings.HasPrefix(k, "tr:") || strings.HasPrefix(k, "refused:") || strings.HasPrefix(k, "hdr:") {
			delete(st.ghost, k) // re-materialised lazily in the new epoch
		}
	}
	for id, obj := range st.heap {
		if sv, ok := obj.(*StructV); ok && sv.F["$target"] != nil {
			st.heap[id] = sv.With("buf", Var(fc.e.fresher.name("loop.pending"), SStr)).With("$err", Var(fc.e.fresher.name("loop.sticky"), SInt))
		}
	}
	_ = ec
}

func fieldType(t types.Type, name string) types.Type {
	st, ok := t.Underlying().(*types.Struct)
	if !ok {
		return nil
	}
	for i := 0; i < st.NumFields(); i++ {
		if st.Field(i).Name() == name {
			return st.Field(i).Type()
		}
	}
	return nil
}

func (fc *FnCtx) loopSpec(s ast.Stmt) (*LoopSpec, int) {
	n := fc.loopOrd[s]
	if fc.c != nil {
		if ls := fc.c.Loops[n]; ls != nil {
			return ls, n
		}
		// loop 0: the default for every loop without clauses of its own
		if ls := fc.c.Loops[0]; ls != nil {
			return ls, n
		}
	}
	return &LoopSpec{}, n
}

func (fc *FnCtx) phaseOf(o Outcome) string {
	if o.kind == oContinue && o.br != nil {
		return fmt.Sprintf("preserve@continue.%d", fc.brOrd[o.br])
	}
	return "preserve@end"
}

func (fc *FnCtx) checkInvariants(st *State, ls *LoopSpec, n int, phase string, extraScope map[string]Value, pos token.Pos) {
	for k, inv := range ls.Invariants {
		sc := fc.specCtx(st, extraScope)
		sc.pol = 1
		t := sc.evalBool(inv.Expr)
		fc.obligeNamed(st, fmt.Sprintf("%s#loop%d.inv%s.%s", fc.name, n, inv.ordName(k), phase), "invariant", t, pos, inv.Text)
	}
}

func (fc *FnCtx) assumeInvariants(st *State, ls *LoopSpec, extraScope map[string]Value) {
	for _, inv := range ls.Invariants {
		sc := fc.specCtx(st, extraScope)
		sc.pol = -1
		st.Assume(sc.evalBool(inv.Expr))
	}
}

func (fc *FnCtx) execFor(st *State, x *ast.ForStmt) []Outcome {
	if x.Init != nil {
		st = fc.exec(st, x.Init)[0].st
	}
	ls, n := fc.loopSpec(x)
	lbl := fc.labels[x]
	fc.applyUses(st, fmt.Sprintf("loop%d.entry", n))
	fc.checkInvariants(st, ls, n, "establish", nil, x.Pos())
	targets := fc.assignedIn(x.Body, x.Post, x.Cond)
	head := st.Clone()
	fc.havoc(head, targets, ls.ModExtra)
	fc.havocGhosts(head, x.Body, x.Post, x.Cond)
	fc.assumeInvariants(head, ls, nil)
	fc.applyUses(head, fmt.Sprintf("loop%d.head", n))
	var cond *Term = True
	if x.Cond != nil {
		cond = scalar(fc.ec(head).eval(x.Cond))
	}
	var outs []Outcome
	// body
	body := head.Clone()
	body.Assume(cond)
	for _, o := range fc.execBlock(body, x.Body.List) {
		switch {
		case o.kind == oFall || (o.kind == oContinue && (o.label == "" || o.label == lbl)):
			s := o.st
			if x.Post != nil {
				s = fc.exec(s, x.Post)[0].st
			}
			fc.applyUses(s, fmt.Sprintf("loop%d.end", n))
			fc.checkInvariants(s, ls, n, fc.phaseOf(o), nil, x.Pos())
		case o.kind == oBreak && (o.label == "" || o.label == lbl):
			outs = append(outs, Outcome{kind: oFall, st: o.st})
		default:
			outs = append(outs, o)
		}
	}
	// exit
	if !cond.IsTrue() {
		exit := head.Clone()
		exit.Assume(Not(cond))
		fc.applyUses(exit, fmt.Sprintf("loop%d.exit", n))
		outs = append(outs, Outcome{kind: oFall, st: exit})
	}
	return outs
}

func (fc *FnCtx) execRange(st *State, x *ast.RangeStmt) []Outcome {
	ls, n := fc.loopSpec(x)
	lbl := fc.labels[x]
	ec := fc.ec(st)
	rt := fc.info.TypeOf(x.X)
	coll := ec.eval(x.X)
	keyName, valName := "iter", ""
	var keyObj, valObj types.Object
	if id, ok := x.Key.(*ast.Ident); ok && id.Name != "_" {
		keyName = id.Name
		if x.Tok == token.DEFINE {
			keyObj = fc.info.Defs[id]
		} else {
			keyObj = fc.info.Uses[id]
		}
	}
	if id, ok := x.Value.(*ast.Ident); ok && id.Name != "_" {
		valName = id.Name
		if x.Tok == token.DEFINE {
			valObj = fc.info.Defs[id]
		} else {
			valObj = fc.info.Uses[id]
		}
	}
	_ = valName
	if _, isMap := rt.Underlying().(*types.Map); isMap {
		return fc.execRangeMap(st, x, coll.(*MapV), ls, n, keyObj, valObj)
	}
	var length *Term
	kind := ""
	switch c := coll.(type) {
	case *SliceV:
		length = c.Len
		kind = "slice"
	case *Term:
		if c.Sort == SStr {
			length = StrLen(c)
			kind = "string"
		} else {
			length = c
			kind = "int"
		}
	default:
		panic(unsupported("range over %T", coll))
	}
	if pt, ok := rt.Underlying().(*types.Pointer); ok {
		_ = pt
		panic(unsupported("range over pointer to array"))
	}
	if ls.Unroll {
		if kind != "slice" || !length.IsInt() || length.Int.Int64() > 16 {
			panic(unsupported("loop %d: unroll needs a slice of constant length <= 16", n))
		}
		// execute the body once per element, in order (exact; no invariant needed)
		cur := []*State{st}
		var outs []Outcome
		for k := int64(0); k < length.Int.Int64(); k++ {
			var next []*State
			for _, s := range cur {
				if keyObj != nil {
					s.Declare(keyObj, Int(k))
				}
				if valObj != nil {
					s.Declare(valObj, coll.(*SliceV).At(Int(k)))
				}
				for _, o := range fc.execBlock(s, x.Body.List) {
					switch {
					case o.kind == oFall || (o.kind == oContinue && (o.label == "" || o.label == lbl)):
						next = append(next, o.st)
					case o.kind == oBreak && (o.label == "" || o.label == lbl):
						outs = append(outs, Outcome{kind: oFall, st: o.st})
					default:
						outs = append(outs, o)
					}
				}
			}
			cur = next
		}
		for _, s := range cur {
			outs = append(outs, Outcome{kind: oFall, st: s})
		}
		return outs
	}
	idx0 := Int(0)
	scope0 := map[string]Value{keyName: idx0}
	fc.applyUsesScope(st, fmt.Sprintf("loop%d.entry", n), scope0)
	fc.checkInvariants(st, ls, n, "establish", scope0, x.Pos())
	targets := fc.assignedIn(x.Body)
	head := st.Clone()
	fc.havoc(head, targets, ls.ModExtra)
	fc.havocGhosts(head, x.Body)
	idx := Var(fc.e.fresher.name(keyName), SInt)
	head.Assume(And(Le(Int(0), idx), Le(idx, length)))
	scope := map[string]Value{keyName: idx}
	fc.assumeInvariants(head, ls, scope)
	fc.applyUsesScope(head, fmt.Sprintf("loop%d.head", n), scope)
	var outs []Outcome
	body := head.Clone()
	body.Assume(Lt(idx, length))
	var step *Term = Int(1)
	switch kind {
	case "slice":
		if keyObj != nil {
			body.Declare(keyObj, idx)
		}
		if valObj != nil {
			body.Declare(valObj, coll.(*SliceV).At(idx))
		}
	case "int":
		if keyObj != nil {
			body.Declare(keyObj, idx)
		}
	case "string":
		s := coll.(*Term)
		if fc.e.langs.Has("UTF8_VALID") {
			// range visits rune boundaries: the unread suffix of a well-formed string is well-formed
			body.Assume(Implies(fc.e.inL(s, "UTF8_VALID"), fc.e.inL(Substr(s, idx, StrLen(s)), "UTF8_VALID")))
		}
		r, w := fc.e.decodeRune(body, Substr(s, idx, StrLen(s)))
		step = w
		if sawLineFns {
			// one rune further: a line feed is exactly the one-byte rune 10 (bytes of longer runes and invalid bytes are >= 0x80)
			nx := Add(idx, w)
			isNL := Eq(r, Int(10))
			body.Assume(Eq(App("nl.count", SInt, s, nx), Add(App("nl.count", SInt, s, idx), Ite(isNL, Int(1), Int(0)))))
			body.Assume(Eq(App("nl.start", SInt, s, nx), Ite(isNL, nx, App("nl.start", SInt, s, idx))))
			body.Assume(And(Eq(App("nl.count", SInt, s, Int(0)), Int(0)), Eq(App("nl.start", SInt, s, Int(0)), Int(0))))
			fc.e.trusted["spec functions nlCount / lineStart: a line feed occurs only as the one-byte rune 10 (UTF-8 continuation and lead bytes are >= 0x80)"] = true
		}
		if sawRuneStart {
			// the positions the loop visits are the rune starts of s: this one is, and none lies inside the rune
			q := Var(fc.e.fresher.name("q"), SInt)
			body.Assume(App("utf8.start", SBool, s, idx))
			body.Assume(Forall([]*Term{q}, Implies(And(Lt(idx, q), Lt(q, Add(idx, w))), Not(App("utf8.start", SBool, s, q)))))
		}
		if keyObj != nil {
			body.Declare(keyObj, idx)
		}
		if valObj != nil {
			body.Declare(valObj, r)
		}
	}
	fc.applyUsesScope(body, fmt.Sprintf("loop%d.body", n), scope)
	for _, o := range fc.execBlock(body, x.Body.List) {
		switch {
		case o.kind == oFall || (o.kind == oContinue && (o.label == "" || o.label == lbl)):
			// loopN.bodyend: the end of an iteration, key still naming the element just processed;
			// loopN.end: the same point seen from the loop head (key already advanced)
			fc.applyUsesScope(o.st, fmt.Sprintf("loop%d.bodyend", n), scope)
			sc := map[string]Value{keyName: Add(idx, step)}
			fc.applyUsesScope(o.st, fmt.Sprintf("loop%d.end", n), sc)
			fc.checkInvariants(o.st, ls, n, fc.phaseOf(o), sc, x.Pos())
		case o.kind == oBreak && (o.label == "" || o.label == lbl):
			// loopN.break: an early exit of the loop (clauses there see the key of the iteration that breaks)
			fc.applyUsesScope(o.st, fmt.Sprintf("loop%d.break", n), scope)
			outs = append(outs, Outcome{kind: oFall, st: o.st})
		default:
			outs = append(outs, o)
		}
	}
	exit := head.Clone()
	exit.Assume(Eq(idx, length))
	// expose final index under the key name for `use loopN.exit` clauses
	fc.applyUsesScope(exit, fmt.Sprintf("loop%d.exit", n), scope)
	outs = append(outs, Outcome{kind: oFall, st: exit})
	return outs
}

func (fc *FnCtx) execDefer(st *State, x *ast.DeferStmt) {
	call := x.Call
	// Evaluate arguments now (Go semantics), run the call at function exit.
	if fl, ok := call.Fun.(*ast.FuncLit); ok && len(call.Args) == 0 {
		st.defers = append(st.defers, deferred{run: func(s *State, rets []Value) []Value {
			// run closure body in the enclosing context with named results bound
			for i, r := range fc.results {
				if r != nil && i < len(rets) {
					s.vars[r] = rets[i]
				}
			}
			nDefers := len(s.defers)
			outs := fc.execBlock(s, fl.Body.List)
			// defers registered inside the deferred closure run when the closure returns
			for k := range outs {
				os := outs[k].st
				if len(os.defers) > nDefers {
					inner := os.defers[nDefers:]
					os.defers = os.defers[:nDefers]
					for j := len(inner) - 1; j >= 0; j-- {
						inner[j].run(os, nil)
					}
				}
			}
			if len(outs) != 1 {
				// merge not attempted: require single outcome
				var falls []Outcome
				for _, o := range outs {
					if o.kind == oFall || o.kind == oReturn {
						falls = append(falls, o)
					}
				}
				if len(falls) != 1 {
					panic(unsupported("deferred closure with several exits"))
				}
				outs = falls
			}
			*s = *outs[0].st
			var nr []Value
			for i, r := range fc.results {
				if r != nil {
					nr = append(nr, s.vars[r])
				} else if i < len(rets) {
					nr = append(nr, rets[i])
				}
			}
			return nr
		}})
		return
	}
	// defer close(ch) / other builtins: run the builtin at exit
	if id, ok := call.Fun.(*ast.Ident); ok {
		if _, isBuiltin := fc.info.Uses[id].(*types.Builtin); isBuiltin {
			st.defers = append(st.defers, deferred{run: func(s *State, rets []Value) []Value {
				fc.ec(s).evalCall(call)
				return rets
			}})
			return
		}
	}
	// defer f(args): evaluate args now
	ec := fc.ec(st)
	var argVals []Value
	for _, a := range call.Args {
		argVals = append(argVals, ec.eval(a))
	}
	var recv Value
	if sel, ok := call.Fun.(*ast.SelectorExpr); ok {
		if s := fc.info.Selections[sel]; s != nil {
			recv = ec.eval(sel.X)
		}
	}
	st.defers = append(st.defers, deferred{run: func(s *State, rets []Value) []Value {
		ec2 := fc.ec(s)
		ec2.callWith(call, recv, argVals)
		return rets
	}})
}

func calleeFunc(info *types.Info, call *ast.CallExpr) *types.Func {
	var id *ast.Ident
	switch f := ast.Unparen(call.Fun).(type) {
	case *ast.Ident:
		id = f
	case *ast.SelectorExpr:
		id = f.Sel
	case *ast.IndexExpr:
		switch g := ast.Unparen(f.X).(type) {
		case *ast.Ident:
			id = g
		case *ast.SelectorExpr:
			id = g.Sel
		}
	case *ast.IndexListExpr:
		switch g := ast.Unparen(f.X).(type) {
		case *ast.Ident:
			id = g
		case *ast.SelectorExpr:
			id = g.Sel
		}
	}
	if id == nil {
		return nil
	}
	if fn, ok := info.Uses[id].(*types.Func); ok {
		return fn
	}
	return nil
}

func (e *Engine) contractForFunc(fn *types.Func) *Contract {
	if fn.Pkg() == nil {
		return nil
	}
	fn = fn.Origin()
	recv := ""
	if sig, ok := fn.Type().(*types.Signature); ok && sig.Recv() != nil {
		t := sig.Recv().Type()
		if p, ok := t.(*types.Pointer); ok {
			t = p.Elem()
		}
		if n, ok := t.(*types.Named); ok {
			recv = n.Obj().Name()
		}
	}
	c := e.cs.Contracts[contractKey(fn.Pkg().Path(), recv, fn.Name())]
	if c == nil || c.Impl == "" {
		return c
	}
	if m, ok := e.effCache[c.Key()]; ok {
		return m
	}
	tgt := e.locate(c)
	if tgt == nil {
		return c
	}
	m := e.effective(c, tgt)
	e.effCache[c.Key()] = m
	return m
}

// applyUses instantiates lemma uses / ghost asserts registered for a program point.
func (fc *FnCtx) applyUses(st *State, where string) { fc.applyUsesScope(st, where, nil) }

func (fc *FnCtx) applyUsesScope(st *State, where string, extra map[string]Value) {
	if fc.c == nil {
		return
	}
	for _, l := range fc.c.Lets {
		if l.Where == where {
			fc.firedWhere[l.Where] = true
			sc := fc.specCtx(st, extra)
			st.ghost["let:"+l.Text] = sc.eval(l.Expr)
		}
	}
	for _, a := range fc.c.Assumes {
		if a.Where == where && fc.e.applies(&Clause{Props: a.Props}) {
			fc.firedWhere[a.Where] = true
			sc := fc.specCtx(st, extra)
			sc.pol = -1
			st.Assume(sc.evalBool(a.Expr))
			fc.e.trusted["assume clause in the contract of "+fc.name+": "+a.Text] = true
		}
	}
	for _, in := range fc.c.Inits {
		if in.Where == where && fc.e.applies(&Clause{Props: in.Props}) {
			fc.firedWhere[in.Where] = true
			// ghost initialisation: every channel whose tag the clause speaks about must have been made in this
			// activation and not be initialised yet - then its tag is still free to choose
			sc := fc.specCtx(st, extra)
			ok := True
			ast.Inspect(in.Expr, func(n ast.Node) bool {
				call, isCall := n.(*ast.CallExpr)
				if !isCall {
					return true
				}
				if id, isId := call.Fun.(*ast.Ident); !isId || id.Name != "chantag" || len(call.Args) != 1 {
					return true
				}
				c, isTerm := sc.eval(call.Args[0]).(*Term)
				fresh := False
				if isTerm && c.Op == "var" {
					if f, has := st.ghost["chanfresh:"+c.Name].(*Term); has {
						fresh = f
						st.ghost["chanfresh:"+c.Name] = False
					}
				}
				ok = And(ok, fresh)
				return true
			})
			fc.oblige(st, "init", ok, token.NoPos, "ghost initialisation "+in.Text+" @"+where+": the channel must be fresh (made by this call, not yet initialised) - a channel that comes from anywhere else may already carry another call's messages")
			sh := fc.specCtx(st, extra)
			sh.pol = -1
			st.Assume(sh.evalBool(in.Expr))
		}
	}
	for _, u := range fc.c.Uses {
		if u.Where == where && fc.e.applies(&Clause{Props: u.Props}) {
			fc.firedWhere[u.Where] = true
			fc.useLemma(st, u, extra)
		}
	}
	for _, a := range fc.c.Asserts {
		if a.Where == where && fc.e.applies(&Clause{Props: a.Props}) {
			fc.firedWhere[a.Where] = true
			sc := fc.specCtx(st, extra)
			sc.pol = 1
			t := sc.evalBool(a.Expr)
			fc.oblige(st, "assert", t, token.NoPos, a.Text+" @"+where)
			// as a hypothesis the clause is read in the other polarity (a forall stays a forall)
			sh := fc.specCtx(st, extra)
			sh.pol = -1
			st.AssumeKey(sh.evalBool(a.Expr))
		}
	}
}

func (fc *FnCtx) useLemma(st *State, u *UseSpec, extra map[string]Value) {
	call, ok := u.Expr.(*ast.CallExpr)
	if !ok {
		panic(unsupported("use clause must be a lemma call: %s", u.Text))
	}
	name := exprString(call.Fun)
	lm := fc.e.cs.Lemmas[name]
	if lm == nil {
		panic(unsupported("unknown lemma %s", name))
	}
	if len(call.Args) != len(lm.Params) {
		panic(unsupported("lemma %s: wrong number of arguments", name))
	}
	sc := fc.specCtx(st, extra)
	scope := map[string]Value{}
	skip := false
	func() {
		defer func() {
			if r := recover(); r != nil {
				if u, ok := r.(unsupportedErr); ok && strings.Contains(u.msg, "unknown identifier") {
					skip = true // a variable of the instantiation is not in scope on this path: the lemma is not needed here
					return
				}
				panic(r)
			}
		}()
		for i, p := range lm.Params {
			scope[p] = sc.eval(call.Args[i])
		}
	}()
	if skip {
		return
	}
	lc := &evalCtx{fc: fc, st: st, spec: true, scope: scope, pkg: fc.e.pkgs[lm.Pkg], noLocals: true}
	var hyp *Term = True
	if lm.Hyps != nil {
		hyp = lc.evalBool(lm.Hyps)
	}
	concl := lc.evalBool(lm.Concl)
	st.Assume(Implies(hyp, concl))
	fc.e.usedLemmas[name] = true
}

func stripPkg(s string) string {
	if i := strings.LastIndex(s, "."); i >= 0 {
		return s[i+1:]
	}
	return s
}
