package main

// Library model of github.com/a-h/parse.Input (C06): the input text, the
// current index and the positions derived from the newline table, stated
// over the struct's own fields s and charIndex (read off input.go; the
// newline table is replaced by the specification functions nlCount /
// lineStart: Line = number of line feeds before the index, Col = bytes since
// the last of them).

import (
	"go/ast"
)

func init() {
	const P = "(*github.com/a-h/parse.Input)."
	obj := func(ec *evalCtx, recv Value) (int, *StructV) {
		p, ok := recv.(*PtrV)
		if !ok || p.Obj < 0 {
			panic(unsupported("parse.Input receiver %T", recv))
		}
		sv, ok := ec.st.heap[p.Obj].(*StructV)
		if !ok || sv.F["s"] == nil || sv.F["charIndex"] == nil {
			panic(unsupported("parse.Input value without fields"))
		}
		ec.e().trusted["github.com/a-h/parse.Input modelled from its source (Peek, Take, Index, Position, PositionAt over the fields s / charIndex; newline table as nlCount / lineStart)"] = true
		return p.Obj, sv
	}
	posAt := func(ec *evalCtx, s, i *Term) Value {
		return &StructV{Names: []string{"Index", "Line", "Col"}, F: map[string]Value{
			"Index": i, "Line": App("nl.count", SInt, s, i), "Col": Sub(i, App("nl.start", SInt, s, i))}}
	}
	// parse.Error(msg, pos): a non-nil error value
	stdModels["github.com/a-h/parse.Error"] = func(ec *evalCtx, call *ast.CallExpr, recv Value, args []Value) Value {
		id := Var(ec.e().fresher.name("parse.Error"), SInt)
		ec.st.Assume(Not(Eq(id, Int(0))))
		ec.noteFailure(True)
		return id
	}
	// parse.NewInput(s): a fresh input over exactly the text s, at offset 0
	stdModels["github.com/a-h/parse.NewInput"] = func(ec *evalCtx, call *ast.CallExpr, recv Value, args []Value) Value {
		v := ec.e().freshValue(ec.st, "parse.NewInput", ec.info.TypeOf(call), false)
		p, ok := v.(*PtrV)
		if !ok {
			panic(unsupported("parse.NewInput result %T", v))
		}
		sv, ok := ec.st.heap[p.Obj].(*StructV)
		if !ok || sv.F["s"] == nil {
			panic(unsupported("parse.Input value without fields"))
		}
		ec.st.heap[p.Obj] = sv.With("s", scalar(args[0])).With("charIndex", Int(0))
		p.Nil = False
		ec.e().trusted["github.com/a-h/parse.NewInput (a new input over exactly the given text, at offset 0)"] = true
		return p
	}
	stdModels[P+"Index"] = func(ec *evalCtx, call *ast.CallExpr, recv Value, args []Value) Value {
		_, sv := obj(ec, recv)
		return sv.F["charIndex"]
	}
	stdModels[P+"Peek"] = func(ec *evalCtx, call *ast.CallExpr, recv Value, args []Value) Value {
		_, sv := obj(ec, recv)
		s, ci, n := scalar(sv.F["s"]), scalar(sv.F["charIndex"]), scalar(args[0])
		over := Gt(Add(ci, n), StrLen(s))
		// n < 0: the rest of the input (s[charIndex:] panics when charIndex > len(s): obligation)
		ec.oblige("bounds", Implies(And(Not(over), Lt(n, Int(0))), And(Le(Int(0), ci), Le(ci, StrLen(s)))), call.Pos(), "Input.Peek: s[charIndex:]")
		ec.oblige("bounds", Implies(And(Not(over), Ge(n, Int(0))), And(Le(Int(0), ci), Le(Add(ci, n), StrLen(s)))), call.Pos(), "Input.Peek: s[charIndex:charIndex+n]")
		res := Ite(over, Str(""), Ite(Lt(n, Int(0)), Substr(s, ci, StrLen(s)), Substr(s, ci, Add(ci, n))))
		return &TupleV{Vs: []Value{res, Not(over)}}
	}
	stdModels[P+"Take"] = func(ec *evalCtx, call *ast.CallExpr, recv Value, args []Value) Value {
		id, sv := obj(ec, recv)
		s, ci, n := scalar(sv.F["s"]), scalar(sv.F["charIndex"]), scalar(args[0])
		over := Gt(Add(ci, n), StrLen(s))
		ec.oblige("bounds", Implies(Not(over), And(Le(Int(0), ci), Le(ci, Add(ci, n)))), call.Pos(), "Input.Take: s[from:charIndex]")
		ec.st.heap[id] = sv.With("charIndex", Ite(over, ci, Add(ci, n)))
		return &TupleV{Vs: []Value{Ite(over, Str(""), Substr(s, ci, Add(ci, n))), Not(over)}}
	}
	stdModels[P+"Seek"] = func(ec *evalCtx, call *ast.CallExpr, recv Value, args []Value) Value {
		id, sv := obj(ec, recv)
		s, ci, i := scalar(sv.F["s"]), scalar(sv.F["charIndex"]), scalar(args[0])
		bad := Or(Lt(i, Int(0)), Gt(i, StrLen(s)))
		ec.st.heap[id] = sv.With("charIndex", Ite(bad, ci, i))
		return Not(bad)
	}
	stdModels[P+"Position"] = func(ec *evalCtx, call *ast.CallExpr, recv Value, args []Value) Value {
		_, sv := obj(ec, recv)
		return posAt(ec, scalar(sv.F["s"]), scalar(sv.F["charIndex"]))
	}
	stdModels[P+"PositionAt"] = func(ec *evalCtx, call *ast.CallExpr, recv Value, args []Value) Value {
		_, sv := obj(ec, recv)
		return posAt(ec, scalar(sv.F["s"]), scalar(args[0]))
	}
}
