package main

import "strings"

// C19 replay: the real SSE handler. A client whose connection write is stalled keeps the broadcaster's delivery
// goroutines pending on its channel; when the client then goes away (its write fails) the handler must not crash.
// A send on a closed channel panics in the delivery goroutine and kills the test process: the panic message in the
// output of the (sub)process is the confirmation.

const c19Harness = `package sse

import (
	"context"
	"errors"
	"fmt"
	"net/http"
	"net/http/httptest"
	"strings"
	"sync"
	"testing"
	"time"
)

// a client connection whose first write stalls until released and then fails
type verifStalled struct {
	hdr     http.Header
	entered chan struct{}
	release chan struct{}
	n       int
}

func (w *verifStalled) Header() http.Header { return w.hdr }
func (w *verifStalled) WriteHeader(int)     {}
func (w *verifStalled) Flush()              {}
func (w *verifStalled) Write(p []byte) (int, error) {
	w.n++
	if w.n == 1 {
		close(w.entered)
		<-w.release
		return 0, errors.New("client went away")
	}
	return len(p), nil
}

// a client connection that can be read while the handler writes
type verifLocked struct {
	mu  sync.Mutex
	hdr http.Header
	b   strings.Builder
}

func (w *verifLocked) Header() http.Header { return w.hdr }
func (w *verifLocked) WriteHeader(int)     {}
func (w *verifLocked) Flush()              {}
func (w *verifLocked) Write(p []byte) (int, error) {
	w.mu.Lock()
	defer w.mu.Unlock()
	return w.b.Write(p)
}
func (w *verifLocked) String() string {
	w.mu.Lock()
	defer w.mu.Unlock()
	return w.b.String()
}

// verifSend: a broadcast must come back whatever the clients do
func verifSend(h *Handler, data string) bool {
	done := make(chan struct{})
	go func() { h.Send("message", data); close(done) }()
	select {
	case <-done:
		return true
	case <-time.After(3 * time.Second):
		return false
	}
}

func TestVerifReplayC19(t *testing.T) {
	for round := 1; round <= 5; round++ {
		h := New()
		ctx, cancel := context.WithCancel(context.Background())
		w := &verifStalled{hdr: http.Header{}, entered: make(chan struct{}), release: make(chan struct{})}
		req := httptest.NewRequest("GET", "/", nil).WithContext(ctx)
		done := make(chan struct{})
		go func() { h.ServeHTTP(w, req); close(done) }()
		select {
		case <-w.entered: // the client is registered and its handler is stuck writing the first ping
		case <-time.After(3 * time.Second):
			fmt.Println("REPLAY-NOT-REPRODUCED (replay harness error: the handler never wrote its first ping)")
			cancel()
			return
		}
		// two broadcasts while the client is stalled: their delivery is pending
		if !verifSend(h, "reload-1") {
			fmt.Println("REPLAY-CONFIRMED a client is stalled in its Write: the broadcast reload-1 does not return within 3 s - a stalled client blocks the broadcaster")
			return
		}
		if !verifSend(h, "reload-2") {
			fmt.Println("REPLAY-CONFIRMED a client is stalled in its Write: the broadcast reload-2 does not return within 3 s - a stalled client blocks the broadcaster")
			return
		}
		time.Sleep(100 * time.Millisecond)
		fmt.Printf("round %d: client stalled, 2 broadcasts pending, now the client's write fails\n", round)
		close(w.release)
		select {
		case <-done:
		case <-time.After(3 * time.Second):
			fmt.Println("REPLAY-CONFIRMED a client whose write failed keeps its handler from returning (3 s) while 2 broadcasts are pending")
			cancel()
			return
		}
		cancel()
		// a broadcast after the client is gone, and time for pending deliveries to run into the closed channel
		if !verifSend(h, "reload-3") {
			fmt.Println("REPLAY-CONFIRMED a client is stalled in its Write: the broadcast reload-3 does not return within 3 s - a stalled client blocks the broadcaster")
			return
		}
		time.Sleep(200 * time.Millisecond)
	}
	// clients that leave by cancelling their request, with a broadcast in flight
	for round := 1; round <= 5; round++ {
		h := New()
		ctx, cancel := context.WithCancel(context.Background())
		rec := httptest.NewRecorder()
		req := httptest.NewRequest("GET", "/", nil).WithContext(ctx)
		done := make(chan struct{})
		go func() { h.ServeHTTP(rec, req); close(done) }()
		for i := 0; i < 300; i++ {
			h.m.Lock()
			n := len(h.requests)
			h.m.Unlock()
			if n == 1 {
				break
			}
			time.Sleep(10 * time.Millisecond)
		}
		fmt.Printf("round %d (cancel): client connected, broadcast, client cancels\n", round)
		h.Send("message", "reload")
		cancel()
		select {
		case <-done:
		case <-time.After(3 * time.Second):
			fmt.Println("REPLAY-CONFIRMED a client that cancelled its request keeps its handler from returning (3 s)")
			return
		}
		h.Send("message", "after")
		time.Sleep(100 * time.Millisecond)
	}
	// delivery after churn: three clients, the first two leave in connection order, a broadcast must still reach the
	// third, and the third must be able to leave
	{
		h := New()
		type cl struct {
			w      *verifLocked
			cancel context.CancelFunc
			done   chan struct{}
		}
		var cls []cl
		for i := 0; i < 3; i++ {
			ctx, cancel := context.WithCancel(context.Background())
			c := cl{w: &verifLocked{hdr: http.Header{}}, cancel: cancel, done: make(chan struct{})}
			req := httptest.NewRequest("GET", "/", nil).WithContext(ctx)
			go func() { h.ServeHTTP(c.w, req); close(c.done) }()
			for k := 0; k < 300; k++ {
				h.m.Lock()
				n := len(h.requests)
				h.m.Unlock()
				if n == i+1 {
					break
				}
				time.Sleep(10 * time.Millisecond)
			}
			cls = append(cls, c)
		}
		fmt.Println("round leave-in-order: three clients, the first two disconnect in connection order, broadcast")
		for i := 0; i < 2; i++ {
			cls[i].cancel()
			select {
			case <-cls[i].done:
			case <-time.After(3 * time.Second):
				fmt.Printf("REPLAY-CONFIRMED client %d cancelled its request but its handler does not return (3 s)\n", i+1)
				return
			}
		}
		h.Send("message", "after-churn")
		got := false
		for k := 0; k < 300 && !got; k++ {
			got = strings.Contains(cls[2].w.String(), "after-churn")
			time.Sleep(10 * time.Millisecond)
		}
		if !got {
			fmt.Printf("REPLAY-CONFIRMED three clients connected, the first two left in connection order: the broadcast that follows never reaches the third, still connected client (it received %q)\n", cls[2].w.String())
			return
		}
		cls[2].cancel()
		select {
		case <-cls[2].done:
		case <-time.After(3 * time.Second):
			fmt.Println("REPLAY-CONFIRMED the last client cancelled its request but its handler does not return (3 s)")
			return
		}
	}
	// churn: clients connect and disconnect while broadcasts are issued back to back (1 s)
	{
		h := New()
		stop := make(chan struct{})
		var wg sync.WaitGroup
		for g := 0; g < 8; g++ {
			wg.Add(1)
			go func() {
				defer wg.Done()
				for {
					select {
					case <-stop:
						return
					default:
					}
					ctx, cancel := context.WithCancel(context.Background())
					done := make(chan struct{})
					go func() {
						h.ServeHTTP(httptest.NewRecorder(), httptest.NewRequest("GET", "/", nil).WithContext(ctx))
						close(done)
					}()
					time.Sleep(time.Millisecond)
					cancel()
					<-done
				}
			}()
		}
		fmt.Println("round churn: 8 goroutines connect and disconnect clients while broadcasts are issued back to back")
		deadline := time.Now().Add(time.Second)
		for time.Now().Before(deadline) {
			h.Send("message", "reload")
		}
		close(stop)
		wg.Wait()
	}
	fmt.Println("REPLAY-NOT-REPRODUCED bounded run: 5 rounds of (stalled client, 2 pending broadcasts, client write fails, 1 more broadcast), 5 rounds of (client connected, broadcast, client cancels), delivery to the third of three clients after the first two left in order, and 1 s of client churn under back-to-back broadcasts without a crash")
}
`

func replayC19(r *Run, o *Obligation) *ReplayResult {
	if r.replayOut == nil {
		r.replayOut = map[string]string{}
	}
	out, ok := r.replayOut["C19"]
	if !ok {
		out, _ = r.runReplayTest("cmd/templ/generatecmd/sse", c19Harness, map[string]string{}, "TestVerifReplayC19")
		r.replayOut["C19"] = out
	}
	input := "the real sse.Handler: a stalled client, broadcasts pending on it, then the client's write fails"
	for _, p := range []string{"panic: send on closed channel", "panic: close of closed channel", "panic: close of nil channel", "fatal error: concurrent map iteration and map write", "fatal error: concurrent map read and map write", "fatal error: concurrent map writes"} {
		if strings.Contains(out, p) {
			where := ""
			lines := strings.Split(out, "\n")
			for i, l := range lines {
				if strings.Contains(l, p) {
					for j := i + 1; j < len(lines) && j < i+12; j++ {
						if strings.Contains(lines[j], "/sse/server.go") {
							where = " at " + strings.TrimSpace(lines[j])
							break
						}
					}
				}
			}
			last := ""
			for _, l := range lines {
				if strings.HasPrefix(l, "round ") {
					last = l
				}
			}
			return &ReplayResult{Confirmed: true, Input: input, Detail: "REPLAY-CONFIRMED the process crashes with \"" + p + "\"" + where + " (" + last + ")"}
		}
	}
	okc, detail := replayVerdict(out)
	return &ReplayResult{Confirmed: okc, Input: input, Detail: detail}
}
