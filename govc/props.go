package main

var propConfigs = map[string]*PropConfig{}

func register(c *PropConfig) { propConfigs[c.ID] = c }

func init() {
	register(&PropConfig{
		ID:       "C04",
		Replay:   replayC04,
		Packages: []string{"."},
		Assume: []string{
			"URL_BROWSER_OK (contracts/lang/url.lang) formalises WHATWG scheme extraction; written from the standard",
			"strings.IndexRune / ContainsRune / EqualFold behave as their models state (EqualFold = membership in the simple-fold closure, derived from unicode.SimpleFold)",
		},
	})
	register(&PropConfig{
		ID:       "C17",
		Packages: []string{"./cmd/templ/lspcmd/proxy"},
		Assume: []string{
			"LSP Character offsets are byte offsets into the line (the representation templ uses); UTF-16 code-unit positions are outside the claim",
			"Join(Lines, \"\\n\") / Split are inverse on newline-free parts (code-independent lemma relating the line-splice spec to the byte splice)",
		},
		Replay: replayC17,
	})
}
