package main

import (
	"path/filepath"
	"strings"
)

var propConfigs = map[string]*PropConfig{}

func register(c *PropConfig) { propConfigs[c.ID] = c }

func init() {
	register(&PropConfig{
		ID:     "C14",
		Probes: []string{"runtime.getWatchedStrings#probe"},
		// the handlers' use of the buffer pool of package templ (a buffer handed on after its release) is not within the
		// confinement obligations: the race-detector run is a bounded stand-in in the quick tier as well
		QuickProbes: []string{"runtime.getWatchedStrings#probe"},
		Replay:      replayC14,
		Level:       "other",
		Also:        "C10",
		Packages:    []string{"./runtime", "."},
		Corpus:      true,
		Extra:       func(r *Run) { r.VerifyGenerated(r.corpus, "C10") },
		Assume: []string{
			"partial claim: confinement and lock discipline only - no interleaving semantics; data-race freedom and 'same bytes as when rendering alone' follow from confinement only together with the Go memory model and the documented concurrency contracts of sync.Pool, sync.Mutex and context.Context (assumed)",
			"package-level variables that are never assigned after initialisation are treated as immutable (read from their initialiser); sync.Pool / sync.Mutex / *regexp.Regexp values are safe for concurrent use by their documentation",
			"user expressions and user components embedded in templates are outside the claim (they may share state)",
		},
	})
	register(&PropConfig{
		ID:     "C06",
		Probes: []string{"parser.TemplateFileParser.Parse#probe"},
		// the template-file level of the parser (the loop over top-level Go code, comments and declarations, and
		// whatever helpers it calls) is under a thin safety contract only: its bounded oracle runs in the quick tier too
		QuickProbes: []string{"parser.TemplateFileParser.Parse#probe"},
		Replay:      replayC06,
		Level:       "other",
		Packages:    []string{"./parser/v2", "./parser/v2/goexpression"},
		Assume: []string{
			"partial claim: only the functions that cut Go expressions out of the input and record their ranges; totality / termination / no-panic of the combinator parser on arbitrary bytes are not decided by this technique",
			"the goexpression extractors return 0 <= start <= end <= len(content) (the upper clamp is proved on goexpression.extract; the lower bound comes from go/parser's token positions and is assumed); SliceArgs / Func return a prefix of the text they were given",
		},
	})
	register(&PropConfig{
		ID:       "C20",
		Probes:   []string{"proxy.Handler.modifyResponse#ensures.1.probe", "proxy.Handler.modifyResponse#ensures.3.probe", "proxy.Handler.modifyResponse#ensures.5.probe", "proxy.roundTripper.setShouldSkipResponseModificationHeader#probe"},
		Replay:   replayC20,
		Level:    "other",
		Packages: []string{"./cmd/templ/generatecmd/proxy"},
		Assume:   []string{},
	})
	register(&PropConfig{
		ID:     "C16",
		Probes: []string{"runtime.cacheStrings#probe", "generator.RangeWriter.closeLiteral#probe"},
		// the development-mode text file writer (FSEventHandler.generate) is outside the executor's subset: bounded stand-in
		QuickProbes: []string{"generatecmd.FSEventHandler.generate#probe"},
		Replay:      replayC16,
		Packages:    []string{"./parser/v2", "./generator", "./runtime"},
		Assume: []string{
			"strconv.Unquote of a quoted literal body agrees with the Go compiler on that literal; strings.Split(strings.Join(L, \"\\n\"), \"\\n\") == L for line-feed-free parts (library facts, not mechanised)",
			"cmd/templ/generatecmd FSEventHandler.generate writes strings.Join(output.Literals, \"\\n\") to the text file and decides recompilation by generator.HasChanged(previous, output): read off the code, the function is outside the executor's subset (map with pointer-holding values)",
			"parser invariant: element and attribute names contain no line feed; TrailingSpace is one of its three constants (type invariants)",
			"HasChanged: see the known finding - the obligation 'no recompilation only if the generated code is the same' cannot be discharged from the fields HasChanged compares",
		},
	})
	register(&PropConfig{
		ID:       "C07",
		Probes:   []string{"parser.SourceMap.Add#probe", "parser.SourceMap.AddSymbolRange#probe"},
		Replay:   replayC07,
		Packages: []string{"./parser/v2", "./generator"},
		Assume: []string{
			"Go expressions recorded by the parser are well-formed UTF-8 (Go source must be); for ill-formed bytes the column arithmetic of Add is not claimed",
			"'every byte position' is read as every position an editor can send: rune starts and the end of each line",
			"nested maps are modelled by value (no aliasing between the inner maps of the tables)",
		},
	})
	register(&PropConfig{
		ID:       "C05",
		Probes:   []string{"safehtml.SanitizeCSS#probe"},
		Replay:   replayC05,
		Packages: []string{"./safehtml", "./runtime", "."},
		Assume: []string{
			"CSS_VALUE_SAFE / CSS_NAME_SAFE (contracts/lang/css.lang) formalise CSS Syntax 3 tokenisation of a declaration value and the property's allow-list (only url(), schemes http/https/mailto); written from the standard and the property text; sanity examples include every value the repository's tests expect to pass",
			"regexp.MatchString = membership in the language of the pattern literal (byte-level translation; non-ASCII runes of negated classes over-approximated)",
		},
	})
	register(&PropConfig{
		ID:         "C12",
		Probes:     []string{"templ.renderCSSItemsToBuilder#ensures.C12-1.probe", "templ.RenderScriptItems#probe", "templ.CSSMiddleware.ServeHTTP#probe", "x_script_hoisting.ifThenAgain#probe"},
		Replay:     replayC12,
		Packages:   []string{"."},
		Corpus:     true,
		CorpusOnly: []string{"test_script_usage", "test_script_usage_nonce", "test_script_inline", "test_js_usage", "test_js_unsafe_usage", "test_css_usage", "test_css_middleware", "test_css_expression", "test_once", "test_complex_attributes", "test_only_scripts", "test_call", "x_script_hoisting"},
		Extra:      func(r *Run) { r.VerifyGenerated(r.corpus, "C12") },
		Assume: []string{
			"one render = one shared context value holding the registry (getContext / InitializeContext trusted with that model)",
			"history statement (at most once per context over any sequence of uses; independence of contexts) follows by induction from the per-operation contracts + registry monotonicity; the induction itself is not mechanised",
			"user expressions are deterministic: the script expression hoisted in front of an element denotes the same value as the one used in its on* attribute",
			"programs: the regenerated corpus",
		},
	})
	register(&PropConfig{
		ID:       "C01",
		Probes:   []string{"templ.RenderAttributes#probe", "generator.sinks#probe"},
		Replay:   replayC01,
		Packages: []string{"."},
		Corpus:   true,
		Extra:    func(r *Run) { r.VerifyGenerated(r.corpus, "C01"); r.SweepGeneratorWrites() },
		Assume: []string{
			"HTML tokenizer facts (contracts/lang/html.lang): in the data state only '<' starts markup and '&' a reference; in a double-quoted attribute value only the quote ends it and '&' starts a reference",
			"html.EscapeString: result in HTML_ESCAPED and html.UnescapeString inverts it",
			"CR and NUL are preprocessed by the HTML input stream (CR->LF, NUL flagged): byte-verbatim survival of those two is outside any escaper",
			"programs: the regenerated corpus, not all templates",
		},
	})
	register(&PropConfig{
		ID:     "C13",
		Probes: []string{"templ.ClearChildren#probe"},
		Replay: func(r *Run, o *Obligation) *ReplayResult {
			// the oracle prints one REPLAY-CONFIRMED line per corpus shape that renders wrongly; an
			// obligation is confirmed by the line of the template it was generated for
			if r.replayOut == nil {
				r.replayOut = map[string]string{}
			}
			out, ok := r.replayOut["C13"]
			if !ok {
				out, _ = r.runCorpusTest("x_children_shapes", "TestVerifReplayC13")
				r.replayOut["C13"] = out
			}
			input := "corpus template /verif/corpus/children-shapes rendered by the real generated code and runtime"
			fn := o.Name
			if i := strings.IndexAny(fn, "$#/"); i >= 0 {
				fn = fn[:i]
			}
			if strings.HasPrefix(fn, "templ.") {
				// a runtime function (WithChildren / ClearChildren / GetChildren / the wrappers): every corpus shape exercises it
				// ... except the shapes behind the listed known findings, which render wrongly on the unchanged tree too
				knownShape := map[string]bool{}
				for _, kf := range loadKnownFindings(filepath.Join(r.verif, "known_findings.txt"), "C13") {
					if rest, ok := strings.CutPrefix(kf.Obligation, "x_children_shapes."); ok {
						if i := strings.IndexAny(rest, "$#/"); i >= 0 {
							rest = rest[:i]
						}
						knownShape[rest] = true
					}
				}
				for _, line := range strings.Split(out, "\n") {
					if rest, ok := strings.CutPrefix(strings.TrimSpace(line), "REPLAY-CONFIRMED template "); ok {
						if f := strings.Fields(rest); len(f) > 0 && !knownShape[f[0]] {
							return &ReplayResult{Confirmed: true, Input: input, Detail: strings.TrimSpace(line)}
						}
					}
				}
				if !strings.Contains(out, "REPLAY-") {
					return &ReplayResult{Confirmed: false, Input: input, Detail: "replay did not run: " + firstLines(out, 6)}
				}
				return &ReplayResult{Confirmed: false, Input: input, Detail: "REPLAY-NOT-REPRODUCED every shape of the children-shapes corpus renders as specified"}
			}
			if !strings.HasPrefix(fn, "x_children_shapes.") {
				return &ReplayResult{Confirmed: false, Input: input, Detail: "no replay oracle for " + fn + " (only the children-shapes corpus has expected outputs)"}
			}
			tmpl := strings.TrimPrefix(fn, "x_children_shapes.")
			// first the case named after the template, then any case that exercises it
			for _, pat := range []string{"REPLAY-CONFIRMED template " + tmpl + " ", " " + tmpl + " "} {
				for _, line := range strings.Split(out, "\n") {
					if i := strings.Index(line, "]"); strings.Contains(line, "REPLAY-CONFIRMED") && i > 0 && strings.Contains(line[:i+1], pat) {
						return &ReplayResult{Confirmed: true, Input: input, Detail: strings.TrimSpace(line)}
					}
				}
			}
			if !strings.Contains(out, "REPLAY-") {
				return &ReplayResult{Confirmed: false, Input: input, Detail: "replay did not run: " + firstLines(out, 6)}
			}
			return &ReplayResult{Confirmed: false, Input: input, Detail: "REPLAY-NOT-REPRODUCED template " + tmpl + " renders as specified in the oracle's cases"}
		},
		Packages: []string{"."},
		Corpus:   true,
		Extra:    func(r *Run) { r.VerifyGenerated(r.corpus, "C13") },
		Assume: []string{
			"one render = one shared context value (the children slot lives in it); getContext / InitializeContext trusted with that model",
			"interface contract of Component.Render for components not under contract: they may clear the slot they were given, never install another one",
			"programs: the regenerated corpus (generator/test-* and /verif/corpus/*), not all templates",
		},
	})
	register(&PropConfig{
		ID:       "C10",
		Probes:   []string{"runtime.Buffer.WriteString#probe"},
		Replay:   replayC10,
		Packages: []string{"./runtime", "."},
		Corpus:   true,
		Extra:    func(r *Run) { r.VerifyGenerated(r.corpus, "C10") },
		Assume: []string{
			"writer contract: an io.Writer accepts a prefix of each write and all of it iff it returns nil",
			"bufio.Writer contract: sticky error; a write either buffers or flushes a prefix of pending++data to its target",
			"interface contract of Component.Render assumed for components not under contract (user components)",
		},
	})
	register(&PropConfig{
		ID:       "C08",
		Replay:   replayC08,
		Probes:   []string{"parser.ConstantAttribute.String#probe"},
		Level:    "other",
		Packages: []string{"./parser/v2"},
		Assume: []string{
			"partial claim: constant attributes only (the one place where the parser stores a decoded value and the formatter has to re-encode it). Not decided by this technique: that formatting preserves the meaning of every other construct, layout decisions, gofmt of embedded Go code (whole-formatter semantic preservation needs a semantics of templ)",
			"html.UnescapeString is an uninterpreted function with two assumed facts (axiom lemmas): it inverts the replacement of every & by &amp;, and replacing a quote character by its character reference does not change what a text unescapes to",
		},
	})
	register(&PropConfig{
		ID:       "C19",
		Replay:   replayC19,
		Probes:   []string{"sse.Handler.Send#probe"},
		Level:    "other",
		Packages: []string{"./cmd/templ/generatecmd/sse"},
		Assume: []string{
			"partial claim: crash freedom of the channel protocol only (no send on a closed channel, no second close, registry touched only under its mutex). Not decided by this technique: that every connected client receives every event, absence of deadlock and of blocked or leaked goroutines (liveness, schedules)",
		},
	})
	register(&PropConfig{
		ID:     "C18",
		Probes: []string{"jsonrpc2.stream.Write#probe"},
		// what encoding/json and the (Un)MarshalJSON methods of the message types do to a message is outside the
		// contracts (the frame contracts are over the marshalled bytes): the round-trip oracle runs in the quick tier too
		QuickProbes: []string{"jsonrpc2.stream.Write#probe"},
		Replay:      replayC18,
		Level:       "other",
		Packages:    []string{"./lsp/jsonrpc2"},
		Assume: []string{
			"partial claim: framing obligations and call matching (rely/guarantee over the channel and lock invariants). Not decided by this technique: losslessness of json.Marshal/DecodeMessage, uniqueness of ids among pending calls (the atomic counter is read as an arbitrary value), cancellation timing, absence of hangs and deadlocks (schedules and liveness); blocking of channel operations is not modelled",
			"the ghost tag of a channel is chosen when the channel is initialised while fresh (made by this activation); channels are modelled by their identity only (no buffer contents, no blocking)",
			"bufio.Reader / io.ReadFull / strconv.ParseInt / strings.TrimSpace behave as their models state; chunking of the byte stream is hidden behind the bufio.Reader contract",
		},
	})
	register(&PropConfig{
		ID:       "C11",
		Probes:   []string{"templ.ComponentHandler.ServeHTTPBuffered#probe"},
		Replay:   replayC11,
		Packages: []string{"."},
		Assume: []string{
			"http.ResponseWriter is modelled by its operation trace (Header().Set, WriteHeader, Write, http.Error, delegate ServeHTTP); what a configured error handler writes is one opaque delegate event",
			"the component is arbitrary: only the interface contract of Component.Render is assumed (append-only output, error iff a callee failed)",
		},
	})
	register(&PropConfig{
		ID:     "C03",
		Probes: []string{"runtime.replace#probe", "templ.SafeScriptInline#probe"},
		// the parser's quote-state tracking (scriptElementParser) is outside the executor's subset: bounded stand-in
		QuickProbes: []string{"parser.scriptElementParser#probe"},
		Replay:      replayC03,
		Packages:    []string{"./runtime", "."},
		Corpus:      true,
		Extra:       func(r *Run) { r.VerifyGenerated(r.corpus, "C03") },
		Assume: []string{
			"SAFE_IN_SQ / SAFE_IN_DQ / SAFE_IN_BACKTICK / NO_SCRIPT_END (contracts/lang/js.lang) formalise the ECMAScript string / template lexical rules and the HTML script-data tokenizer; written from the standards",
			"utf8.DecodeRuneInString: 1<=w<=4, w<=len; r<0x80 iff first byte <0x80 and then w==1 and r is that byte; otherwise all consumed bytes are >=0x80",
			"byte level: U+2028/U+2029 are handled at rune level by the code (two switch arms, checked); the output language does not distinguish their UTF-8 bytes from other high bytes",
			"encoding/json.Marshal output contains no '<', '>' or '&' (default HTML escaping) and is a valid JavaScript expression",
		},
	})
	register(&PropConfig{
		ID:         "C04",
		Probes:     []string{"templ.URL#probe", "generated.href#gate.probe"},
		Replay:     replayC04,
		Packages:   []string{"."},
		Corpus:     true,
		CorpusOnly: nil,
		Extra: func(r *Run) {
			r.VerifyGenerated(r.corpus, "C04")
			// the compile-time gate: templates that hand a templ.SafeURL to href / action in every attribute position
			// must compile after generation
			for dir, msg := range r.corpus.Broken {
				r.e.addObl(&Obligation{Name: dir + "#gate.typechecks", Kind: "gate", Func: dir, Goal: False, Verdict: "sat", Solver: "go/types",
					Note: "the code generated for corpus directory " + dir + " does not type-check: " + msg + " (a URL attribute is not routed through the templ.SafeURL path, or the generator emits invalid code)"})
			}
			if _, bad := r.corpus.Broken["x_url_attributes"]; !bad {
				r.e.addObl(&Obligation{Name: "x_url_attributes#gate.typechecks", Kind: "gate", Func: "x_url_attributes", Goal: True, Verdict: "unsat", Solver: "go/types",
					Note: "templates with templ.SafeURL values in href / action (plain, conditional, else branch, nested conditional) generate code that type-checks"})
			}
		},
		Assume: []string{
			"URL_BROWSER_OK (contracts/lang/url.lang) formalises WHATWG scheme extraction; written from the standard",
			"strings.IndexRune / ContainsRune / EqualFold behave as their models state (EqualFold = membership in the simple-fold closure, derived from unicode.SimpleFold)",
		},
	})
	register(&PropConfig{
		ID:     "C17",
		Probes: []string{"proxy.Document.Apply#probe"},
		// DocumentContents.Apply (the loop over the changes of one notification) is outside the executor's subset
		// (map of pointers, opaque protocol structs): its bounded oracle runs in the quick tier too
		QuickProbes: []string{"proxy.Document.Apply#probe"},
		Packages:    []string{"./cmd/templ/lspcmd/proxy"},
		Assume: []string{
			"LSP Character offsets are byte offsets into the line (the representation templ uses); UTF-16 code-unit positions are outside the claim",
			"Join(Lines, \"\\n\") / Split are inverse on newline-free parts (code-independent lemma relating the line-splice spec to the byte splice)",
		},
		Replay: replayC17,
	})
}
