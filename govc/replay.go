package main

// Counterexample replay against the real code: model values are fetched with
// (get-value ...) from a solver that answers sat, turned into Go inputs, and a
// generated in-package test is injected with `go test -overlay` (nothing is
// written into the repository).

import (
	"bytes"
	"context"
	"encoding/json"
	"fmt"
	"os"
	"os/exec"
	"path/filepath"
	"strconv"
	"strings"
	"time"
)

// modelValues asks the solvers for a model of (hyps ∧ ¬goal ∧ extra) and
// returns the values of the requested SMT terms (raw SMT-LIB syntax). Terms
// whose head symbol is not declared in the query are skipped.
func (r *Run) modelValues(o *Obligation, extra []string, terms []string) (map[string]string, bool) {
	if o.Goal == nil {
		return nil, false
	}
	base := SMTQuery(o.Hyps, o.Goal, "", false)
	base = strings.Replace(base, "(check-sat)\n", "", 1)
	var want []string
	for _, t := range terms {
		head := strings.Trim(strings.Fields(strings.TrimLeft(t, "("))[0], "()")
		if strings.Contains(base, "(declare-fun "+head+" ") {
			want = append(want, t)
		}
	}
	if len(want) == 0 {
		return map[string]string{}, true
	}
	q := "(set-option :produce-models true)\n" + base + strings.Join(extra, "\n") + "\n(check-sat)\n(get-value (" + strings.Join(want, " ") + "))\n"
	file := filepath.Join(r.workdir, fmt.Sprintf("model-%d.smt2", time.Now().UnixNano()))
	os.WriteFile(file, []byte(q), 0o644)
	defer os.Remove(file)
	for _, sp := range solverSpecs {
		argv := sp.argv(file, 10)
		ctx, cancel := context.WithTimeout(context.Background(), 12*time.Second)
		cmd := exec.CommandContext(ctx, argv[0], argv[1:]...)
		var buf bytes.Buffer
		cmd.Stdout = &buf
		cmd.Stderr = &buf
		cmd.Run()
		cancel()
		out := buf.String()
		if parseVerdict(out) != "sat" {
			continue
		}
		i := strings.Index(out, "sat")
		sx, err := parseSexprs(out[i+3:])
		if err != nil || len(sx) == 0 {
			continue
		}
		vals := map[string]string{}
		for _, pair := range sx[0].list {
			if len(pair.list) != 2 {
				continue
			}
			vals[pair.list[0].String()] = pair.list[1].String()
		}
		res := map[string]string{}
		for _, t := range want {
			// normalise the key by re-parsing
			k, err := parseSexprs(t)
			if err == nil && len(k) == 1 {
				if v, ok := vals[k[0].String()]; ok {
					res[t] = v
				}
			}
		}
		return res, true
	}
	return nil, false
}

type sexpr struct {
	atom string
	list []*sexpr
	isL  bool
}

func (s *sexpr) String() string {
	if !s.isL {
		return s.atom
	}
	parts := make([]string, len(s.list))
	for i, x := range s.list {
		parts[i] = x.String()
	}
	return "(" + strings.Join(parts, " ") + ")"
}

func parseSexprs(src string) ([]*sexpr, error) {
	var out []*sexpr
	i := 0
	var parse func() (*sexpr, error)
	skip := func() {
		for i < len(src) {
			if src[i] == ' ' || src[i] == '\n' || src[i] == '\t' || src[i] == '\r' {
				i++
			} else if src[i] == ';' {
				for i < len(src) && src[i] != '\n' {
					i++
				}
			} else {
				break
			}
		}
	}
	parse = func() (*sexpr, error) {
		skip()
		if i >= len(src) {
			return nil, fmt.Errorf("eof")
		}
		switch src[i] {
		case '(':
			i++
			n := &sexpr{isL: true}
			for {
				skip()
				if i >= len(src) {
					return nil, fmt.Errorf("unbalanced")
				}
				if src[i] == ')' {
					i++
					return n, nil
				}
				c, err := parse()
				if err != nil {
					return nil, err
				}
				n.list = append(n.list, c)
			}
		case ')':
			return nil, fmt.Errorf("unexpected )")
		case '"':
			j := i + 1
			for j < len(src) {
				if src[j] == '"' {
					if j+1 < len(src) && src[j+1] == '"' {
						j += 2
						continue
					}
					break
				}
				j++
			}
			a := src[i : j+1]
			i = j + 1
			return &sexpr{atom: a}, nil
		case '|':
			j := strings.IndexByte(src[i+1:], '|')
			a := src[i : i+j+2]
			i += j + 2
			return &sexpr{atom: a}, nil
		}
		j := i
		for j < len(src) && !strings.ContainsRune(" \n\t\r()", rune(src[j])) {
			j++
		}
		a := src[i:j]
		i = j
		return &sexpr{atom: a}, nil
	}
	for {
		skip()
		if i >= len(src) {
			return out, nil
		}
		s, err := parse()
		if err != nil {
			return out, err
		}
		out = append(out, s)
	}
}

// smtInt parses an SMT integer value: 5, (- 5).
func smtInt(v string) (int64, bool) {
	v = strings.TrimSpace(v)
	if strings.HasPrefix(v, "(-") {
		n, err := strconv.ParseInt(strings.TrimSpace(strings.Trim(v[2:], "() ")), 10, 64)
		return -n, err == nil
	}
	n, err := strconv.ParseInt(v, 10, 64)
	return n, err == nil
}

// smtString decodes an SMT-LIB string literal into bytes; ok=false if a
// character does not fit in a byte.
func smtString(v string) (string, bool) {
	v = strings.TrimSpace(v)
	if len(v) < 2 || v[0] != '"' {
		return "", false
	}
	v = v[1 : len(v)-1]
	var out []byte
	for i := 0; i < len(v); {
		if v[i] == '"' && i+1 < len(v) && v[i+1] == '"' {
			out = append(out, '"')
			i += 2
			continue
		}
		if strings.HasPrefix(v[i:], `\u{`) {
			j := strings.IndexByte(v[i:], '}')
			if j > 0 {
				n, err := strconv.ParseUint(v[i+3:i+j], 16, 32)
				if err == nil {
					if n > 255 {
						return "", false
					}
					out = append(out, byte(n))
					i += j + 1
					continue
				}
			}
		}
		if strings.HasPrefix(v[i:], `\u`) && i+6 <= len(v) {
			n, err := strconv.ParseUint(v[i+2:i+6], 16, 32)
			if err == nil {
				if n > 255 {
					return "", false
				}
				out = append(out, byte(n))
				i += 6
				continue
			}
		}
		if v[i] >= 0x80 {
			return "", false
		}
		out = append(out, v[i])
		i++
	}
	return string(out), true
}

const smtBytes = `(re.* (re.range "\u{0}" "\u{ff}"))`

// runReplayTest injects testSrc as an in-package test of pkgDir (relative to the
// repository) through an overlay, passes input as JSON in VERIF_REPLAY_INPUT
// and returns the combined output.
func (r *Run) runReplayTest(pkgDir, testSrc string, input interface{}, runName string) (string, error) {
	return r.runReplayTestFlags(pkgDir, testSrc, input, runName, "")
}

// runReplayTestFlags: as runReplayTest with extra go test flags (e.g. -race).
func (r *Run) runReplayTestFlags(pkgDir, testSrc string, input interface{}, runName, flags string) (string, error) {
	dir, err := os.MkdirTemp("", "govc-replay-")
	if err != nil {
		return "", err
	}
	defer os.RemoveAll(dir)
	testFile := filepath.Join(dir, "zz_verif_replay_test.go")
	os.WriteFile(testFile, []byte(testSrc), 0o644)
	inFile := filepath.Join(dir, "input.json")
	data, _ := json.Marshal(input)
	os.WriteFile(inFile, data, 0o644)
	ov := map[string]map[string]string{"Replace": {filepath.Join(r.repo, pkgDir, "zz_verif_replay_test.go"): testFile}}
	ovData, _ := json.Marshal(ov)
	ovFile := filepath.Join(dir, "overlay.json")
	os.WriteFile(ovFile, ovData, 0o644)
	ctx, cancel := context.WithTimeout(context.Background(), 180*time.Second)
	defer cancel()
	cmd := exec.CommandContext(ctx, "bash", "-c", ulimitFor(flags)+"exec go test "+flags+" -overlay "+ovFile+" -vet=off -count=1 -v -timeout 60s -run '^"+runName+"$' ./"+pkgDir)
	cmd.Dir = r.repo
	cmd.Env = append(os.Environ(), "GOFLAGS=-mod=mod", "GOPROXY=off", "GOSUMDB=off", "GOTOOLCHAIN=local", "VERIF_REPLAY_INPUT="+inFile)
	var buf bytes.Buffer
	cmd.Stdout = &buf
	cmd.Stderr = &buf
	err = cmd.Run()
	return buf.String(), err
}

func replayVerdict(out string) (confirmed bool, detail string) {
	for _, line := range strings.Split(out, "\n") {
		if strings.Contains(line, "REPLAY-CONFIRMED") {
			return true, strings.TrimSpace(line)
		}
	}
	for _, line := range strings.Split(out, "\n") {
		if strings.Contains(line, "REPLAY-NOT-REPRODUCED") || strings.Contains(line, "REPLAY-PRECONDITION") {
			return false, strings.TrimSpace(line)
		}
	}
	return false, "replay did not run: " + firstLines(out, 6)
}

// the race detector reserves a large virtual address range: no address-space limit for it
func ulimitFor(flags string) string {
	if strings.Contains(flags, "-race") {
		return ""
	}
	return "ulimit -v 8000000; "
}
