package main

import "strings"

// C08 replay (constant attributes): the real parser and formatter. A template with one constant attribute is
// parsed, formatted, and the formatter's output parsed again: it must be accepted, carry the same attribute value,
// and format to itself.

const c08Harness = `package parser

import (
	"bytes"
	"fmt"
	"strings"
	"testing"
)

func verifAttr(tf TemplateFile) (ConstantAttribute, bool) {
	for _, n := range tf.Nodes {
		if t, ok := n.(*HTMLTemplate); ok {
			for _, c := range t.Children {
				if el, ok := c.(*Element); ok {
					for _, a := range el.Attributes {
						if ca, ok := a.(*ConstantAttribute); ok {
							return *ca, true
						}
					}
				}
			}
		}
		if t, ok := n.(HTMLTemplate); ok {
			for _, c := range t.Children {
				if el, ok := c.(Element); ok {
					for _, a := range el.Attributes {
						if ca, ok := a.(ConstantAttribute); ok {
							return ca, true
						}
					}
				}
			}
		}
	}
	return ConstantAttribute{}, false
}

func TestVerifReplayC08(t *testing.T) {
	alpha := []string{"&quot;", "&#39;", "&amp;", "&amp;lt;", "&amp;quot;", "&", "a", " ", "&lt;", "&#34;", ";", "&amp", "&amp;copy=", "&amp;lt", "&amp;#39", "&amp;reg"}
	var vals []string
	vals = append(vals, "")
	for _, a := range alpha {
		vals = append(vals, a)
		for _, b := range alpha {
			vals = append(vals, a+b)
			for _, c := range []string{"&quot;", "&amp;", "a", "&#39;"} {
				vals = append(vals, a+b+c)
			}
		}
	}
	n := 0
	for _, q := range []string{"\"", "'"} {
		for _, v := range vals {
			other := "'"
			if q == "'" {
				other = "\""
			}
			for _, raw := range []string{v, v + other} { // also with the other quote kind raw inside
				src := "package p\n\ntempl x() {\n\t<p title=" + q + raw + q + ">x</p>\n}\n"
				tf, err := ParseString(src)
				if err != nil {
					continue
				}
				ca, ok := verifAttr(tf)
				if !ok {
					continue
				}
				n++
				var b bytes.Buffer
				if err := tf.Write(&b); err != nil {
					continue
				}
				out := b.String()
				tf2, err := ParseString(out)
				if err != nil {
					fmt.Printf("REPLAY-CONFIRMED the template %q (attribute value %q) is formatted to %q, which the parser rejects: %v\n", src, ca.Value, out, strings.ReplaceAll(err.Error(), "\n", " "))
					return
				}
				ca2, ok := verifAttr(tf2)
				if !ok || ca2.Name != ca.Name || ca2.Value != ca.Value {
					fmt.Printf("REPLAY-CONFIRMED the template %q has the attribute value %q; formatted to %q it has the value %q (found=%v)\n", src, ca.Value, out, ca2.Value, ok)
					return
				}
				var b2 bytes.Buffer
				tf2.Write(&b2)
				if b2.String() != out {
					fmt.Printf("REPLAY-CONFIRMED formatting %q gives %q, formatting that again gives %q\n", src, out, b2.String())
					return
				}
			}
		}
	}
	// constant properties of css components: name and value survive formatting byte for byte (the generator hashes
	// the text into the class name)
	cssProps := func(tf TemplateFile) (out []string) {
		for _, nd := range tf.Nodes {
			var props []CSSProperty
			switch t := nd.(type) {
			case CSSTemplate:
				props = t.Properties
			case *CSSTemplate:
				props = t.Properties
			}
			for _, p := range props {
				switch c := p.(type) {
				case ConstantCSSProperty:
					out = append(out, c.Name+"\x00"+c.Value)
				case *ConstantCSSProperty:
					out = append(out, c.Name+"\x00"+c.Value)
				}
			}
		}
		return out
	}
	for _, v := range []string{"red", "0   auto", "\"a  b\"", "opacity .2s ease,\n\t\ttransform .2s ease", "1px  solid\tblack", "url( 'a  b.png' )"} {
		src := "package p\n\ncss quote() {\n\tcontent: " + v + ";\n\tmargin :  " + v + " ;\n}\n"
		tf, err := ParseString(src)
		if err != nil {
			continue
		}
		n++
		var b bytes.Buffer
		if err := tf.Write(&b); err != nil {
			continue
		}
		tf2, err := ParseString(b.String())
		if err != nil {
			fmt.Printf("REPLAY-CONFIRMED the css component %q is formatted to %q, which the parser rejects: %v\n", src, b.String(), err)
			return
		}
		if a, c := strings.Join(cssProps(tf), "|"), strings.Join(cssProps(tf2), "|"); a != c || len(cssProps(tf)) == 0 {
			fmt.Printf("REPLAY-CONFIRMED the css component %q has the constant properties %q; formatted to %q it has %q\n", src, a, b.String(), c)
			return
		}
	}
	// static text: what is formatted must generate the same text (blanks before a line end included)
	textOf := func(tf TemplateFile) string {
		var sb strings.Builder
		var walk func(ns []Node)
		walk = func(ns []Node) {
			for _, nd := range ns {
				switch t := nd.(type) {
				case Text:
					sb.WriteString(t.Value + "|")
				case *Text:
					sb.WriteString(t.Value + "|")
				case Element:
					walk(t.Children)
				case *Element:
					walk(t.Children)
				}
			}
		}
		for _, nd := range tf.Nodes {
			switch t := nd.(type) {
			case HTMLTemplate:
				walk(t.Children)
			case *HTMLTemplate:
				walk(t.Children)
			}
		}
		return sb.String()
	}
	for _, body := range []string{"<pre>column a    column b   \n</pre>", "<div>Total:\t \n\t\t<b>12</b></div>", "<p>a  b</p>", "<span>x \n</span>"} {
		src := "package p\n\ntempl x() {\n\t" + body + "\n}\n"
		tf, err := ParseString(src)
		if err != nil {
			continue
		}
		n++
		var b bytes.Buffer
		if err := tf.Write(&b); err != nil {
			continue
		}
		tf2, err := ParseString(b.String())
		if err != nil {
			fmt.Printf("REPLAY-CONFIRMED the template %q is formatted to %q, which the parser rejects: %v\n", src, b.String(), err)
			return
		}
		if a, c := textOf(tf), textOf(tf2); a != c {
			fmt.Printf("REPLAY-CONFIRMED the template %q has the static texts %q; formatted to %q it has %q\n", src, a, b.String(), c)
			return
		}
	}
	fmt.Printf("REPLAY-NOT-REPRODUCED bounded search: static texts with blanks before a line end keep their bytes; css components with constant values holding runs of white space keep name and value; %d templates with one constant attribute (values built from character references, &, quotes; both quote kinds) format to an accepted template with the same attribute value, and that to itself\n", n)
}
`

func replayC08(r *Run, o *Obligation) *ReplayResult {
	if r.replayOut == nil {
		r.replayOut = map[string]string{}
	}
	out, ok := r.replayOut["C08"]
	if !ok {
		out, _ = r.runReplayTest("parser/v2", c08Harness, map[string]string{}, "TestVerifReplayC08")
		r.replayOut["C08"] = out
	}
	okc, detail := replayVerdict(out)
	_ = strings.TrimSpace
	return &ReplayResult{Confirmed: okc, Input: "templates with one constant attribute, formatted and parsed again by the real parser and formatter", Detail: detail}
}
