package main

// Contract-expression builtins (spec mode).

import (
	"fmt"
	"go/ast"
	"go/token"
	"go/types"
	"os"
	"strconv"
	"strings"
)

func (ec *evalCtx) specCall(call *ast.CallExpr) Value {
	name := ""
	switch f := call.Fun.(type) {
	case *ast.Ident:
		name = f.Name
	case *ast.SelectorExpr:
		return ec.specSelectorCall(call, f)
	default:
		panic(unsupported("call in contract: %s", exprText(call)))
	}
	arg := func(i int) Value { return ec.eval(call.Args[i]) }
	need := func(n int) {
		if len(call.Args) != n {
			panic(unsupported("%s expects %d arguments", name, n))
		}
	}
	switch name {
	case "old":
		need(1)
		if ec.old == nil {
			panic(unsupported("old() not available here"))
		}
		oc := &evalCtx{fc: ec.fc, st: ec.old, spec: true, scope: ec.scope, pkg: ec.pkg, noLocals: ec.noLocals, pol: ec.pol}
		if ec.oldScope != nil {
			oc.scope = ec.oldScope
		}
		return oc.eval(call.Args[0])
	case "implies":
		need(2)
		ec.pol = -ec.pol
		a := ec.evalBool(call.Args[0])
		ec.pol = -ec.pol
		ngImp := len(ec.st.guards)
		ec.st.guards = append(ec.st.guards, a)
		// a consequent that mentions a ghost `let` / local that does not exist on this path
		// means the defining point was not reached: the antecedent must then be false.
		var b *Term
		func() {
			defer func() {
				ec.st.guards = ec.st.guards[:ngImp] // also when the evaluation gives up
				if r := recover(); r != nil {
					if u, ok := r.(unsupportedErr); ok && ec.pol > 0 && (strings.Contains(u.msg, "unknown identifier") || strings.Contains(u.msg, "unknown ghost variable") || strings.Contains(u.msg, "definitely nil")) {
						b = False
						return
					}
					panic(r)
				}
			}()
			b = ec.evalBool(call.Args[1])
		}()
		return Implies(a, b)
	case "iff":
		need(2)
		sv := ec.pol
		ec.pol = 0
		a := ec.evalBool(call.Args[0])
		b := ec.evalBool(call.Args[1])
		ec.pol = sv
		return Eq(a, b)
	case "ite":
		need(3)
		sv := ec.pol
		ec.pol = 0
		c := ec.evalBool(call.Args[0])
		ec.pol = sv
		return mergeValue(c, arg(1), arg(2))
	case "forall", "exists":
		need(4)
		id, ok := call.Args[0].(*ast.Ident)
		if !ok {
			panic(unsupported("%s: first argument must be an identifier", name))
		}
		lo, hi := scalar(arg(1)), scalar(arg(2))
		// forall in a universal position / exists in an existential position: fresh constant
		skolem := (name == "forall" && ec.pol > 0) || (name == "exists" && ec.pol < 0)
		k := Var(ec.e().fresher.name(id.Name), SInt)
		saved, had := ec.scope[id.Name]
		if ec.scope == nil {
			ec.scope = map[string]Value{}
		}
		ec.scope[id.Name] = k
		body := ec.evalBool(call.Args[3])
		if had {
			ec.scope[id.Name] = saved
		} else {
			delete(ec.scope, id.Name)
		}
		rng := And(Le(lo, k), Lt(k, hi))
		if name == "forall" {
			if skolem {
				return Implies(rng, body)
			}
			return Forall([]*Term{k}, Implies(rng, body))
		}
		if skolem {
			return And(rng, body)
		}
		return Exists([]*Term{k}, And(rng, body))
	case "inL":
		need(2)
		lang, ok := call.Args[1].(*ast.Ident)
		if !ok {
			panic(unsupported("inL: second argument must be a language name"))
		}
		s := scalar(arg(0))
		if s.Op == "str.++" && ec.e().catClosed(lang.Name) {
			// L·L ⊆ L (decided by the language back end on this run): a concatenation of members is a member
			var parts []*Term
			for _, a := range s.Args {
				parts = append(parts, ec.e().inL(a, lang.Name))
			}
			ec.st.Assume(Implies(And(parts...), ec.e().inL(s, lang.Name)))
		}
		return ec.e().inL(s, lang.Name)
	case "trimLeft", "trimRight", "trimmed":
		need(1)
		return App(map[string]string{"trimLeft": "trim.left", "trimRight": "trim.right", "trimmed": "strings.TrimSpace"}[name], SStr, scalar(arg(0)))
	case "pos3":
		need(3)
		return &StructV{Names: []string{"Index", "Line", "Col"}, F: map[string]Value{"Index": arg(0), "Line": arg(1), "Col": arg(2)}}
	case "uf":
		// uf(name, args...): an uninterpreted specification function of the scalar leaves of its arguments - for ghost
		// attributes of values that the code does not represent (e.g. "the Go code this generator output belongs to")
		if len(call.Args) < 2 {
			panic(unsupported("uf(name, args...)"))
		}
		lit, ok := call.Args[0].(*ast.BasicLit)
		if !ok {
			panic(unsupported("uf: first argument must be a string literal"))
		}
		nm, _ := strconv.Unquote(lit.Value)
		var leaves []*Term
		var flat func(v Value)
		flat = func(v Value) {
			switch x := v.(type) {
			case *Term:
				leaves = append(leaves, x)
			case *StructV:
				for _, n := range x.Names {
					flat(x.F[n])
				}
			case *PtrV:
				leaves = append(leaves, x.Nil, Int(int64(x.Obj)))
			case *SliceV:
				leaves = append(leaves, x.Len)
				if x.Name != "" {
					leaves = append(leaves, Var("slice:"+x.Name, SInt))
				}
			case *IfaceV:
				leaves = append(leaves, x.Tag, x.Id)
			}
		}
		for i := 1; i < len(call.Args); i++ {
			flat(arg(i))
		}
		return App("uf:"+nm, SStr, leaves...)
	case "header", "headers":
		// header(h, "Key"): first value of the (canonicalised) key in the header map h; headers(h): the whole view
		mv, ok := arg(0).(*MapV)
		if !ok {
			panic(unsupported("%s: not a header map", name))
		}
		hv := scalar(ec.headerLval(mv).get())
		if name == "headers" {
			return hv
		}
		need(2)
		return Select(hv, canonHeaderKey(scalar(arg(1))))
	case "unquoted":
		// unquoted(x): the string strconv.Unquote(x) returns
		need(1)
		return App("strconv.Unquote", SStr, scalar(arg(0)))
	case "errvar":
		// errvar(): the variable named err if one is in scope (nil otherwise) - for clauses shared by many functions
		need(0)
		if obj, ok := ec.st.names["err"]; ok {
			if v, ok := ec.st.vars[obj]; ok {
				return v
			}
		}
		return Int(0)
	case "runeStart":
		// runeStart(s, k): byte offset k of s is where `for range s` (equivalently repeated DecodeRuneInString)
		// starts decoding a rune. Facts are published by range loops over s.
		need(2)
		return App("utf8.start", SBool, scalar(arg(0)), scalar(arg(1)))
	case "nlCount", "lineStart":
		// nlCount(s, i): number of line feeds in s[:i]; lineStart(s, i): offset just after the last line feed of
		// s[:i] (0 if none). Range loops over s publish the step facts (a line feed is a rune of its own).
		need(2)
		sT, iT := scalar(arg(0)), scalar(arg(1))
		cnt := func(i *Term) *Term { return App("nl.count", SInt, sT, i) }
		ls := func(i *Term) *Term { return App("nl.start", SInt, sT, i) }
		ec.st.Assume(And(Eq(cnt(Int(0)), Int(0)), Eq(ls(Int(0)), Int(0))))
		ec.st.Assume(Implies(Ge(iT, Int(0)), And(Ge(cnt(iT), Int(0)), Le(cnt(iT), iT), Le(Int(0), ls(iT)), Le(ls(iT), iT))))
		// byte-level facts about concatenations and single encoded runes (needed to follow the text a writer has produced)
		var catFacts func(x *Term)
		catFacts = func(x *Term) {
			full := func(y *Term) (*Term, *Term) {
				return App("nl.count", SInt, y, StrLen(y)), App("nl.start", SInt, y, StrLen(y))
			}
			switch {
			case x.Op == "str.++" && len(x.Args) >= 2:
				a, b := Concat(x.Args[:len(x.Args)-1]...), x.Args[len(x.Args)-1]
				ca, la := full(a)
				cb, lb := full(b)
				cx, lx := full(x)
				ec.st.Assume(And(Eq(cx, Add(ca, cb)), Eq(lx, Ite(Eq(cb, Int(0)), la, Add(StrLen(a), lb)))))
				ec.st.Assume(And(Ge(ca, Int(0)), Ge(cb, Int(0)), Le(Int(0), la), Le(la, StrLen(a)), Le(Int(0), lb), Le(lb, StrLen(b))))
				ec.e().trusted["spec functions nlCount / lineStart distribute over concatenation (byte-level counting; not mechanically derived from the step facts)"] = true
				catFacts(a)
				catFacts(b)
			case x.Op == "ite" && len(x.Args) == 3:
				catFacts(x.Args[1])
				catFacts(x.Args[2])
			case x.Op == "app" && x.Name == "utf8.encode" && len(x.Args) == 1:
				cx, lx := full(x)
				nl := Eq(x.Args[0], Int(10))
				ec.st.Assume(And(Eq(cx, Ite(nl, Int(1), Int(0))), Eq(lx, Ite(nl, Int(1), Int(0)))))
			case x.Op == "str":
				n := int64(strings.Count(x.Str, "\n"))
				cx, lx := full(x)
				ec.st.Assume(And(Eq(cx, Int(n)), Eq(lx, Int(int64(strings.LastIndex(x.Str, "\n")+1)))))
			}
		}
		if iT.Key() == StrLen(sT).Key() {
			catFacts(sT)
		}
		if name == "nlCount" {
			return cnt(iT)
		}
		return ls(iT)
	case "partOffset":
		// partOffset(s, sep, j): byte offset of part j of Split(s, sep) within s:
		//   off(0) = 0, off(j+1) = off(j) + len(part j) + len(sep); off(j) + len(part j) <= len(s)
		need(3)
		s, sep, j := scalar(arg(0)), scalar(arg(1)), scalar(arg(2))
		off := func(k *Term) *Term { return App("split.off", SInt, s, sep, k) }
		part := func(k *Term) *Term { return App("split.at", SStr, s, sep, k) }
		ln := App("split.len", SInt, s, sep)
		ec.st.Assume(Eq(off(Int(0)), Int(0)))
		prev := Sub(j, Int(1))
		ec.st.Assume(Implies(Gt(j, Int(0)), Eq(off(j), Add(Add(off(prev), StrLen(part(prev))), StrLen(sep)))))
		ec.st.Assume(Implies(And(Le(Int(0), j), Lt(j, ln)), And(Le(Int(0), off(j)), Le(Add(off(j), StrLen(part(j))), StrLen(s)),
			Eq(Substr(s, off(j), Add(off(j), StrLen(part(j)))), part(j)))))
		// the same facts for every part (needed when j is bound by a quantifier)
		q := Var("part?", SInt)
		qp := Sub(q, Int(1))
		ec.st.Assume(Forall([]*Term{q}, And(
			Implies(Gt(q, Int(0)), Eq(off(q), Add(Add(off(qp), StrLen(part(qp))), StrLen(sep)))),
			Implies(And(Le(Int(0), q), Lt(q, ln)), And(Le(Int(0), off(q)), Le(Add(off(q), StrLen(part(q))), StrLen(s)))))))
		ec.e().trusted["std:strings.Split (offsets of the parts within the string: off(j+1) = off(j) + len(part j) + len(sep))"] = true
		return off(j)
	case "splitJoin":
		// splitJoin(s, sep, L): assumed fact about strings.Split: if every part of Split(s, sep) is in L
		// then s is in L (sep L)*   [s == Join(parts, sep)]
		need(3)
		s, sep := scalar(arg(0)), scalar(arg(1))
		lang, ok := call.Args[2].(*ast.Ident)
		if !ok || !sep.IsStr() {
			panic(unsupported("splitJoin(s, \"sep\", LANG)"))
		}
		parts := splitModel(ec, s, sep).(*SliceV)
		k := Var(ec.e().fresher.name("part"), SInt)
		all := Forall([]*Term{k}, Implies(And(Le(Int(0), k), Lt(k, parts.Len)), ec.e().inL(scalar(parts.At(k)), lang.Name)))
		ec.e().trusted["std:strings.Split (s == Join(Split(s, sep), sep): if every part is in L then s is in L (sep L)*)"] = true
		return Implies(all, ec.e().inL(s, fmt.Sprintf("SEPLIST_%s_%x", lang.Name, sep.Str)))
	case "cat":
		var parts []*Term
		for i := range call.Args {
			parts = append(parts, scalar(arg(i)))
		}
		return Concat(parts...)
	case "sub":
		need(3)
		return Substr(scalar(arg(0)), scalar(arg(1)), scalar(arg(2)))
	case "seq":
		var vs []Value
		for i := range call.Args {
			vs = append(vs, arg(i))
		}
		return sliceLit(vs)
	case "concat":
		var res *SliceV
		for i := range call.Args {
			s, ok := arg(i).(*SliceV)
			if !ok {
				panic(unsupported("concat: argument %d is not a slice", i))
			}
			if res == nil {
				res = s
			} else {
				res = sliceAppend(res, s)
			}
		}
		return res
	case "len":
		need(1)
		switch x := arg(0).(type) {
		case *SliceV:
			return x.Len
		case *Term:
			return StrLen(x)
		case *MapV:
			return ec.mapLen(x)
		}
		panic(unsupported("len in contract"))
	case "min", "max":
		need(2)
		a, b := scalar(arg(0)), scalar(arg(1))
		if name == "min" {
			return Ite(Le(a, b), a, b)
		}
		return Ite(Ge(a, b), a, b)
	case "json":
		// json(v): the bytes json.Marshal(v) produces when it succeeds
		need(1)
		d, _ := jsonMarshalModel(ec, arg(0))
		return d
	case "noErrorIn":
		// noErrorIn(xs): no element of the []any xs is a non-nil error
		need(1)
		sl, ok := arg(0).(*SliceV)
		if !ok || !sl.Len.IsInt() {
			return Var(ec.e().fresher.name("noErrorIn"), SBool)
		}
		var cs []*Term
		etag := ec.e().typeTag("error")
		for i := int64(0); i < sl.Len.Int.Int64(); i++ {
			if iv, ok := sl.At(Int(i)).(*IfaceV); ok {
				cs = append(cs, Implies(Eq(iv.Tag, Int(etag)), Eq(iv.Id, Int(0))))
			}
		}
		return And(cs...)
	case "regFold", "emitFold":
		// regFold(items, R0, n, prefix, keyField): registry after the first n items: R(0) = R0, R(k+1) = R(k) ∪ {prefix + items[k].keyField}
		// emitFold(items, R0, n, prefix, keyField, textField): text emitted for the first n items:
		//   E(0) = "", E(k+1) = E(k) ++ (prefix + items[k].keyField ∈ R(k) ? "" : items[k].textField)
		sl, ok := arg(0).(*SliceV)
		if !ok {
			panic(unsupported("%s: first argument must be a slice", name))
		}
		r0, ok := arg(1).(*MapV)
		if !ok {
			panic(unsupported("%s: second argument must be a map", name))
		}
		n := scalar(arg(2))
		prefix := scalar(arg(3))
		keyField := exprString(call.Args[4])
		textField := ""
		if name == "emitFold" {
			textField = exprString(call.Args[5])
		}
		return ec.foldModel(name, sl, r0, n, prefix, keyField, textField)
	case "flat":
		// flat(ss, n): concatenation of the first n elements of a slice of strings
		need(2)
		sl, ok := arg(0).(*SliceV)
		if !ok {
			panic(unsupported("flat: not a slice"))
		}
		n := scalar(arg(1))
		if n.IsInt() && (sl.Len.IsInt() || sl.Name == "") {
			var parts []*Term
			for i := int64(0); i < n.Int.Int64(); i++ {
				parts = append(parts, scalar(sl.At(Int(i))))
			}
			return Concat(parts...)
		}
		if sl.Name == "" {
			panic(unsupported("flat of a derived slice with symbolic count"))
		}
		f := func(k *Term) *Term { return App("flat:"+sl.Name, SStr, k) }
		ec.st.Assume(Eq(f(Int(0)), Str("")))
		ec.st.Assume(Implies(Gt(n, Int(0)), Eq(f(n), Concat(f(Sub(n, Int(1))), scalar(sl.At(Sub(n, Int(1))))))))
		return f(n)
	case "lengths":
		need(1)
		s := arg(0).(*SliceV)
		return &SliceV{Len: s.Len, Nil: False, At: func(i *Term) Value { return StrLen(scalar(s.At(i))) }}
	case "split":
		need(2)
		return splitModel(ec, scalar(arg(0)), scalar(arg(1)))
	case "isPrefix":
		need(2)
		return mk("str.prefixof", SBool, scalar(arg(0)), scalar(arg(1)))
	case "isSuffix":
		need(2)
		return mk("str.suffixof", SBool, scalar(arg(0)), scalar(arg(1)))
	case "contains":
		need(2)
		return mk("str.contains", SBool, scalar(arg(0)), scalar(arg(1)))
	case "has":
		// has(m, k): key present in map
		need(2)
		return Select(arg(0).(*MapV).Dom, keyTerm(arg(1)))
	case "monotone":
		// monotone(A, B): every key of map view A is a key of B
		need(2)
		a, b := arg(0).(*MapV), arg(1).(*MapV)
		k := Var(ec.e().fresher.name("key"), a.K)
		body := Implies(Select(a.Dom, k), Select(b.Dom, k))
		if ec.pol > 0 {
			return body
		}
		return Forall([]*Term{k}, body)
	case "withKey":
		// withKey(m, k): the map view m with key k added (values unchanged)
		need(2)
		m := arg(0).(*MapV)
		n := *m
		n.Dom = Store(m.Dom, keyTerm(arg(1)), True)
		return &n
	case "in":
		need(1)
		return ec.inLval(arg(0)).get()
	case "ctxerr":
		need(1)
		iv, ok := arg(0).(*IfaceV)
		if !ok {
			panic(unsupported("ctxerr of %T", arg(0)))
		}
		return App("ctx.Err", SInt, iv.Id)
	case "cv":
		// cv(): the context value shared by every context of the current render
		need(0)
		return ec.e().renderCV(ec.st)
	case "slot":
		// slot(): the component in the children slot of the render's context value, nil if empty
		need(0)
		cvp := ec.e().renderCV(ec.st)
		sv := ec.st.heap[cvp.Obj].(*StructV)
		ch, ok := sv.F["children"].(*PtrV)
		if !ok {
			panic(unsupported("slot(): contextValue.children is not a pointer"))
		}
		nilIface := &IfaceV{Tag: Int(0), Id: Int(0), Payloads: map[string]Value{}}
		if ch.Obj < 0 {
			return nilIface
		}
		content, ok := ec.st.heap[ch.Obj].(*IfaceV)
		if !ok {
			if bx, isBox := ec.st.heap[ch.Obj].(*boxedV); isBox {
				content, ok = ec.st.heap[bx.Obj].(*IfaceV)
			}
			if !ok {
				panic(unsupported("slot(): children does not point to a Component (%T)", ec.st.heap[ch.Obj]))
			}
		}
		return mergeValue(ch.Nil, nilIface, content)
	case "doc":
		need(1)
		return ec.docValue(arg(0))
	case "sink":
		need(1)
		return ec.sinkValue(arg(0))
	case "pending", "sticky", "target":
		need(1)
		p, ok := arg(0).(*PtrV)
		if !ok {
			panic(unsupported("%s of %T", name, arg(0)))
		}
		sv, ok := ec.st.heap[p.Obj].(*StructV)
		if !ok || sv.F["$target"] == nil {
			panic(unsupported("%s: not a bufio.Writer object", name))
		}
		return sv.F[map[string]string{"pending": "buf", "sticky": "$err", "target": "$target"}[name]]
	case "payload":
		// payload(w, T): the value of dynamic type T held by interface value w
		need(2)
		iv, ok := arg(0).(*IfaceV)
		if !ok {
			panic(unsupported("payload of %T", arg(0)))
		}
		t := ec.e().evalTypeExpr(ec.pkg, ec.typePos(), call.Args[1])
		_, p := ec.assertTo(iv, t)
		if os.Getenv("GOVC_DEBUG") != "" {
			fmt.Fprintf(os.Stderr, "payload(%s) type=%v underlying=%T value=%T\n", exprText(call.Args[1]), t, t.Underlying(), p)
		}
		return p
	case "underlying":
		need(1)
		sv, _, ok := ec.runtimeBufferSym(arg(0))
		if !ok {
			panic(unsupported("underlying: not a runtime.Buffer"))
		}
		return sv.F["Underlying"]
	case "chantag", "chancap":
		// ghost attributes of a channel: the tag every message on it carries (bound once, by an init clause, while
		// the channel is fresh) and its capacity
		need(1)
		return App(map[string]string{"chantag": "chan.tag", "chancap": "chan.cap"}[name], SInt, scalar(arg(0)))
	case "wraps":
		// wraps(e, cause): e is cause, or e was built from it with %w (errors.Is(e, cause) holds)
		need(2)
		a, b := scalar(arg(0)), scalar(arg(1))
		return Or(Eq(a, b), App("err.wraps", SBool, a, b))
	case "chanopen":
		need(1)
		return Select(chanOpenArr(ec.st), scalar(arg(0)))
	case "implements":
		// implements(x, T): the dynamic type of the interface value x implements the interface type T
		need(2)
		iv, ok := arg(0).(*IfaceV)
		if !ok {
			panic(unsupported("implements of %T", arg(0)))
		}
		t := ec.e().evalTypeExpr(ec.pkg, ec.typePos(), call.Args[1])
		return And(Not(Eq(iv.Tag, Int(0))), App("implements:"+types.TypeString(t, nil), SBool, iv.Tag))
	case "freshchan":
		need(1)
		if c, ok := arg(0).(*Term); ok && c.Op == "var" {
			if f, ok := ec.st.ghost["chanfresh:"+c.Name].(*Term); ok {
				return f
			}
		}
		return False
	case "keyof":
		// the map-key encoding of a comparable value, with its inverse functions (so that equal keys mean equal fields)
		need(1)
		v := arg(0)
		k := keyTerm(v)
		if sv, ok := v.(*StructV); ok {
			for i, n := range sv.Names {
				f := keyTerm(sv.F[n])
				ec.st.Assume(Eq(App(k.Name+".inv"+strconv.Itoa(i), f.Sort, k), f))
			}
		}
		return k
	case "forallkey":
		// forallkey(k, m, body): body for every key k of the map m
		need(3)
		id, ok := call.Args[0].(*ast.Ident)
		if !ok {
			panic(unsupported("forallkey: first argument must be an identifier"))
		}
		m, ok := arg(1).(*MapV)
		if !ok {
			panic(unsupported("forallkey over %T", arg(1)))
		}
		k := Var(ec.e().fresher.name(id.Name), m.K)
		saved, had := ec.scope[id.Name]
		if ec.scope == nil {
			ec.scope = map[string]Value{}
		}
		ec.scope[id.Name] = k
		body := ec.evalBool(call.Args[2])
		if had {
			ec.scope[id.Name] = saved
		} else {
			delete(ec.scope, id.Name)
		}
		if ec.pol > 0 {
			return Implies(Select(m.Dom, k), body)
		}
		return Forall([]*Term{k}, Implies(Select(m.Dom, k), body))
	case "dyntype":
		need(2)
		a0 := arg(0)
		if a0 == nil {
			// an element of a slice that is known to be empty: nothing is known (and nothing can be asked) about it
			return Var(ec.e().fresher.name("dyntype.none"), SBool)
		}
		iv, ok := a0.(*IfaceV)
		if !ok {
			panic(unsupported("dyntype of %T", a0))
		}
		t := ec.e().evalTypeExpr(ec.pkg, ec.typePos(), call.Args[1])
		return Eq(iv.Tag, Int(ec.e().typeTag(types.TypeString(t, nil))))
	case "held", "xheld":
		// held(mu): this goroutine holds mu (exclusively or shared); xheld(mu): exclusively
		need(1)
		get := func(k string) *Term {
			if v, ok := ec.st.ghost[k+exprString(call.Args[0])].(*Term); ok {
				return v
			}
			return False
		}
		if name == "xheld" {
			return get("lock:")
		}
		return Or(get("lock:"), get("rlock:"))
	case "itoa":
		need(1)
		return itoaModel(ec, scalar(arg(0)))
	case "out", "refused", "tr", "ghost", "evSet", "evStatus", "evWrite", "evError", "evDelegate":
		return ec.ghostCall(name, call)
	case "int", "int64", "int32", "uint32", "uint8", "byte", "rune", "uint", "uint64", "string":
		need(1)
		return arg(0)
	case "chr":
		need(1)
		return FromCode(scalar(arg(0)))
	case "jsunit":
		need(1)
		t := scalar(arg(0))
		if !t.IsStr() {
			panic(unsupported("jsunit needs a constant string"))
		}
		return Int(jsUnitValue(t.Str))
	case "isnil":
		need(1)
		return ec.eqValues(arg(0), nilMarker{})
	}
	if sf, ok := ec.e().cs.Specs[name]; ok {
		if len(call.Args) != len(sf.Params) {
			panic(unsupported("spec %s expects %d arguments", name, len(sf.Params)))
		}
		scope := map[string]Value{}
		for i, p := range sf.Params {
			scope[p] = arg(i)
		}
		sub := &evalCtx{fc: ec.fc, st: ec.st, spec: true, scope: scope, pkg: ec.e().pkgs[sf.Pkg], noLocals: true, pol: ec.pol, old: ec.old, oldScope: ec.oldScope}
		return sub.eval(sf.Body)
	}
	// conversion to a named type of the package: identity
	if ec.pkg != nil {
		if obj := ec.pkg.Types.Scope().Lookup(name); obj != nil {
			if _, ok := obj.(*types.TypeName); ok && len(call.Args) == 1 {
				return arg(0)
			}
		}
	}
	panic(unsupported("unknown function %q in contract", name))
}

func (ec *evalCtx) specSelectorCall(call *ast.CallExpr, sel *ast.SelectorExpr) Value {
	// pkg.Func(args) for pure library models
	if id, ok := sel.X.(*ast.Ident); ok {
		full := id.Name + "." + sel.Sel.Name
		if _, shadow := ec.scope[id.Name]; !shadow {
			if _, isLocal := ec.st.names[id.Name]; !isLocal || ec.noLocals {
				if m, ok := specModels[full]; ok {
					var args []Value
					for _, a := range call.Args {
						args = append(args, ec.eval(a))
					}
					ec.e().trusted["std:"+full] = true
					return m(ec, args)
				}
			}
		}
	}
	// value.Method()
	recv := ec.derefQuiet(ec.eval(sel.X))
	switch sel.Sel.Name {
	case "String", "Bytes":
		if sv, ok := recv.(*StructV); ok {
			if b, ok := sv.F["buf"]; ok {
				return b
			}
		}
	case "Len":
		if sv, ok := recv.(*StructV); ok {
			if b, ok := sv.F["buf"]; ok {
				return StrLen(scalar(b))
			}
		}
	}
	panic(unsupported("method call %s in contract", exprText(call)))
}

func (ec *evalCtx) ghostCall(name string, call *ast.CallExpr) Value {
	switch name {
	case "out":
		return ec.outLval(ec.eval(call.Args[0])).get()
	case "refused":
		return ec.refusedLval(ec.eval(call.Args[0])).get()
	case "tr":
		return ec.traceLval(ec.eval(call.Args[0])).get()
	case "evSet":
		return mkEvent(evSetHeader, scalar(ec.eval(call.Args[0])), scalar(ec.eval(call.Args[1])), nil, nil)
	case "evStatus":
		return mkEvent(evWriteHeader, nil, nil, scalar(ec.eval(call.Args[0])), nil)
	case "evWrite":
		return mkEvent(evWriteBody, scalar(ec.eval(call.Args[0])), nil, nil, nil)
	case "evError":
		return mkEvent(evHTTPError, scalar(ec.eval(call.Args[0])), nil, scalar(ec.eval(call.Args[1])), nil)
	case "evDelegate":
		v := ec.eval(call.Args[0])
		var id *Term
		switch h := v.(type) {
		case *IfaceV:
			id = h.Id
		case *Term:
			id = h
		default:
			panic(unsupported("evDelegate of %T", v))
		}
		return mkEvent(evDelegate, nil, nil, nil, id)
	case "ghost":
		id, ok := call.Args[0].(*ast.Ident)
		if !ok {
			panic(unsupported("ghost(name)"))
		}
		if v, ok := ec.st.ghost["let:"+id.Name]; ok {
			return v
		}
		panic(unsupported("unknown ghost variable %s", id.Name))
	}
	return nil
}

func writerKey(ec *evalCtx, w Value) string {
	switch x := w.(type) {
	case *IfaceV:
		if len(x.Payloads) == 1 && x.Tag.IsInt() {
			for _, p := range x.Payloads {
				if pv, ok := p.(*PtrV); ok && pv.Obj >= 0 {
					return fmt.Sprintf("obj%d", pv.Obj)
				}
			}
		}
		return x.Id.Key()
	case *PtrV:
		return fmt.Sprintf("obj%d", x.Obj)
	case *Term:
		return x.Key()
	}
	panic(unsupported("writer identity of %T", w))
}

// jsUnitValue: the code point denoted by a single JavaScript string escape
// (ECMAScript EscapeSequence), or -1 if s is not exactly one escape.
func jsUnitValue(s string) int64 {
	if len(s) < 2 || s[0] != '\\' {
		return -1
	}
	hexv := func(h string) int64 {
		var v int64
		for i := 0; i < len(h); i++ {
			c := h[i]
			switch {
			case c >= '0' && c <= '9':
				v = v*16 + int64(c-'0')
			case c >= 'a' && c <= 'f':
				v = v*16 + int64(c-'a') + 10
			case c >= 'A' && c <= 'F':
				v = v*16 + int64(c-'A') + 10
			default:
				return -1
			}
		}
		return v
	}
	switch s[1] {
	case 'u':
		if len(s) != 6 {
			return -1
		}
		return hexv(s[2:])
	case 'x':
		if len(s) != 4 {
			return -1
		}
		return hexv(s[2:])
	}
	if len(s) != 2 {
		return -1
	}
	switch s[1] {
	case 'n':
		return '\n'
	case 't':
		return '\t'
	case 'r':
		return '\r'
	case 'f':
		return '\f'
	case 'v':
		return '\v'
	case 'b':
		return '\b'
	case '0', '1', '2', '3', '4', '5', '6', '7', '8', '9', '\n', '\r':
		return -1
	}
	return int64(s[1]) // identity escape
}

// typePos: a position for resolving type expressions of contracts: inside the
// function body when the contract belongs to the function's own package (file
// imports are visible), otherwise the package scope.
func (ec *evalCtx) typePos() token.Pos {
	if ec.fc != nil && ec.fc.body != nil && ec.pkg == ec.fc.pkg {
		return ec.fc.body.Lbrace + 1
	}
	return token.NoPos
}

// foldModel: the recursive specification functions of "emit if absent, then
// record" over a list, as uninterpreted functions of the step number with
// their defining equations instantiated at the requested step (and unfolded
// completely for lists of constant length).
func (ec *evalCtx) foldModel(which string, sl *SliceV, r0 *MapV, n, prefix *Term, keyField, textField string) Value {
	field := func(i *Term, f string) *Term {
		el := ec.derefQuiet(sl.At(i))
		sv, ok := el.(*StructV)
		if !ok {
			panic(unsupported("fold: elements are not structs"))
		}
		t, ok := sv.F[f].(*Term)
		if !ok {
			panic(unsupported("fold: no scalar field %s", f))
		}
		return t
	}
	key := func(i *Term) *Term { return Concat(prefix, field(i, keyField)) }
	if n.IsInt() && sl.Len.IsInt() {
		// constant length: unfold
		dom := r0.Dom
		var text *Term = Str("")
		for k := int64(0); k < n.Int.Int64(); k++ {
			ik := Int(k)
			if textField != "" {
				text = Concat(text, Ite(Select(dom, key(ik)), Str(""), field(ik, textField)))
			}
			dom = Store(dom, key(ik), True)
		}
		if which == "emitFold" {
			return text
		}
		m := *r0
		m.Dom = dom
		return &m
	}
	if sl.Name == "" {
		panic(unsupported("fold over a derived slice with symbolic count"))
	}
	id := sl.Name + "|" + r0.Dom.Key() + "|" + prefix.Key() + "|" + keyField
	tag := fmt.Sprintf("%x", hashString(id))
	R := func(k *Term) *Term { return App("regFold:"+tag, r0.Dom.Sort, k) }
	E := func(k *Term) *Term { return App("emitFold:"+tag+":"+textField, SStr, k) }
	prev := Sub(n, Int(1))
	ec.st.Assume(Eq(R(Int(0)), r0.Dom))
	ec.st.Assume(Implies(Gt(n, Int(0)), Eq(R(n), Store(R(prev), key(prev), True))))
	if which == "regFold" {
		m := *r0
		m.Dom = R(n)
		return &m
	}
	ec.st.Assume(Eq(E(Int(0)), Str("")))
	ec.st.Assume(Implies(Gt(n, Int(0)), Eq(E(n), Concat(E(prev), Ite(Select(R(prev), key(prev)), Str(""), field(prev, textField))))))
	return E(n)
}

func hashString(s string) uint64 {
	var h uint64 = 1469598103934665603
	for i := 0; i < len(s); i++ {
		h ^= uint64(s[i])
		h *= 1099511628211
	}
	return h
}
