package main

// A small HTML tokenizer state machine run over the constant literals that
// generated code writes; it gives the ghost "HTML context" in which every
// dynamic sink of a generated component is reached.

import (
	"strings"
)

type htmlState struct {
	Mode string // DATA TAGOPEN TAGNAME INTAG ATTRNAME AFTERNAME BEFOREVALUE ATTR_DQ ATTR_SQ ATTR_UQ COMMENT SCRIPT STYLE ENDTAG BOGUS
	Tag  string // current element (lower case)
	Attr string // current attribute (lower case)
	Js   string // inside SCRIPT: stack of lexical contexts, innermost last (see advanceHTML): "" = code
	Esc  bool   // inside a JS string: previous char was a backslash
	Dol  bool   // inside a template literal: previous char was an unescaped $ (a following { opens an interpolation)
	Raw  string // SCRIPT/STYLE: pending text that may be the start of the end tag
	Pend string // partial token (comment opener etc.)
}

func (s htmlState) Key() string {
	switch s.Mode {
	case "ATTR_DQ", "ATTR_SQ", "ATTR_UQ":
		return s.Mode + ":" + s.Tag + ":" + s.Attr
	case "SCRIPT":
		if s.Esc {
			return "SCRIPT:" + s.Js + ":esc"
		}
		if s.Dol {
			return "SCRIPT:" + s.Js + ":dollar"
		}
		return "SCRIPT:" + s.Js
	case "INTAG", "ATTRNAME", "AFTERNAME", "BEFOREVALUE", "TAGNAME":
		return s.Mode + ":" + s.Tag
	}
	return s.Mode
}

func parseHTMLKey(k string) htmlState {
	p := strings.Split(k, ":")
	s := htmlState{Mode: p[0]}
	switch p[0] {
	case "ATTR_DQ", "ATTR_SQ", "ATTR_UQ":
		if len(p) >= 3 {
			s.Tag, s.Attr = p[1], p[2]
		}
	case "SCRIPT":
		if len(p) >= 2 {
			s.Js = p[1]
			// "/*" and "//" contain no colon; fine
		}
		if len(p) >= 3 && p[2] == "esc" {
			s.Esc = true
		}
		if len(p) >= 3 && p[2] == "dollar" {
			s.Dol = true
		}
		s.Tag = "script"
	case "STYLE":
		s.Tag = "style"
	case "INTAG", "ATTRNAME", "AFTERNAME", "BEFOREVALUE", "TAGNAME":
		if len(p) >= 2 {
			s.Tag = p[1]
		}
	}
	return s
}

func isSpaceByte(c byte) bool { return c == ' ' || c == '\t' || c == '\n' || c == '\r' || c == '\f' }
func isLetter(c byte) bool    { return c >= 'a' && c <= 'z' || c >= 'A' && c <= 'Z' }

func afterTagClose(s htmlState) htmlState {
	switch s.Tag {
	case "script":
		return htmlState{Mode: "SCRIPT", Tag: "script"}
	case "style":
		return htmlState{Mode: "STYLE", Tag: "style"}
	}
	return htmlState{Mode: "DATA"}
}

// advanceHTML consumes literal text.
func advanceHTML(s htmlState, lit string) htmlState {
	for i := 0; i < len(lit); i++ {
		c := lit[i]
		switch s.Mode {
		case "DATA":
			if c == '<' {
				if strings.HasPrefix(lit[i:], "<!--") {
					s = htmlState{Mode: "COMMENT"}
					i += 3
					continue
				}
				s = htmlState{Mode: "TAGOPEN"}
			}
		case "TAGOPEN":
			switch {
			case c == '/':
				s = htmlState{Mode: "ENDTAG"}
			case isLetter(c):
				s = htmlState{Mode: "TAGNAME", Tag: strings.ToLower(string(c))}
			case c == '!' || c == '?':
				s = htmlState{Mode: "BOGUS"}
			default:
				s = htmlState{Mode: "DATA"}
			}
		case "ENDTAG", "BOGUS":
			if c == '>' {
				s = htmlState{Mode: "DATA"}
			}
		case "COMMENT":
			if c == '-' && strings.HasPrefix(lit[i:], "-->") {
				s = htmlState{Mode: "DATA"}
				i += 2
			}
		case "TAGNAME":
			switch {
			case isSpaceByte(c) || c == '/':
				s.Mode = "INTAG"
			case c == '>':
				s = afterTagClose(s)
			default:
				s.Tag += strings.ToLower(string(c))
			}
		case "INTAG":
			switch {
			case isSpaceByte(c) || c == '/':
			case c == '>':
				s = afterTagClose(s)
			default:
				s.Mode = "ATTRNAME"
				s.Attr = strings.ToLower(string(c))
			}
		case "ATTRNAME":
			switch {
			case isSpaceByte(c) || c == '/':
				s.Mode = "AFTERNAME"
			case c == '=':
				s.Mode = "BEFOREVALUE"
			case c == '>':
				s = afterTagClose(s)
			default:
				s.Attr += strings.ToLower(string(c))
			}
		case "AFTERNAME":
			switch {
			case isSpaceByte(c) || c == '/':
			case c == '=':
				s.Mode = "BEFOREVALUE"
			case c == '>':
				s = afterTagClose(s)
			default:
				s.Mode = "ATTRNAME"
				s.Attr = strings.ToLower(string(c))
			}
		case "BEFOREVALUE":
			switch {
			case isSpaceByte(c):
			case c == '"':
				s.Mode = "ATTR_DQ"
			case c == '\'':
				s.Mode = "ATTR_SQ"
			case c == '>':
				s = afterTagClose(s)
			default:
				s.Mode = "ATTR_UQ"
			}
		case "ATTR_DQ":
			if c == '"' {
				s.Mode = "INTAG"
				s.Attr = ""
			}
		case "ATTR_SQ":
			if c == '\'' {
				s.Mode = "INTAG"
				s.Attr = ""
			}
		case "ATTR_UQ":
			if isSpaceByte(c) {
				s.Mode = "INTAG"
				s.Attr = ""
			} else if c == '>' {
				s = afterTagClose(s)
			}
		case "STYLE":
			if c == '<' && len(lit) >= i+7 && strings.EqualFold(lit[i:i+7], "</style") {
				s = htmlState{Mode: "ENDTAG"}
				i += 6
			}
		case "SCRIPT":
			if c == '<' && len(lit) >= i+8 && strings.EqualFold(lit[i:i+8], "</script") {
				s = htmlState{Mode: "ENDTAG"}
				i += 7
				continue
			}
			// s.Js is the stack of JavaScript lexical contexts, innermost last: a quote character = inside that
			// string literal, "{" = code inside a template-literal interpolation (one per open brace), "//" and "/*"
			// = comments. Empty = top-level code.
			switch top := jsTop(s.Js); top {
			case "", "{":
				switch {
				case c == '\'' || c == '"' || c == '`':
					s.Js += string(c)
				case c == '/' && i+1 < len(lit) && lit[i+1] == '/':
					s.Js += "//"
					i++
				case c == '/' && i+1 < len(lit) && lit[i+1] == '*':
					s.Js += "/*"
					i++
				case c == '{' && top == "{":
					s.Js += "{"
				case c == '}' && top == "{":
					s.Js = s.Js[:len(s.Js)-1]
				}
			case "'", "\"", "`":
				wasDol := s.Dol
				s.Dol = false
				switch {
				case wasDol && c == '{':
					s.Js += "{" // the $ that ended the previous literal and this { open an interpolation
				case s.Esc:
					s.Esc = false
				case c == '\\':
					s.Esc = true
				case string(c) == top:
					s.Js = s.Js[:len(s.Js)-1]
				case c == '\n' && top != "`":
					s.Js = s.Js[:len(s.Js)-1] // unterminated string: the JS lexer gives up at the line end
				case c == '$' && top == "`" && i+1 < len(lit) && lit[i+1] == '{':
					s.Js += "{" // ${ opens an interpolation: what follows is code until the matching }
					i++
				case c == '$' && top == "`":
					s.Dol = true
				}
			case "//":
				if c == '\n' {
					s.Js = s.Js[:len(s.Js)-2]
				}
			case "/*":
				if c == '*' && i+1 < len(lit) && lit[i+1] == '/' {
					s.Js = s.Js[:len(s.Js)-2]
					i++
				}
			}
		}
	}
	return s
}

// jsTop: the innermost JavaScript lexical context of a context stack.
func jsTop(js string) string {
	switch {
	case js == "":
		return ""
	case strings.HasSuffix(js, "//"):
		return "//"
	case strings.HasSuffix(js, "/*"):
		return "/*"
	}
	return js[len(js)-1:]
}
