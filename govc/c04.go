package main

import (
	"fmt"
	"strconv"
	"strings"
)

func replayC04(r *Run, o *Obligation) *ReplayResult {
	ok := r.e.langs.Get("URL_BROWSER_OK")
	var cands []string
	what := ""
	if o.HasWitness {
		cands = append(cands, o.Witness)
		what = "language-lemma witness"
	} else if o.Verdict == "sat" {
		if vals, found := r.modelValues(o, []string{"(assert (str.in_re s " + smtBytes + "))"}, []string{"s"}); found {
			if s, good := smtString(vals["s"]); good {
				cands = append(cands, s)
				what = "solver model"
			}
		}
	}
	check := func(ins []string) (string, string, bool) {
		outs, err := r.evalStringFunc(".", "templ", "", "func(s string) string { return string(URL(s)) }", ins)
		if err != nil {
			return "", err.Error(), false
		}
		for i, in := range ins {
			if outs[i] == in && !reMatch(ok, in) && in != "about:invalid#TemplFailedSanitizationURL" {
				return in, fmt.Sprintf("templ.URL(%s) returned its input unchanged, but a browser resolves it with a scheme that is not allowed", strconv.Quote(in)), true
			}
			if strings.HasPrefix(outs[i], "PANIC:") {
				return in, "templ.URL panicked: " + outs[i], true
			}
			if outs[i] != in && outs[i] != "about:invalid#TemplFailedSanitizationURL" {
				return in, fmt.Sprintf("templ.URL(%s) = %s is neither the input nor the failure URL", strconv.Quote(in), strconv.Quote(outs[i])), true
			}
		}
		return "", "not reproduced", false
	}
	if len(cands) > 0 {
		if in, detail, bad := check(cands); bad {
			return &ReplayResult{Confirmed: true, Input: what + ": " + strconv.Quote(in), Detail: "REPLAY-CONFIRMED " + detail}
		}
	}
	// bounded search on the real code
	alpha := []string{"j", "J", "h", "t", "p", "s", "S", ":", "/", "\t", "\n", " ", "\x00", "a", "ſ", "K", "&", "?"}
	ins := enumStrings(alpha, 4)
	for _, v := range []string{"javascript:alert(1)", "JAVASCRIPT:alert(1)", " javascript:x", "java\tscript:x", "\x01javascript:x", "vbscript:x", "data:text/html,x", "httpx://a", "http\n://a", "irc:x", "javascript&colon;x", "ht\ttps:x", "xhttp:y", "httpS:y", "https :y", "tel\r:1", "mailto\x00:a", "ftpſ:a", "ftp.s:a", "h+ttp:a"} {
		ins = append(ins, v)
	}
	if in, detail, bad := check(ins); bad {
		return &ReplayResult{Confirmed: true, Input: "bounded search: " + strconv.Quote(in), Detail: "REPLAY-CONFIRMED " + detail}
	}
	return &ReplayResult{Confirmed: false, Input: fmt.Sprintf("bounded search over %d strings (adversarial alphabet, length <= 4, plus known vectors)", len(ins)), Detail: "REPLAY-NOT-REPRODUCED"}
}
