package main

// Regular languages over bytes: syntax, Brzozowski derivatives with
// intersection and complement, emptiness / inclusion with shortest witness,
// SMT-LIB rendering for the z3 cross-check, and conversion from Go regexps.

import (
	"fmt"
	"os"
	"path/filepath"
	"regexp"
	"regexp/syntax"
	"sort"
	"strconv"
	"strings"
	"sync/atomic"
	"unicode"
	"unicode/utf8"
)

type byteSet [4]uint64

func (s *byteSet) add(b byte)     { s[b>>6] |= 1 << (b & 63) }
func (s byteSet) has(b byte) bool { return s[b>>6]&(1<<(b&63)) != 0 }
func (s byteSet) empty() bool     { return s == byteSet{} }
func (s byteSet) full() bool      { return s == byteSet{^uint64(0), ^uint64(0), ^uint64(0), ^uint64(0)} }
func (s byteSet) not() byteSet    { return byteSet{^s[0], ^s[1], ^s[2], ^s[3]} }
func (s byteSet) or(t byteSet) byteSet {
	return byteSet{s[0] | t[0], s[1] | t[1], s[2] | t[2], s[3] | t[3]}
}
func (s byteSet) and(t byteSet) byteSet {
	return byteSet{s[0] & t[0], s[1] & t[1], s[2] & t[2], s[3] & t[3]}
}
func (s byteSet) String() string { return fmt.Sprintf("%x.%x.%x.%x", s[0], s[1], s[2], s[3]) }
func rangeSet(lo, hi byte) byteSet {
	var s byteSet
	for b := int(lo); b <= int(hi); b++ {
		s.add(byte(b))
	}
	return s
}

type Re struct {
	op   string // "none" "eps" "set" "cat" "alt" "and" "not" "star"
	set  byteSet
	subs []*Re
	key  string
	null int32 // 0 unknown, 1 nullable, -1 not (atomic: languages are shared between the discharge goroutines)
}

var (
	reNone = &Re{op: "none", key: "0"}
	reEps  = &Re{op: "eps", key: "e"}
	reAll  = &Re{op: "not", subs: []*Re{reNone}, key: "!(0)"}
)

func reSet(s byteSet) *Re {
	if s.empty() {
		return reNone
	}
	return &Re{op: "set", set: s, key: "[" + s.String() + "]"}
}
func reByte(b byte) *Re { var s byteSet; s.add(b); return reSet(s) }
func reAny() *Re        { return reSet(byteSet{}.not()) }
func reLit(s string) *Re {
	var parts []*Re
	for i := 0; i < len(s); i++ {
		parts = append(parts, reByte(s[i]))
	}
	return reCat(parts...)
}

func reCat(rs ...*Re) *Re {
	var out []*Re
	for _, r := range rs {
		if r.op == "none" {
			return reNone
		}
		if r.op == "eps" {
			continue
		}
		if r.op == "cat" {
			out = append(out, r.subs...)
		} else {
			out = append(out, r)
		}
	}
	if len(out) == 0 {
		return reEps
	}
	if len(out) == 1 {
		return out[0]
	}
	var sb strings.Builder
	sb.WriteString("(.")
	for _, r := range out {
		sb.WriteString(" " + r.key)
	}
	sb.WriteString(")")
	return &Re{op: "cat", subs: out, key: sb.String()}
}

func reAlt(rs ...*Re) *Re {
	m := map[string]*Re{}
	var set byteSet
	hasSet := false
	var add func(r *Re)
	add = func(r *Re) {
		switch r.op {
		case "none":
		case "alt":
			for _, s := range r.subs {
				add(s)
			}
		case "set":
			set = set.or(r.set)
			hasSet = true
		default:
			m[r.key] = r
		}
	}
	for _, r := range rs {
		add(r)
	}
	if _, ok := m[reAll.key]; ok {
		return reAll
	}
	if hasSet {
		s := reSet(set)
		m[s.key] = s
	}
	if len(m) == 0 {
		return reNone
	}
	keys := make([]string, 0, len(m))
	for k := range m {
		keys = append(keys, k)
	}
	sort.Strings(keys)
	if len(keys) == 1 {
		return m[keys[0]]
	}
	out := make([]*Re, len(keys))
	for i, k := range keys {
		out[i] = m[k]
	}
	return &Re{op: "alt", subs: out, key: "(|" + " " + strings.Join(keys, " ") + ")"}
}

func reAnd(rs ...*Re) *Re {
	m := map[string]*Re{}
	var set byteSet = byteSet{}.not()
	hasSet := false
	var add func(r *Re) bool
	add = func(r *Re) bool {
		switch r.op {
		case "none":
			return false
		case "and":
			for _, s := range r.subs {
				if !add(s) {
					return false
				}
			}
		case "set":
			set = set.and(r.set)
			hasSet = true
		default:
			if r.key == reAll.key {
				return true
			}
			m[r.key] = r
		}
		return true
	}
	for _, r := range rs {
		if !add(r) {
			return reNone
		}
	}
	if hasSet {
		s := reSet(set)
		if s.op == "none" {
			return reNone
		}
		m[s.key] = s
	}
	if len(m) == 0 {
		return reAll
	}
	keys := make([]string, 0, len(m))
	for k := range m {
		keys = append(keys, k)
	}
	sort.Strings(keys)
	if len(keys) == 1 {
		return m[keys[0]]
	}
	out := make([]*Re, len(keys))
	for i, k := range keys {
		out[i] = m[k]
	}
	return &Re{op: "and", subs: out, key: "(&" + " " + strings.Join(keys, " ") + ")"}
}

func reNot(r *Re) *Re {
	if r.op == "not" {
		return r.subs[0]
	}
	return &Re{op: "not", subs: []*Re{r}, key: "!(" + r.key + ")"}
}

func reStar(r *Re) *Re {
	switch r.op {
	case "star":
		return r
	case "eps", "none":
		return reEps
	}
	if r.key == reAll.key {
		return reAll
	}
	return &Re{op: "star", subs: []*Re{r}, key: "(* " + r.key + ")"}
}

func rePlus(r *Re) *Re { return reCat(r, reStar(r)) }
func reOpt(r *Re) *Re  { return reAlt(reEps, r) }
func reRepeat(r *Re, min, max int) *Re {
	var parts []*Re
	for i := 0; i < min; i++ {
		parts = append(parts, r)
	}
	if max < 0 {
		parts = append(parts, reStar(r))
	} else {
		var tail *Re = reEps
		for i := 0; i < max-min; i++ {
			tail = reOpt(reCat(r, tail))
		}
		parts = append(parts, tail)
	}
	return reCat(parts...)
}

func (r *Re) nullable() bool {
	if v := atomic.LoadInt32(&r.null); v != 0 {
		return v > 0
	}
	var n bool
	switch r.op {
	case "none", "set":
		n = false
	case "eps", "star":
		n = true
	case "cat", "and":
		n = true
		for _, s := range r.subs {
			if !s.nullable() {
				n = false
				break
			}
		}
	case "alt":
		for _, s := range r.subs {
			if s.nullable() {
				n = true
				break
			}
		}
	case "not":
		n = !r.subs[0].nullable()
	}
	if n {
		atomic.StoreInt32(&r.null, 1)
	} else {
		atomic.StoreInt32(&r.null, -1)
	}
	return n
}

type derivCache struct {
	m map[string]*Re
}

func (dc *derivCache) deriv(r *Re, b byte) *Re {
	switch r.op {
	case "none", "eps":
		return reNone
	case "set":
		if r.set.has(b) {
			return reEps
		}
		return reNone
	}
	k := string([]byte{b}) + r.key
	if d, ok := dc.m[k]; ok {
		return d
	}
	var d *Re
	switch r.op {
	case "cat":
		head, tail := r.subs[0], reCat(r.subs[1:]...)
		d = reCat(dc.deriv(head, b), tail)
		if head.nullable() {
			d = reAlt(d, dc.deriv(tail, b))
		}
	case "alt":
		ds := make([]*Re, len(r.subs))
		for i, s := range r.subs {
			ds[i] = dc.deriv(s, b)
		}
		d = reAlt(ds...)
	case "and":
		ds := make([]*Re, len(r.subs))
		for i, s := range r.subs {
			ds[i] = dc.deriv(s, b)
		}
		d = reAnd(ds...)
	case "not":
		d = reNot(dc.deriv(r.subs[0], b))
	case "star":
		d = reCat(dc.deriv(r.subs[0], b), r)
	}
	dc.m[k] = d
	return d
}

// byteClasses partitions 0..255 into classes that no set occurring in r distinguishes.
func byteClasses(r *Re) [][]byte {
	var sets []byteSet
	seen := map[string]bool{}
	var walk func(x *Re)
	walk = func(x *Re) {
		if seen[x.key] {
			return
		}
		seen[x.key] = true
		if x.op == "set" {
			sets = append(sets, x.set)
		}
		for _, s := range x.subs {
			walk(s)
		}
	}
	walk(r)
	sig := map[string][]byte{}
	var order []string
	for b := 0; b < 256; b++ {
		var sb strings.Builder
		for _, s := range sets {
			if s.has(byte(b)) {
				sb.WriteByte('1')
			} else {
				sb.WriteByte('0')
			}
		}
		k := sb.String()
		if _, ok := sig[k]; !ok {
			order = append(order, k)
		}
		sig[k] = append(sig[k], byte(b))
	}
	var out [][]byte
	for _, k := range order {
		out = append(out, sig[k])
	}
	return out
}

// reWitness returns a shortest member of L(r), or ok=false if L(r) is empty.
// limit bounds the number of derivative states explored (0 = default).
func reWitness(r *Re, limit int) (w string, ok bool, states int, err error) {
	if limit == 0 {
		limit = 200000
	}
	dc := &derivCache{m: map[string]*Re{}}
	classes := byteClasses(r)
	// prefer printable representatives
	reps := make([]byte, len(classes))
	for i, c := range classes {
		reps[i] = c[0]
		for _, b := range c {
			if b >= 0x21 && b < 0x7f {
				reps[i] = b
				break
			}
		}
	}
	type node struct {
		r    *Re
		prev int
		by   byte
	}
	nodes := []node{{r, -1, 0}}
	seen := map[string]bool{r.key: true}
	for i := 0; i < len(nodes); i++ {
		n := nodes[i]
		if n.r.nullable() {
			var bs []byte
			for k := i; nodes[k].prev >= 0; k = nodes[k].prev {
				bs = append(bs, nodes[k].by)
			}
			for a, b := 0, len(bs)-1; a < b; a, b = a+1, b-1 {
				bs[a], bs[b] = bs[b], bs[a]
			}
			return string(bs), true, len(nodes), nil
		}
		for _, b := range reps {
			d := dc.deriv(n.r, b)
			if d.op == "none" || seen[d.key] {
				continue
			}
			seen[d.key] = true
			nodes = append(nodes, node{d, i, b})
			if len(nodes) > limit {
				return "", false, len(nodes), fmt.Errorf("derivative state limit %d exceeded", limit)
			}
		}
	}
	return "", false, len(nodes), nil
}

// reWitnesses returns members of L(r) for replay when the shortest member is
// not an input the real code accepts: one shortest string per accepting state
// of the derivative automaton, plus, for every such state, the variants
// obtained by taking a different last transition into it.
func reWitnesses(r *Re, max int, limit int) []string {
	dc := &derivCache{m: map[string]*Re{}}
	classes := byteClasses(r)
	reps := make([]byte, len(classes))
	for i, c := range classes {
		reps[i] = c[0]
		for _, b := range c {
			if b >= 0x21 && b < 0x7f {
				reps[i] = b
				break
			}
		}
	}
	type node struct {
		r    *Re
		prev int
		by   byte
	}
	nodes := []node{{r, -1, 0}}
	index := map[string]int{r.key: 0}
	str := func(i int) string {
		var bs []byte
		for k := i; nodes[k].prev >= 0; k = nodes[k].prev {
			bs = append(bs, nodes[k].by)
		}
		for a, b := 0, len(bs)-1; a < b; a, b = a+1, b-1 {
			bs[a], bs[b] = bs[b], bs[a]
		}
		return string(bs)
	}
	seen := map[string]bool{}
	var out []string
	add := func(s string) {
		if !seen[s] && len(out) < max {
			seen[s] = true
			out = append(out, s)
		}
	}
	for i := 0; i < len(nodes) && len(nodes) < limit; i++ {
		n := nodes[i]
		for _, b := range reps {
			d := dc.deriv(n.r, b)
			if d.op == "none" {
				continue
			}
			if j, ok := index[d.key]; ok {
				if d.nullable() {
					add(str(i) + string([]byte{b})) // another way into an accepting state
				}
				_ = j
				continue
			}
			index[d.key] = len(nodes)
			nodes = append(nodes, node{d, i, b})
			if d.nullable() {
				add(str(len(nodes) - 1))
			}
		}
	}
	return out
}

func reMatch(r *Re, s string) bool {
	dc := &derivCache{m: map[string]*Re{}}
	for i := 0; i < len(s); i++ {
		r = dc.deriv(r, s[i])
		if r.op == "none" {
			return false
		}
	}
	return r.nullable()
}

// ---------------------------------------------------------------------------
// SMT-LIB rendering (bytes are code points 0..255)

func (r *Re) SMT() string {
	switch r.op {
	case "none":
		return "re.none"
	case "eps":
		return `(str.to_re "")`
	case "set":
		if r.set.full() {
			return `(re.range "\u{0}" "\u{ff}")`
		}
		var parts []string
		for b := 0; b < 256; {
			if !r.set.has(byte(b)) {
				b++
				continue
			}
			e := b
			for e+1 < 256 && r.set.has(byte(e+1)) {
				e++
			}
			if e == b {
				parts = append(parts, "(str.to_re "+smtStr(string([]byte{byte(b)}))+")")
			} else {
				parts = append(parts, fmt.Sprintf("(re.range %s %s)", smtStr(string([]byte{byte(b)})), smtStr(string([]byte{byte(e)}))))
			}
			b = e + 1
		}
		if len(parts) == 1 {
			return parts[0]
		}
		return "(re.union " + strings.Join(parts, " ") + ")"
	case "not":
		if r.subs[0].op == "none" {
			return `(re.* (re.range "\u{0}" "\u{ff}"))`
		}
		return `(re.inter (re.* (re.range "\u{0}" "\u{ff}")) (re.comp ` + r.subs[0].SMT() + "))"
	}
	op := map[string]string{"cat": "re.++", "alt": "re.union", "and": "re.inter", "star": "re.*"}[r.op]
	var parts []string
	for _, s := range r.subs {
		parts = append(parts, s.SMT())
	}
	return "(" + op + " " + strings.Join(parts, " ") + ")"
}

// ---------------------------------------------------------------------------
// Parser for the .lang syntax

var seplistName = regexp.MustCompile(`^SEPLIST_(.+)_((?:[0-9a-f]{2})+)$`)
var noneOfName = regexp.MustCompile(`^NONE_OF_((?:[0-9a-f]{2})+)_STAR$`)
var fixName = regexp.MustCompile(`^(PFX|SFX)_((?:[0-9a-f]{2})+)$`)

type langExample struct {
	lang   string
	member bool
	text   string
}

type LangEnv struct {
	Resolve  func(name string) (*Re, string, bool) // code-derived languages resolved on demand (RE_<var>)
	examples []langExample
	defs     map[string]*Re
	src      map[string]string // name -> source text ("(code) ..." for code-derived)
	pending  map[string]string
	used     map[string]bool
	errs     []string
}

func NewLangEnv() *LangEnv {
	return &LangEnv{defs: map[string]*Re{}, src: map[string]string{}, pending: map[string]string{}, used: map[string]bool{}}
}

func (le *LangEnv) LoadDir(dir string) error {
	files, _ := filepath.Glob(filepath.Join(dir, "*.lang"))
	sort.Strings(files)
	for _, f := range files {
		data, err := os.ReadFile(f)
		if err != nil {
			return err
		}
		var name, body string
		flush := func() {
			if name != "" {
				le.pending[name] = strings.TrimSpace(body)
			}
			name, body = "", ""
		}
		for _, line := range strings.Split(string(data), "\n") {
			if i := strings.Index(line, " #"); i >= 0 && !strings.Contains(line[:i], `"`) {
				line = line[:i]
			}
			if strings.HasPrefix(strings.TrimSpace(line), "#") || strings.TrimSpace(line) == "" {
				continue
			}
			if strings.HasPrefix(line, "in ") || strings.HasPrefix(line, "notin ") {
				flush()
				member := strings.HasPrefix(line, "in ")
				rest := strings.TrimSpace(line[strings.Index(line, " ")+1:])
				k := strings.Index(rest, ":")
				if k < 0 {
					return fmt.Errorf("%s: bad example line %q", f, line)
				}
				ln := strings.TrimSpace(rest[:k])
				for _, lit := range splitGoStrings(rest[k+1:]) {
					t, err := strconv.Unquote(lit)
					if err != nil {
						return fmt.Errorf("%s: bad example string %s", f, lit)
					}
					le.examples = append(le.examples, langExample{ln, member, t})
				}
				continue
			}
			if line[0] != ' ' && line[0] != '\t' {
				if k := strings.Index(line, "="); k > 0 && isLangName(strings.TrimSpace(line[:k])) {
					flush()
					name = strings.TrimSpace(line[:k])
					body = line[k+1:]
					continue
				}
			}
			body += " " + line
		}
		flush()
	}
	return nil
}

// splitGoStrings splits a sequence of Go string literals ("..." or `...`).
func splitGoStrings(s string) []string {
	var out []string
	for i := 0; i < len(s); {
		switch s[i] {
		case '"':
			j := i + 1
			for j < len(s) && s[j] != '"' {
				if s[j] == '\\' {
					j++
				}
				j++
			}
			out = append(out, s[i:j+1])
			i = j + 1
		case '`':
			j := i + 1 + strings.IndexByte(s[i+1:], '`')
			out = append(out, s[i:j+1])
			i = j + 1
		default:
			i++
		}
	}
	return out
}

// CheckExamples evaluates the member / non-member examples of every language in use.
func (le *LangEnv) CheckExamples(used map[string]bool) []string {
	var bad []string
	for _, ex := range le.examples {
		if !le.Has(ex.lang) {
			bad = append(bad, fmt.Sprintf("example for unknown language %s", ex.lang))
			continue
		}
		if got := reMatch(le.Get(ex.lang), ex.text); got != ex.member {
			bad = append(bad, fmt.Sprintf("specification sanity: %q in %s is %v, expected %v", ex.text, ex.lang, got, ex.member))
		}
	}
	return bad
}

func isLangName(s string) bool {
	if s == "" {
		return false
	}
	for i, c := range s {
		if !(c == '_' || c >= 'A' && c <= 'Z' || c >= 'a' && c <= 'z' || (i > 0 && c >= '0' && c <= '9')) {
			return false
		}
	}
	return true
}

func (le *LangEnv) Get(name string) *Re {
	if r, ok := le.defs[name]; ok {
		if r == nil {
			panic(unsupported("recursive language definition %s", name))
		}
		return r
	}
	src, ok := le.pending[name]
	if !ok {
		// code-derived families
		var b int
		if n, _ := fmt.Sscanf(name, "NO_%02x_STAR", &b); n == 1 && len(name) == 10 {
			le.NoByteStar(byte(b))
			return le.defs[name]
		}
		if strings.HasPrefix(name, "FOLD_") {
			le.Fold(strings.TrimPrefix(name, "FOLD_"))
			return le.defs[name]
		}
		if m := seplistName.FindStringSubmatch(name); m != nil {
			var sep []byte
			for i := 0; i+1 < len(m[2]); i += 2 {
				var b int
				fmt.Sscanf(m[2][i:i+2], "%02x", &b)
				sep = append(sep, byte(b))
			}
			inner := le.Get(m[1])
			le.Define(name, reCat(inner, reStar(reCat(reLit(string(sep)), inner))), fmt.Sprintf("(derived) %s ( %q %s )*", m[1], sep, m[1]))
			return le.defs[name]
		}
		if m := fixName.FindStringSubmatch(name); m != nil {
			var lit []byte
			for i := 0; i+1 < len(m[2]); i += 2 {
				var b int
				fmt.Sscanf(m[2][i:i+2], "%02x", &b)
				lit = append(lit, byte(b))
			}
			if m[1] == "PFX" {
				le.Define(name, reCat(reLit(string(lit)), reStar(reAny())), fmt.Sprintf("(code) strings with prefix %q", lit))
			} else {
				le.Define(name, reCat(reStar(reAny()), reLit(string(lit))), fmt.Sprintf("(code) strings with suffix %q", lit))
			}
			return le.defs[name]
		}
		if le.Resolve != nil {
			if r, src, ok := le.Resolve(name); ok {
				le.Define(name, r, src)
				return r
			}
		}
		if m := noneOfName.FindStringSubmatch(name); m != nil {
			var set byteSet
			for i := 0; i+1 < len(m[1]); i += 2 {
				var b int
				fmt.Sscanf(m[1][i:i+2], "%02x", &b)
				set.add(byte(b))
			}
			le.Define(name, reStar(reSet(set.not())), "(code) strings without any of the bytes "+m[1])
			return le.defs[name]
		}
		if strings.HasPrefix(name, "GO_URL_SCHEME_") {
			lit := strings.TrimPrefix(name, "GO_URL_SCHEME_")
			var parts []*Re
			for i := 0; i < len(lit); i++ {
				c := lit[i]
				var set byteSet
				set.add(c)
				if c >= 'a' && c <= 'z' {
					set.add(c - 'a' + 'A')
				}
				parts = append(parts, reSet(set))
			}
			le.Define(name, reCat(append(parts, reByte(':'), reStar(reAny()))...), fmt.Sprintf("(code) URLs whose scheme equals %q ignoring ASCII case", lit))
			return le.defs[name]
		}
		if name == "GO_URL_NO_CTL" {
			le.pending[name] = `[^\x00-\x1f\x7f]*`
			return le.Get(name)
		}
		if name == "GO_URL_HAS_SCHEME" {
			le.pending[name] = `[A-Za-z][A-Za-z0-9+.\-]*:.*`
			return le.Get(name)
		}
		if name == "GO_SPACE_STAR" {
			le.GoSpaceStar()
			return le.defs[name]
		}
		if name == "HIGH_BYTES_PLUS" {
			le.HighBytesPlus()
			return le.defs[name]
		}
		panic(unsupported("unknown language %s", name))
	}
	le.defs[name] = nil
	done := false
	defer func() {
		if !done {
			delete(le.defs, name) // leave no half-defined marker behind when a referenced language is missing
		}
	}()
	p := &reParser{s: src, le: le}
	r := p.parseExpr()
	p.skipWS()
	if p.i < len(p.s) {
		panic(unsupported("language %s: trailing input at %q", name, p.s[p.i:]))
	}
	le.defs[name] = r
	le.src[name] = src
	done = true
	return r
}

func (le *LangEnv) Has(name string) bool {
	_, a := le.defs[name]
	_, b := le.pending[name]
	return a || b
}

func (le *LangEnv) Define(name string, r *Re, src string) {
	le.defs[name] = r
	le.src[name] = src
}

// Named defines (once) a language from an inline pattern.
func (le *LangEnv) Named(name, pattern string) string {
	if !le.Has(name) {
		le.pending[name] = pattern
	}
	return name
}

func (le *LangEnv) NoByteStar(b byte) string {
	name := fmt.Sprintf("NO_%02x_STAR", b)
	if !le.Has(name) {
		var s byteSet
		s.add(b)
		le.Define(name, reStar(reSet(s.not())), fmt.Sprintf("(code) [^\\x%02x]*", b))
	}
	return name
}

// GoSpaceStar: sequences of runes for which unicode.IsSpace holds (UTF-8), derived from the unicode tables.
func (le *LangEnv) GoSpaceStar() string {
	name := "GO_SPACE_STAR"
	if !le.Has(name) {
		var alts []*Re
		for r := rune(0); r <= unicode.MaxRune; r++ {
			if unicode.IsSpace(r) {
				alts = append(alts, reLit(string(r)))
			}
		}
		le.Define(name, reStar(reAlt(alts...)), "(code) (runes with unicode.IsSpace)*")
	}
	return name
}

func (le *LangEnv) HighBytesPlus() string {
	name := "HIGH_BYTES_PLUS"
	if !le.Has(name) {
		le.Define(name, rePlus(reSet(rangeSet(0x80, 0xff))), "(code) [\\x80-\\xff]+")
	}
	return name
}

// Fold: the set of strings equal to lit under Unicode simple case folding
// (what strings.EqualFold accepts), UTF-8 encoded.
func (le *LangEnv) Fold(lit string) string {
	name := "FOLD_" + sanitizeFile(lit)
	if !le.Has(name) {
		var parts []*Re
		for _, r := range lit {
			var alts []*Re
			for _, f := range foldClosure(r) {
				alts = append(alts, reLit(string(f)))
			}
			parts = append(parts, reAlt(alts...))
		}
		le.Define(name, reCat(parts...), fmt.Sprintf("(code) simple-fold closure of %q", lit))
	}
	return name
}

type reParser struct {
	s  string
	i  int
	le *LangEnv
}

func (p *reParser) skipWS() {
	for p.i < len(p.s) && (p.s[p.i] == ' ' || p.s[p.i] == '\t' || p.s[p.i] == '\n' || p.s[p.i] == '\r') {
		p.i++
	}
}

func (p *reParser) fail(format string, args ...interface{}) {
	panic(unsupported("regex syntax: "+format+" at offset %d of %q", append(args, p.i, p.s)...))
}

func (p *reParser) parseExpr() *Re {
	alts := []*Re{p.parseInter()}
	for {
		p.skipWS()
		if p.i < len(p.s) && p.s[p.i] == '|' {
			p.i++
			alts = append(alts, p.parseInter())
			continue
		}
		break
	}
	return reAlt(alts...)
}

func (p *reParser) parseInter() *Re {
	parts := []*Re{p.parseConcat()}
	for {
		p.skipWS()
		if p.i < len(p.s) && p.s[p.i] == '&' {
			p.i++
			parts = append(parts, p.parseConcat())
			continue
		}
		break
	}
	return reAnd(parts...)
}

func (p *reParser) parseConcat() *Re {
	var parts []*Re
	for {
		p.skipWS()
		if p.i >= len(p.s) || p.s[p.i] == '|' || p.s[p.i] == ')' || p.s[p.i] == '&' {
			break
		}
		parts = append(parts, p.parseRepeat())
	}
	return reCat(parts...)
}

func (p *reParser) parseRepeat() *Re {
	r := p.parseAtom()
	for {
		p.skipWS()
		if p.i >= len(p.s) {
			return r
		}
		switch p.s[p.i] {
		case '*':
			p.i++
			r = reStar(r)
		case '+':
			p.i++
			r = rePlus(r)
		case '?':
			p.i++
			r = reOpt(r)
		case '{':
			if p.i+1 < len(p.s) && p.s[p.i+1] >= '0' && p.s[p.i+1] <= '9' {
				j := strings.IndexByte(p.s[p.i:], '}')
				if j < 0 {
					p.fail("unterminated repeat")
				}
				body := p.s[p.i+1 : p.i+j]
				p.i += j + 1
				min, max := 0, 0
				if k := strings.IndexByte(body, ','); k >= 0 {
					min, _ = strconv.Atoi(strings.TrimSpace(body[:k]))
					if strings.TrimSpace(body[k+1:]) == "" {
						max = -1
					} else {
						max, _ = strconv.Atoi(strings.TrimSpace(body[k+1:]))
					}
				} else {
					min, _ = strconv.Atoi(strings.TrimSpace(body))
					max = min
				}
				r = reRepeat(r, min, max)
			} else {
				return r
			}
		default:
			return r
		}
	}
}

func (p *reParser) parseAtom() *Re {
	p.skipWS()
	if p.i >= len(p.s) {
		p.fail("unexpected end")
	}
	c := p.s[p.i]
	switch c {
	case '(':
		p.i++
		r := p.parseExpr()
		p.skipWS()
		if p.i >= len(p.s) || p.s[p.i] != ')' {
			p.fail("missing )")
		}
		p.i++
		return r
	case '[':
		return reSet(p.parseClass())
	case '.':
		p.i++
		return reAny()
	case '!':
		p.i++
		return reNot(p.parseRepeat())
	case '{':
		j := strings.IndexByte(p.s[p.i:], '}')
		if j < 0 {
			p.fail("unterminated {NAME}")
		}
		name := p.s[p.i+1 : p.i+j]
		p.i += j + 1
		return p.le.Get(name)
	case '"':
		// Go string literal
		j := p.i + 1
		for j < len(p.s) && p.s[j] != '"' {
			if p.s[j] == '\\' {
				j++
			}
			j++
		}
		if j >= len(p.s) {
			p.fail("unterminated string")
		}
		lit, err := strconv.Unquote(p.s[p.i : j+1])
		if err != nil {
			p.fail("bad string literal: %v", err)
		}
		p.i = j + 1
		return reLit(lit)
	case '\\':
		s := p.parseEscape(false)
		return reSet(s)
	case ')', '|', '*', '+', '?', '&':
		p.fail("unexpected %q", c)
	}
	p.i++
	return reByte(c)
}

func (p *reParser) parseEscape(inClass bool) byteSet {
	// at backslash
	p.i++
	if p.i >= len(p.s) {
		p.fail("dangling backslash")
	}
	c := p.s[p.i]
	p.i++
	var s byteSet
	switch c {
	case 'x':
		if p.i+2 > len(p.s) {
			p.fail("bad \\x escape")
		}
		v, err := strconv.ParseUint(p.s[p.i:p.i+2], 16, 8)
		if err != nil {
			p.fail("bad \\x escape")
		}
		p.i += 2
		s.add(byte(v))
	case 'n':
		s.add('\n')
	case 'r':
		s.add('\r')
	case 't':
		s.add('\t')
	case 'f':
		s.add('\f')
	case 'v':
		s.add('\v')
	case '0':
		s.add(0)
	case 'd':
		s = rangeSet('0', '9')
	case 'w':
		s = rangeSet('0', '9').or(rangeSet('a', 'z')).or(rangeSet('A', 'Z'))
		s.add('_')
	case 's':
		for _, b := range []byte{' ', '\t', '\n', '\r', '\f', '\v'} {
			s.add(b)
		}
	default:
		if c >= 'a' && c <= 'z' || c >= 'A' && c <= 'Z' || c >= '0' && c <= '9' {
			p.fail("unknown escape \\%c", c)
		}
		s.add(c)
	}
	return s
}

func (p *reParser) parseClass() byteSet {
	p.i++ // [
	neg := false
	if p.i < len(p.s) && p.s[p.i] == '^' {
		neg = true
		p.i++
	}
	var s byteSet
	first := true
	for {
		if p.i >= len(p.s) {
			p.fail("unterminated class")
		}
		c := p.s[p.i]
		if c == ']' && !first {
			p.i++
			break
		}
		first = false
		var lo byteSet
		single := true
		var lob byte
		if c == '\\' {
			before := p.i
			lo = p.parseEscape(true)
			// single byte?
			cnt := 0
			for b := 0; b < 256; b++ {
				if lo.has(byte(b)) {
					cnt++
					lob = byte(b)
				}
			}
			single = cnt == 1
			_ = before
		} else {
			lob = c
			lo.add(c)
			p.i++
		}
		if single && p.i+1 < len(p.s) && p.s[p.i] == '-' && p.s[p.i+1] != ']' {
			p.i++
			var hib byte
			if p.s[p.i] == '\\' {
				hs := p.parseEscape(true)
				for b := 0; b < 256; b++ {
					if hs.has(byte(b)) {
						hib = byte(b)
					}
				}
			} else {
				hib = p.s[p.i]
				p.i++
			}
			if hib < lob {
				p.fail("bad range")
			}
			s = s.or(rangeSet(lob, hib))
			continue
		}
		s = s.or(lo)
	}
	if neg {
		s = s.not()
	}
	return s
}

// ---------------------------------------------------------------------------
// Go regexp -> byte-level Re (over-approximating multi-byte runes where the
// class is not a small finite set; see DESIGN 2.2)

// FromGoRegexp translates the set of strings on which (*Regexp).MatchString
// reports true. End-of-text assertions may occur anywhere (also under * and |):
// every sub-expression r is translated to a pair (A, B): A = strings consumed by
// r on a path that asserted no `$` (anything may follow), B = strings consumed
// on a path that asserted `$` (the subject ends exactly there; later parts of the
// pattern may only match the empty string). MatchString is a search, so the
// accepted set is  P·(A·Σ* ∪ B)  with P = ε if the pattern starts with ^ and Σ*
// otherwise. A `^` anywhere else, and line/word assertions, are rejected.
func FromGoRegexp(pattern string) (*Re, error) {
	rx, err := syntax.Parse(pattern, syntax.Perl)
	if err != nil {
		return nil, err
	}
	return fromGoRegexpNode(rx)
}

// fromGoRegexpNode: the search language of one parsed pattern. A top-level alternation is the union of the search
// languages of its branches (each branch may carry its own ^ / $: "^a|b$" means "starts with a, or ends with b").
func fromGoRegexpNode(rx *syntax.Regexp) (*Re, error) {
	if rx.Op == syntax.OpAlternate {
		var alts []*Re
		for _, sub := range rx.Sub {
			r, err := fromGoRegexpNode(sub)
			if err != nil {
				return nil, err
			}
			alts = append(alts, r)
		}
		return reAlt(alts...), nil
	}
	if rx.Op == syntax.OpCapture && len(rx.Sub) == 1 && rx.Sub[0].Op == syntax.OpAlternate {
		return fromGoRegexpNode(rx.Sub[0])
	}
	anchored := false
	switch {
	case rx.Op == syntax.OpBeginText:
		anchored = true
		rx = &syntax.Regexp{Op: syntax.OpEmptyMatch}
	case rx.Op == syntax.OpConcat && len(rx.Sub) > 0 && rx.Sub[0].Op == syntax.OpBeginText:
		anchored = true
		cp := *rx
		cp.Sub = rx.Sub[1:]
		rx = &cp
	}
	t := &goReTr{}
	a, b := t.tr(rx)
	if t.err != nil {
		return nil, t.err
	}
	res := reAlt(reCat(a, reStar(reAny())), b)
	if !anchored {
		res = reCat(reStar(reAny()), res)
	}
	return res, nil
}

type goReTr struct{ err error }

func canBeEmpty(a, b *Re) bool { return a.nullable() || b.nullable() }

func (t *goReTr) tr(rx *syntax.Regexp) (*Re, *Re) {
	switch rx.Op {
	case syntax.OpNoMatch:
		return reNone, reNone
	case syntax.OpEmptyMatch:
		return reEps, reNone
	case syntax.OpLiteral:
		var parts []*Re
		for _, r := range rx.Rune {
			if rx.Flags&syntax.FoldCase != 0 {
				var alts []*Re
				for _, f := range foldClosure(r) {
					alts = append(alts, reLit(string(f)))
				}
				parts = append(parts, reAlt(alts...))
			} else {
				parts = append(parts, reLit(string(r)))
			}
		}
		return reCat(parts...), reNone
	case syntax.OpCharClass:
		return runeClass(rx.Rune), reNone
	case syntax.OpAnyCharNotNL:
		return runeClass([]rune{0, '\n' - 1, '\n' + 1, unicode.MaxRune}), reNone
	case syntax.OpAnyChar:
		return runeClass([]rune{0, unicode.MaxRune}), reNone
	case syntax.OpEndText:
		return reNone, reEps
	case syntax.OpCapture:
		return t.tr(rx.Sub[0])
	case syntax.OpConcat:
		var A, B *Re = reEps, reNone
		for _, s := range rx.Sub {
			a, b := t.tr(s)
			nb := reCat(A, b)
			if canBeEmpty(a, b) {
				nb = reAlt(nb, B)
			}
			A, B = reCat(A, a), nb
		}
		return A, B
	case syntax.OpAlternate:
		var as, bs []*Re
		for _, s := range rx.Sub {
			a, b := t.tr(s)
			as = append(as, a)
			bs = append(bs, b)
		}
		return reAlt(as...), reAlt(bs...)
	case syntax.OpStar:
		a, b := t.tr(rx.Sub[0])
		return reStar(a), reCat(reStar(a), b)
	case syntax.OpPlus:
		a, b := t.tr(rx.Sub[0])
		return rePlus(a), reCat(reStar(a), b)
	case syntax.OpQuest:
		a, b := t.tr(rx.Sub[0])
		return reOpt(a), b
	case syntax.OpRepeat:
		a, b := t.tr(rx.Sub[0])
		if b.op != "none" {
			t.err = fmt.Errorf("end-of-text assertion under a counted repeat is not supported")
			return reNone, reNone
		}
		return reRepeat(a, rx.Min, rx.Max), reNone
	}
	t.err = fmt.Errorf("unsupported regexp construct %v", rx.Op)
	return reNone, reNone
}

// runeClass converts rune ranges to a byte-level expression. ASCII members are
// exact. Non-ASCII members: small sets are enumerated exactly; otherwise the
// class is over-approximated by [\x80-\xff]{1,4}.
func runeClass(ranges []rune) *Re {
	var ascii byteSet
	var alts []*Re
	nonASCII := 0
	for i := 0; i+1 < len(ranges); i += 2 {
		lo, hi := ranges[i], ranges[i+1]
		for r := lo; r <= hi && r < 0x80; r++ {
			ascii.add(byte(r))
		}
		if hi >= 0x80 {
			l := lo
			if l < 0x80 {
				l = 0x80
			}
			nonASCII += int(hi-l) + 1
		}
	}
	if nonASCII > 0 && nonASCII <= 64 {
		for i := 0; i+1 < len(ranges); i += 2 {
			for r := ranges[i]; r <= ranges[i+1]; r++ {
				if r >= 0x80 {
					if r == utf8.RuneError {
						// matches any invalid byte too
						alts = append(alts, reSet(rangeSet(0x80, 0xff)))
					}
					alts = append(alts, reLit(string(r)))
				}
			}
		}
	} else if nonASCII > 0 {
		alts = append(alts, reRepeat(reSet(rangeSet(0x80, 0xff)), 1, 4))
	}
	alts = append(alts, reSet(ascii))
	return reAlt(alts...)
}

// lowerImage: the image of an ASCII-only language under bytewise lower-casing.
// ok=false if the expression mentions non-ASCII bytes or uses complement /
// intersection (the image is then not computed structurally).
func lowerImage(r *Re) (*Re, bool) {
	switch r.op {
	case "none", "eps":
		return r, true
	case "set":
		var s byteSet
		for b := 0; b < 256; b++ {
			if r.set.has(byte(b)) {
				if b >= 0x80 {
					return nil, false
				}
				c := byte(b)
				if c >= 'A' && c <= 'Z' {
					c += 'a' - 'A'
				}
				s.add(c)
			}
		}
		return reSet(s), true
	case "cat", "alt", "star":
		subs := make([]*Re, len(r.subs))
		for i, x := range r.subs {
			y, ok := lowerImage(x)
			if !ok {
				return nil, false
			}
			subs[i] = y
		}
		switch r.op {
		case "cat":
			return reCat(subs...), true
		case "alt":
			return reAlt(subs...), true
		}
		return reStar(subs[0]), true
	}
	return nil, false
}
