package main

import (
	"fmt"
	"strings"
)

const c17Harness = `package proxy

import (
	"encoding/json"
	"fmt"
	"io"
	"log/slog"
	"os"
	"strings"
	"testing"

	lsp "github.com/a-h/templ/lsp/protocol"
)

type verifIn struct {
	Mode     string
	Lines    []string
	NilRange bool
	SL, SC, EL, EC uint32
	With     string
}

// verifOracle is the editor's view: a byte splice on the joined text with
// positions clamped as the property states.
func verifOracle(lines []string, nilRange bool, sl, sc, el, ec uint32, with string) (string, bool) {
	if nilRange {
		return with, true
	}
	text := strings.Join(lines, "\n")
	clamp := func(l, c uint32) (int, int) {
		n := len(lines)
		if int64(l) >= int64(n) {
			return n - 1, len(lines[n-1])
		}
		if int64(c) > int64(len(lines[l])) {
			return int(l), len(lines[l])
		}
		return int(l), int(c)
	}
	off := func(l, c int) int {
		o := 0
		for i := 0; i < l; i++ {
			o += len(lines[i]) + 1
		}
		return o + c
	}
	a, b := clamp(sl, sc)
	c, d := clamp(el, ec)
	so, eo := off(a, b), off(c, d)
	if so > eo {
		return "", false
	}
	return text[:so] + with + text[eo:], true
}

func verifOne(in verifIn) (failed bool, msg string) {
	for _, l := range in.Lines {
		if strings.Contains(l, "\n") {
			return false, "REPLAY-PRECONDITION line contains a newline"
		}
	}
	if len(in.Lines) == 0 {
		return false, "REPLAY-PRECONDITION empty line list"
	}
	want, ok := verifOracle(in.Lines, in.NilRange, in.SL, in.SC, in.EL, in.EC, in.With)
	if !ok {
		return false, "REPLAY-PRECONDITION range start after end"
	}
	d := &Document{Lines: append([]string(nil), in.Lines...)}
	var r *lsp.Range
	if !in.NilRange {
		r = &lsp.Range{Start: lsp.Position{Line: in.SL, Character: in.SC}, End: lsp.Position{Line: in.EL, Character: in.EC}}
	}
	var got string
	panicked := func() (p interface{}) {
		defer func() { p = recover() }()
		d.Apply(r, in.With)
		got = d.String()
		return nil
	}()
	if panicked != nil {
		return true, fmt.Sprintf("panic: %v", panicked)
	}
	if got != want {
		return true, fmt.Sprintf("document %q range %d:%d-%d:%d text %q: server copy %q, editor %q", strings.Join(in.Lines, "\n"), in.SL, in.SC, in.EL, in.EC, in.With, got, want)
	}
	return false, ""
}

func TestVerifReplayC17(t *testing.T) {
	data, err := os.ReadFile(os.Getenv("VERIF_REPLAY_INPUT"))
	if err != nil {
		t.Fatal(err)
	}
	var in verifIn
	if err := json.Unmarshal(data, &in); err != nil {
		t.Fatal(err)
	}
	if in.Mode == "one" {
		failed, msg := verifOne(in)
		if failed {
			fmt.Println("REPLAY-CONFIRMED " + msg)
		} else if msg != "" {
			fmt.Println(msg)
		} else {
			fmt.Println("REPLAY-NOT-REPRODUCED")
		}
		return
	}
	// bounded search on the real code (used when the verifier gave no usable model)
	var docs []string
	var gen func(s string, n int)
	gen = func(s string, n int) {
		docs = append(docs, s)
		if n == 0 {
			return
		}
		gen(s+"a", n-1)
		gen(s+"\n", n-1)
	}
	gen("", 3)
	withs := []string{"", "x", "\n", "x\ny", "\n\n", "xy"}
	for _, doc := range docs {
		lines := strings.Split(doc, "\n")
		n := uint32(len(lines))
		for sl := uint32(0); sl <= n; sl++ {
			for el := sl; el <= n; el++ {
				for sc := uint32(0); sc <= 4; sc++ {
					for ec := uint32(0); ec <= 4; ec++ {
						for _, w := range withs {
							in := verifIn{Lines: lines, SL: sl, SC: sc, EL: el, EC: ec, With: w}
							if failed, msg := verifOne(in); failed {
								js, _ := json.Marshal(in)
								fmt.Println("REPLAY-CONFIRMED " + msg + " INPUT=" + string(js))
								return
							}
						}
					}
				}
			}
		}
	}
	// histories of two edits on one server-side document (state carried from one edit to the next)
	type edit struct {
		sl, sc, el, ec uint32
		with           string
	}
	hist := 0
	for _, doc := range docs {
		if len(doc) > 2 {
			continue
		}
		lines0 := strings.Split(doc, "\n")
		var firsts []edit
		n0 := uint32(len(lines0))
		for sl := uint32(0); sl <= n0; sl++ {
			for el := sl; el <= n0; el++ {
				for sc := uint32(0); sc <= 2; sc++ {
					for ec := uint32(0); ec <= 2; ec++ {
						for _, w := range []string{"", "x", "\n", "xyz\nuv\nw", "pq"} {
							firsts = append(firsts, edit{sl, sc, el, ec, w})
						}
					}
				}
			}
		}
		for _, e1 := range firsts {
			want1, ok := verifOracle(lines0, false, e1.sl, e1.sc, e1.el, e1.ec, e1.with)
			if !ok {
				continue
			}
			lines1 := strings.Split(want1, "\n")
			n1 := uint32(len(lines1))
			for sl := uint32(0); sl <= n1; sl++ {
				for el := sl; el <= n1; el++ {
					for sc := uint32(0); sc <= 4; sc += 2 {
						for ec := sc; ec <= 4; ec += 2 {
							for _, w := range []string{"", "!", "\n"} {
								want2, ok := verifOracle(lines1, false, sl, sc, el, ec, w)
								if !ok {
									continue
								}
								hist++
								d := &Document{Lines: append([]string(nil), lines0...)}
								var got string
								p := func() (p interface{}) {
									defer func() { p = recover() }()
									d.Apply(&lsp.Range{Start: lsp.Position{Line: e1.sl, Character: e1.sc}, End: lsp.Position{Line: e1.el, Character: e1.ec}}, e1.with)
									d.Apply(&lsp.Range{Start: lsp.Position{Line: sl, Character: sc}, End: lsp.Position{Line: el, Character: ec}}, w)
									got = d.String()
									return nil
								}()
								if p != nil || got != want2 {
									fmt.Printf("REPLAY-CONFIRMED history: document %q, edit %d:%d-%d:%d <- %q, then edit %d:%d-%d:%d <- %q: server copy %q (panic=%v), editor %q\n", doc, e1.sl, e1.sc, e1.el, e1.ec, e1.with, sl, sc, el, ec, w, got, p, want2)
									return
								}
							}
						}
					}
				}
			}
		}
	}
	// notifications: DocumentContents.Apply gets the list of changes of one didChange notification (ranged and full
	// replacements mixed) and must apply all of them, in order
	notes := 0
	{
		full := func(t string) lsp.TextDocumentContentChangeEvent { return lsp.TextDocumentContentChangeEvent{Text: t} }
		ranged := func(sl, sc, el, ec uint32, t string) lsp.TextDocumentContentChangeEvent {
			return lsp.TextDocumentContentChangeEvent{Range: &lsp.Range{Start: lsp.Position{Line: sl, Character: sc}, End: lsp.Position{Line: el, Character: ec}}, Text: t}
		}
		pool := []lsp.TextDocumentContentChangeEvent{full("hello\nworld"), full(""), full("x"), ranged(0, 0, 0, 0, "A"), ranged(0, 1, 0, 1, "!"), ranged(1, 0, 1, 0, "B"), ranged(0, 0, 1, 0, ""), ranged(0, 0, 0, 1, "\n")}
		for _, start := range []string{"a\nb", "", "one line"} {
			for i := range pool {
				for j := range pool {
					for k := -1; k < len(pool); k++ {
						// fresh copies: the code under test normalises ranges in place, and a shared *Range would
						// carry one iteration's clamping into the next
						fresh := func(c lsp.TextDocumentContentChangeEvent) lsp.TextDocumentContentChangeEvent {
							if c.Range != nil {
								r := *c.Range
								c.Range = &r
							}
							return c
						}
						changes := []lsp.TextDocumentContentChangeEvent{fresh(pool[i]), fresh(pool[j])}
						if k >= 0 {
							changes = append(changes, fresh(pool[k]))
						}
						sent, _ := json.Marshal(changes)
						notes++
						want := start
						okAll := true
						for _, c := range changes {
							lines := strings.Split(want, "\n")
							if c.Range == nil {
								want = c.Text
								continue
							}
							w, ok := verifOracle(lines, false, c.Range.Start.Line, c.Range.Start.Character, c.Range.End.Line, c.Range.End.Character, c.Text)
							if !ok {
								okAll = false
								break
							}
							want = w
						}
						if !okAll {
							continue
						}
						dc := newDocumentContents(slog.New(slog.NewTextHandler(io.Discard, nil)))
						dc.Set("file:///t.templ", NewDocument(slog.New(slog.NewTextHandler(io.Discard, nil)), start))
						var got string
						p := func() (p interface{}) {
							defer func() { p = recover() }()
							d, err := dc.Apply("file:///t.templ", changes)
							if err != nil {
								return err
							}
							got = d.String()
							return nil
						}()
						if p != nil || got != want {
							js := sent
							fmt.Printf("REPLAY-CONFIRMED notification: document %q, one didChange with the changes %s: server copy %q (panic/err=%v), editor %q\n", start, js, got, p, want)
							return
						}
					}
				}
			}
		}
	}
	fmt.Printf("REPLAY-NOT-REPRODUCED bounded search over documents of length <= 3 (single edits), %d two-edit histories and %d notifications of 2-3 mixed changes found no failing input\n", hist, notes)
}
`

func replayC17(r *Run, o *Obligation) *ReplayResult {
	pkgDir := "cmd/templ/lspcmd/proxy"
	type in struct {
		Mode     string
		Lines    []string
		NilRange bool
		SL, SC   uint32
		EL, EC   uint32
		With     string
	}
	tryModel := func(extra []string) *in {
		base := []string{"d.Lines.len", "with", "r.isnil", "r.Start.Line", "r.Start.Character", "r.End.Line", "r.End.Character"}
		ex := append([]string{"(assert (str.in_re with " + smtBytes + "))"}, extra...)
		vals, ok := r.modelValues(o, ex, base)
		if !ok {
			return nil
		}
		n, ok := smtInt(vals["d.Lines.len"])
		if !ok || n < 1 || n > 2000 {
			return nil
		}
		var terms []string
		ex2 := append([]string{}, ex...)
		ex2 = append(ex2, fmt.Sprintf("(assert (= d.Lines.len %d))", n))
		for i := int64(0); i < n; i++ {
			terms = append(terms, fmt.Sprintf("(d.Lines.at %d)", i))
			ex2 = append(ex2, fmt.Sprintf("(assert (str.in_re (d.Lines.at %d) %s))", i, smtBytes))
			ex2 = append(ex2, fmt.Sprintf("(assert (not (str.contains (d.Lines.at %d) \"\\u{a}\")))", i))
		}
		vals2, ok := r.modelValues(o, ex2, append(base, terms...))
		if !ok {
			return nil
		}
		res := &in{Mode: "one"}
		for i := int64(0); i < n; i++ {
			s, ok := smtString(vals2[fmt.Sprintf("(d.Lines.at %d)", i)])
			if !ok {
				return nil
			}
			res.Lines = append(res.Lines, s)
		}
		res.With, _ = smtString(vals2["with"])
		res.NilRange = vals2["r.isnil"] == "true"
		u := func(k string) uint32 { v, _ := smtInt(vals2[k]); return uint32(v) }
		res.SL, res.SC, res.EL, res.EC = u("r.Start.Line"), u("r.Start.Character"), u("r.End.Line"), u("r.End.Character")
		return res
	}
	if o.Verdict == "sat" && strings.Contains(o.Name, "Document.Apply#ensures") {
		for _, extra := range [][]string{{"(assert (<= d.Lines.len 3))"}, {"(assert (<= d.Lines.len 40))"}, nil} {
			m := tryModel(extra)
			if m == nil {
				continue
			}
			out, _ := r.runReplayTest(pkgDir, c17Harness, m, "TestVerifReplayC17")
			ok, detail := replayVerdict(out)
			if ok {
				return &ReplayResult{Confirmed: true, Input: fmt.Sprintf("%+v", *m), Detail: detail}
			}
		}
	}
	// no usable model: bounded search against the real code
	out, _ := r.runReplayTest(pkgDir, c17Harness, &in{Mode: "search"}, "TestVerifReplayC17")
	ok, detail := replayVerdict(out)
	return &ReplayResult{Confirmed: ok, Input: "bounded search (documents over {a,\\n} up to length 3 x all ranges x 6 texts)", Detail: detail}
}
