package main

const c18Harness = `package jsonrpc2

import (
	"bytes"
	"context"
	"encoding/json"
	"errors"
	"fmt"
	"io"
	"strconv"
	"testing"
	"time"
)

type verifChunked struct {
	data  []byte
	chunk int
	out   bytes.Buffer
}

func (c *verifChunked) Read(p []byte) (int, error) {
	if len(c.data) == 0 {
		return 0, io.EOF
	}
	n := c.chunk
	if n > len(c.data) {
		n = len(c.data)
	}
	if n > len(p) {
		n = len(p)
	}
	copy(p, c.data[:n])
	c.data = c.data[n:]
	return n, nil
}
func (c *verifChunked) Write(p []byte) (int, error) { return c.out.Write(p) }
func (c *verifChunked) Close() error                { return nil }

// verifCancelling accepts every byte and cancels a context during its after-th Write call.
type verifCancelling struct {
	verifChunked
	after  int
	calls  int
	cancel func()
}

func (c *verifCancelling) Write(p []byte) (int, error) {
	c.calls++
	if c.calls == c.after {
		c.cancel()
	}
	return c.out.Write(p)
}

func TestVerifReplayC18(t *testing.T) {
	ctx := context.Background()
	var msgs []Message
	c1, _ := NewCall(NewNumberID(1), "m1", map[string]any{"k": "v"})
	c2, _ := NewCall(NewStringID("id-é"), "méthode", []any{"日本語", 1, nil})
	n1, _ := NewNotification("note", "payload with   and é and \x00")
	r1, _ := NewResponse(NewNumberID(1), map[string]int{"x": 1}, nil)
	r2, _ := NewResponse(NewStringID("s"), nil, errors.New("failed ü"))
	msgs = append(msgs, c1, c2, n1, r1, r2)
	// write: one exact frame per message, header counts bytes
	w := &verifChunked{}
	ws := NewStream(w)
	var expect bytes.Buffer
	for _, m := range msgs {
		before := w.out.Len()
		n, err := ws.Write(ctx, m)
		if err != nil {
			fmt.Println("REPLAY-CONFIRMED write failed:", err)
			return
		}
		js, _ := json.Marshal(m)
		frame := "Content-Length: " + strconv.Itoa(len(js)) + "\r\n\r\n" + string(js)
		expect.WriteString(frame)
		if got := w.out.String()[before:]; got != frame || int(n) != len(frame) {
			fmt.Printf("REPLAY-CONFIRMED Write emitted %q (n=%d), want exactly %q\n", got, n, frame)
			return
		}
	}
	// read back under every chunking
	for _, chunk := range []int{1, 2, 3, 5, 16, 1 << 20} {
		r := NewStream(&verifChunked{data: append([]byte(nil), w.out.Bytes()...), chunk: chunk})
		for i, m := range msgs {
			got, _, err := r.Read(ctx)
			if err != nil {
				fmt.Printf("REPLAY-CONFIRMED chunk=%d message %d: read error %v\n", chunk, i, err)
				return
			}
			a, _ := json.Marshal(m)
			b, _ := json.Marshal(got)
			if !bytes.Equal(a, b) {
				fmt.Printf("REPLAY-CONFIRMED chunk=%d message %d read back as %s, want %s\n", chunk, i, b, a)
				return
			}
		}
		if _, _, err := r.Read(ctx); err == nil {
			fmt.Printf("REPLAY-CONFIRMED chunk=%d: read past the end succeeded\n", chunk)
			return
		}
	}
	// a caller that gives up while a frame is being written: whatever Write returns, the bytes on the wire are
	// whole frames only (the connection here never refuses bytes)
	for cancelAt := 1; cancelAt <= 3; cancelAt++ {
		cctx, cancel := context.WithCancel(context.Background())
		cw := &verifCancelling{after: cancelAt, cancel: cancel}
		cs := NewStream(cw)
		var want bytes.Buffer
		for i, m := range msgs[:3] {
			useCtx := ctx
			if i == 0 {
				useCtx = cctx
			}
			_, err := cs.Write(useCtx, m)
			js, _ := json.Marshal(m)
			if err == nil {
				want.WriteString("Content-Length: " + strconv.Itoa(len(js)) + "\r\n\r\n" + string(js))
			}
		}
		cancel()
		if cw.out.String() != want.String() {
			fmt.Printf("REPLAY-CONFIRMED context cancelled during connection write #%d of the first message: the wire holds %q, but the frames of the messages whose Write returned nil are %q (a partial frame was left behind although the connection refused nothing)\n", cancelAt, cw.out.String(), want.String())
			return
		}
	}
	// malformed / truncated frames: an error, never a panic or hang
	body := "{\"jsonrpc\":\"2.0\",\"method\":\"x\"}"
	bad := []string{
		"", "Content-Length: 5", "Content-Length: 5\r\n", "Content-Length: 5\r\n\r\n", "Content-Length: 50\r\n\r\n" + body,
		"Content-Length\r\n\r\n" + body, "Content-Length: abc\r\n\r\n" + body, "Content-Length: -3\r\n\r\n" + body,
		"Content-Length: 0\r\n\r\n" + body, "\r\n" + body, "X: y\r\n\r\n" + body, ":\r\n\r\n", "Content-Length:\r\n\r\n" + body,
		"Content-Length: 99999999999\r\n\r\n" + body, "Content-Length: 3\r\n\r\n" + body,
	}
	for _, in := range bad {
		for _, chunk := range []int{1, 4, 1 << 20} {
			done := make(chan string, 1)
			go func() {
				defer func() {
					if p := recover(); p != nil {
						done <- fmt.Sprintf("panic: %v", p)
					}
				}()
				_, _, err := NewStream(&verifChunked{data: []byte(in), chunk: chunk}).Read(ctx)
				if err == nil {
					done <- "no error"
					return
				}
				done <- ""
			}()
			select {
			case msg := <-done:
				if msg != "" {
					fmt.Printf("REPLAY-CONFIRMED malformed frame %q (chunk %d): %s\n", in, chunk, msg)
					return
				}
			case <-time.After(5 * time.Second):
				fmt.Printf("REPLAY-CONFIRMED malformed frame %q (chunk %d): Read hangs\n", in, chunk)
				return
			}
		}
	}
	fmt.Println("REPLAY-NOT-REPRODUCED bounded search: 5 messages x 6 chunkings, 3 cancellation points, 15 malformed frames x 3 chunkings")
}
`

func replayC18(r *Run, o *Obligation) *ReplayResult {
	out, _ := r.runReplayTest("lsp/jsonrpc2", c18Harness, map[string]string{}, "TestVerifReplayC18")
	ok, detail := replayVerdict(out)
	return &ReplayResult{Confirmed: ok, Input: "bounded search on the real stream (messages x chunkings, malformed frames)", Detail: detail}
}
