package main

const c18Harness = `package jsonrpc2

import (
	"bytes"
	"context"
	"encoding/json"
	"errors"
	"fmt"
	"io"
	"runtime"
	"strconv"
	"sync"
	"testing"
	"time"
)

type verifChunked struct {
	data  []byte
	chunk int
	out   bytes.Buffer
}

func (c *verifChunked) Read(p []byte) (int, error) {
	if len(c.data) == 0 {
		return 0, io.EOF
	}
	n := c.chunk
	if n > len(c.data) {
		n = len(c.data)
	}
	if n > len(p) {
		n = len(p)
	}
	copy(p, c.data[:n])
	c.data = c.data[n:]
	return n, nil
}
func (c *verifChunked) Write(p []byte) (int, error) { return c.out.Write(p) }
func (c *verifChunked) Close() error                { return nil }

// verifCancelling accepts every byte and cancels a context during its after-th Write call.
type verifCancelling struct {
	verifChunked
	after  int
	calls  int
	cancel func()
}

func (c *verifCancelling) Write(p []byte) (int, error) {
	c.calls++
	if c.calls == c.after {
		c.cancel()
	}
	return c.out.Write(p)
}

func TestVerifReplayC18(t *testing.T) {
	ctx := context.Background()
	var msgs []Message
	c1, _ := NewCall(NewNumberID(1), "m1", map[string]any{"k": "v"})
	c2, _ := NewCall(NewStringID("id-é"), "méthode", []any{"日本語", 1, nil})
	n1, _ := NewNotification("note", "payload with   and é and \x00")
	r1, _ := NewResponse(NewNumberID(1), map[string]int{"x": 1}, nil)
	r2, _ := NewResponse(NewStringID("s"), nil, errors.New("failed ü"))
	// ids whose string form looks like a number (and numbers that look odd) keep their form on the wire
	c3, _ := NewCall(NewStringID("7"), "m3", nil)
	r3, _ := NewResponse(NewStringID("-3"), "x", nil)
	c4, _ := NewCall(NewStringID("007"), "m4", nil)
	r4, _ := NewResponse(NewNumberID(-3), "y", nil)
	c5, _ := NewCall(NewStringID("2147483648"), "m5", nil)
	msgs = append(msgs, c1, c2, n1, r1, r2, c3, r3, c4, r4, c5)
	// write: one exact frame per message, header counts bytes
	w := &verifChunked{}
	ws := NewStream(w)
	var expect bytes.Buffer
	for _, m := range msgs {
		before := w.out.Len()
		n, err := ws.Write(ctx, m)
		if err != nil {
			fmt.Println("REPLAY-CONFIRMED write failed:", err)
			return
		}
		js, _ := json.Marshal(m)
		frame := "Content-Length: " + strconv.Itoa(len(js)) + "\r\n\r\n" + string(js)
		expect.WriteString(frame)
		if got := w.out.String()[before:]; got != frame || int(n) != len(frame) {
			fmt.Printf("REPLAY-CONFIRMED Write emitted %q (n=%d), want exactly %q\n", got, n, frame)
			return
		}
	}
	// read back under every chunking
	for _, chunk := range []int{1, 2, 3, 5, 16, 1 << 20} {
		r := NewStream(&verifChunked{data: append([]byte(nil), w.out.Bytes()...), chunk: chunk})
		for i, m := range msgs {
			got, _, err := r.Read(ctx)
			if err != nil {
				fmt.Printf("REPLAY-CONFIRMED chunk=%d message %d: read error %v\n", chunk, i, err)
				return
			}
			a, _ := json.Marshal(m)
			b, _ := json.Marshal(got)
			if !bytes.Equal(a, b) {
				fmt.Printf("REPLAY-CONFIRMED chunk=%d message %d read back as %s, want %s\n", chunk, i, b, a)
				return
			}
		}
		if _, _, err := r.Read(ctx); err == nil {
			fmt.Printf("REPLAY-CONFIRMED chunk=%d: read past the end succeeded\n", chunk)
			return
		}
	}
	// a caller that gives up while a frame is being written: whatever Write returns, the bytes on the wire are
	// whole frames only (the connection here never refuses bytes)
	for cancelAt := 1; cancelAt <= 3; cancelAt++ {
		cctx, cancel := context.WithCancel(context.Background())
		cw := &verifCancelling{after: cancelAt, cancel: cancel}
		cs := NewStream(cw)
		var want bytes.Buffer
		for i, m := range msgs[:3] {
			useCtx := ctx
			if i == 0 {
				useCtx = cctx
			}
			_, err := cs.Write(useCtx, m)
			js, _ := json.Marshal(m)
			if err == nil {
				want.WriteString("Content-Length: " + strconv.Itoa(len(js)) + "\r\n\r\n" + string(js))
			}
		}
		cancel()
		if cw.out.String() != want.String() {
			fmt.Printf("REPLAY-CONFIRMED context cancelled during connection write #%d of the first message: the wire holds %q, but the frames of the messages whose Write returned nil are %q (a partial frame was left behind although the connection refused nothing)\n", cancelAt, cw.out.String(), want.String())
			return
		}
	}
	// malformed / truncated frames: an error, never a panic or hang
	body := "{\"jsonrpc\":\"2.0\",\"method\":\"x\"}"
	bad := []string{
		"", "Content-Length: 5", "Content-Length: 5\r\n", "Content-Length: 5\r\n\r\n", "Content-Length: 50\r\n\r\n" + body,
		"Content-Length\r\n\r\n" + body, "Content-Length: abc\r\n\r\n" + body, "Content-Length: -3\r\n\r\n" + body,
		"Content-Length: 0\r\n\r\n" + body, "\r\n" + body, "X: y\r\n\r\n" + body, ":\r\n\r\n", "Content-Length:\r\n\r\n" + body,
		"Content-Length: 99999999999\r\n\r\n" + body, "Content-Length: 3\r\n\r\n" + body,
	}
	for _, in := range bad {
		for _, chunk := range []int{1, 4, 1 << 20} {
			done := make(chan string, 1)
			go func() {
				defer func() {
					if p := recover(); p != nil {
						done <- fmt.Sprintf("panic: %v", p)
					}
				}()
				_, _, err := NewStream(&verifChunked{data: []byte(in), chunk: chunk}).Read(ctx)
				if err == nil {
					done <- "no error"
					return
				}
				done <- ""
			}()
			select {
			case msg := <-done:
				if msg != "" {
					fmt.Printf("REPLAY-CONFIRMED malformed frame %q (chunk %d): %s\n", in, chunk, msg)
					return
				}
			case <-time.After(5 * time.Second):
				fmt.Printf("REPLAY-CONFIRMED malformed frame %q (chunk %d): Read hangs\n", in, chunk)
				return
			}
		}
	}
	if msg := verifInterleave(); msg != "" {
		fmt.Println("REPLAY-CONFIRMED " + msg)
		return
	}
	if msg := verifCalls(); msg != "" {
		fmt.Println("REPLAY-CONFIRMED " + msg)
		return
	}
	fmt.Println("REPLAY-NOT-REPRODUCED bounded search: 10 messages (string ids that look like numbers among them) x 6 chunkings, 3 cancellation points, 15 malformed frames x 3 chunkings, 4 call / reply schedules, 6 concurrent senders x 40 messages on one connection")
}

// verifWire records every transport write in wire order and yields in between, so that unsynchronised senders interleave
type verifWire struct {
	mu  sync.Mutex
	log [][]byte
}

func (w *verifWire) Read(p []byte) (int, error) { select {} }
func (w *verifWire) Write(p []byte) (int, error) {
	w.mu.Lock()
	w.log = append(w.log, append([]byte(nil), p...))
	w.mu.Unlock()
	runtime.Gosched()
	time.Sleep(50 * time.Microsecond)
	return len(p), nil
}
func (w *verifWire) Close() error { return nil }

// concurrent senders (notifications and calls) on one connection: the wire must be a sequence of whole frames
func verifInterleave() string {
	wire := &verifWire{}
	c := NewConn(NewStream(wire))
	ctx, cancel := context.WithCancel(context.Background())
	defer cancel()
	var wg sync.WaitGroup
	for g := 0; g < 6; g++ {
		wg.Add(1)
		go func(g int) {
			defer wg.Done()
			for i := 0; i < 40; i++ {
				if g%2 == 0 {
					c.Notify(ctx, "note", map[string]any{"from": g, "i": i, "text": "é日本"})
				} else {
					cctx, ccancel := context.WithTimeout(ctx, time.Millisecond)
					c.Call(cctx, "call", map[string]any{"from": g, "i": i}, nil)
					ccancel()
				}
			}
		}(g)
	}
	wg.Wait()
	var all []byte
	for _, p := range wire.log {
		all = append(all, p...)
	}
	rest := string(all)
	n := 0
	for rest != "" {
		var length int
		if _, err := fmt.Sscanf(rest, "Content-Length: %d\r\n\r\n", &length); err != nil {
			return fmt.Sprintf("6 concurrent senders on one connection: after %d whole frames the wire continues with %q - frames of different senders are interleaved", n, rest[:min(len(rest), 80)])
		}
		hdr := fmt.Sprintf("Content-Length: %d\r\n\r\n", length)
		if len(rest) < len(hdr)+length || !json.Valid([]byte(rest[len(hdr):len(hdr)+length])) {
			return fmt.Sprintf("6 concurrent senders on one connection: frame %d announces %d bytes but is followed by %q - frames of different senders are interleaved", n+1, length, rest[len(hdr):min(len(rest), len(hdr)+80)])
		}
		rest = rest[len(hdr)+length:]
		n++
	}
	return ""
}

// verifScript is a Stream whose peer is scripted: what it does when the k-th call is written decides the schedule.
type verifScript struct {
	in      chan Message // messages the peer sends
	reads   chan struct{} // one token per Read that run starts
	onWrite func(s *verifScript, n int, msg Message) error
	writes  int
}

func (s *verifScript) Read(ctx context.Context) (Message, int64, error) {
	select {
	case s.reads <- struct{}{}:
	default:
	}
	select {
	case m, ok := <-s.in:
		if !ok {
			return nil, 0, io.EOF
		}
		return m, 0, nil
	case <-ctx.Done():
		return nil, 0, ctx.Err()
	}
}
func (s *verifScript) Write(ctx context.Context, msg Message) (int64, error) {
	s.writes++
	return 0, s.onWrite(s, s.writes, msg)
}
func (s *verifScript) Close() error { return nil }

// the peer answers call id with a result naming that id
func verifReply(id ID) Message {
	r, _ := NewResponse(id, "result-for-"+fmt.Sprint(id), nil)
	return r
}

// waitDispatched: run has taken the message and come back for the next one
func (s *verifScript) waitDispatched() bool {
	for i := 0; i < 2; i++ {
		select {
		case <-s.reads:
		case <-time.After(2 * time.Second):
			return false
		}
	}
	return true
}

func verifCalls() string {
	type schedule struct {
		name    string
		onWrite func(s *verifScript, n int, msg Message) error
	}
	idOf := func(msg Message) ID { return msg.(*Call).ID() }
	schedules := []schedule{
		{"replies in order", func(s *verifScript, n int, msg Message) error { s.in <- verifReply(idOf(msg)); return nil }},
		{"the reply to call 1 arrives while its write fails (the call gives up with its reply parked), then call 2 is answered normally", func(s *verifScript, n int, msg Message) error {
			s.in <- verifReply(idOf(msg))
			if n == 1 {
				for len(s.reads) > 0 {
					<-s.reads
				}
				s.waitDispatched()
				return errors.New("connection reset after the request left")
			}
			return nil
		}},
		{"a reply for an id nobody waits for precedes the real reply", func(s *verifScript, n int, msg Message) error {
			s.in <- verifReply(NewNumberID(4242))
			s.in <- verifReply(idOf(msg))
			return nil
		}},
		{"a notification and a stale reply to call 1 arrive before the reply to call 2", func(s *verifScript, n int, msg Message) error {
			if n == 2 {
				nt, _ := NewNotification("note", nil)
				s.in <- nt
				s.in <- verifReply(NewNumberID(1))
			}
			s.in <- verifReply(idOf(msg))
			return nil
		}},
	}
	for _, sc := range schedules {
		s := &verifScript{in: make(chan Message, 8), reads: make(chan struct{}, 8), onWrite: sc.onWrite}
		ctx, cancel := context.WithCancel(context.Background())
		c := NewConn(s)
		c.Go(ctx, func(ctx context.Context, reply Replier, req Request) error { return nil })
		var log string
		for k := 1; k <= 3; k++ {
			type res struct {
				id  ID
				got string
				err error
			}
			done := make(chan res, 1)
			go func() {
				var got string
				id, err := c.Call(ctx, "m", nil, &got)
				done <- res{id, got, err}
			}()
			select {
			case r := <-done:
				log += fmt.Sprintf(" call %d: id=%v result=%q err=%v;", k, r.id, r.got, r.err)
				if r.err == nil && r.got != "result-for-"+fmt.Sprint(r.id) {
					cancel()
					return fmt.Sprintf("schedule %q: call %d (id %v) returned %q - the response of another call;%s", sc.name, k, r.id, r.got, log)
				}
			case <-time.After(3 * time.Second):
				cancel()
				return fmt.Sprintf("schedule %q: call %d never returns although the peer answered it (the read loop is stuck);%s", sc.name, k, log)
			}
		}
		cancel()
	}
	return ""
}
`

func replayC18(r *Run, o *Obligation) *ReplayResult {
	out, _ := r.runReplayTest("lsp/jsonrpc2", c18Harness, map[string]string{}, "TestVerifReplayC18")
	ok, detail := replayVerdict(out)
	return &ReplayResult{Confirmed: ok, Input: "bounded search on the real stream (messages x chunkings, malformed frames)", Detail: detail}
}
