package main

// C06 replay (bounded): the real parser on the repository's templates and crafted ones (multi-byte text before
// expressions, CRLF, multi-line expressions); every recorded Go expression must be located: range inside the input,
// ordered, line / column of its offsets, input text at the range start = expression text.

const c06Harness = `package parser

import (
	"fmt"
	"os"
	"path/filepath"
	"reflect"
	"sort"
	"strings"
	"testing"
	"time"
)

func verifWalkE(v reflect.Value, out *[]Expression, depth int) {
	if depth > 60 || !v.IsValid() {
		return
	}
	if v.Type() == reflect.TypeOf(Expression{}) {
		*out = append(*out, v.Interface().(Expression))
		return
	}
	switch v.Kind() {
	case reflect.Ptr, reflect.Interface:
		if !v.IsNil() {
			verifWalkE(v.Elem(), out, depth+1)
		}
	case reflect.Struct:
		for i := 0; i < v.NumField(); i++ {
			if v.Type().Field(i).IsExported() {
				verifWalkE(v.Field(i), out, depth+1)
			}
		}
	case reflect.Slice, reflect.Array:
		for i := 0; i < v.Len(); i++ {
			verifWalkE(v.Index(i), out, depth+1)
		}
	}
}

func verifLineCol(src string, idx int) (int, int) {
	return strings.Count(src[:idx], "\n"), idx - (strings.LastIndex(src[:idx], "\n") + 1)
}

func TestVerifReplayC06(t *testing.T) {
	srcs := map[string]string{
		"crafted/multibyte": "package p\n\ntempl a(s string) {\n\t<p>é日本{ s }</p>\n\tif s == \"é\" {\n\t\t<b>{ s }</b>\n\t}\n}\n",
		"crafted/crlf":      "package p\r\n\r\nimport (\r\n\t\"fmt\"\r\n\t\"strings\"\r\n)\r\n\r\nvar x = fmt.Sprint(strings.ToUpper(\"a\"))\r\n\r\ntempl a(s string) {\r\n\t<p>{ s }</p>\r\n\tfor _, c := range s {\r\n\t\t<i>{ string(c) }</i>\r\n\t}\r\n}\r\n",
		"crafted/constructs": "package p\n\ntempl a(s string, ok bool) {\n\t<!-- c -->\n\t<div class={ s } if ok {\n\t\tid=\"x\"\n\t} else {\n\t\tid=\"y\"\n\t} { attrs... }>{ s }</div>\n\tfor _, c := range s {\n\t\t{ string(c) }\n\t}\n\tif ok {\n\t\t@b(s)\n\t} else if s == \"\" {\n\t\t<br/>\n\t} else {\n\t\t{! b(s) }\n\t}\n\t<script>var x = {{ s }};</script>\n\t<style>p{}</style>\n\t{{ v := 1 }}\n\t@b(s) {\n\t\t<i></i>\n\t}\n}\n",
		"crafted/top-level-go": "package p\n\n/**\n * A starred comment with an empty line\n *\n * templ is great (really)\n */\n\n/* **** banner ****\n****/\n\n// templ x() {\nvar raw = \x60\ntempl is in a raw string\n*/ /*\n\x60\n\nfunc f() string { return \"/*\" } // */\n\ntempl a(s string) {\n\t<p>{ s }</p>\n}\n\n/* trailing *",
		"crafted/padded-keywords": "package p\n\ntempl a(show bool, items []string) {\n\tif  show {\n\t\t<a></a>\n\t} else if   len(items) > 1 {\n\t\t<b></b>\n\t}\n\tfor  _, item := range items {\n\t\t<i>{ item }</i>\n\t}\n\tswitch  len(items) {\n\tcase  1:\n\t\t<u></u>\n\t}\n\t@ row(\"a\")\n\t@row(  \"b\")\n}\n\ntempl row(s string) {\n\t<p>{ s }</p>\n}\n",
		"crafted/bom":       "\ufeffpackage p\n\ntempl a(s string) {\n\t<p>{ s }</p>\n\tif s == \"x\" {\n\t\t<b>{ s }</b>\n\t}\n}\n",
		"crafted/newline-after-brace": "package p\n\ntempl a(s string, c templ.CSSClass) {\n\t<div\n\t\tclass={\n\t\t\tc,\n\t\t\t\"x\",\n\t\t}\n\t\ttitle={\n\t\t\ts }\n\t>{\n\t\ts }</div>\n}\n\ncss k(w string) {\n\twidth: {\n\t\tw };\n}\n",
		"crafted/multiline": "package p\n\ntempl a(items []string) {\n\t<p>{ fmt.Sprintf(\"%d\",\n\t\tlen(items)) }</p>\n\t@b(items[0],\n\t\titems[1])\n\tswitch len(items) {\n\tcase 1:\n\t\t<a></a>\n\tdefault:\n\t\t<b></b>\n\t}\n}\n\ncss c(w string) {\n\twidth: { w };\n}\n",
	}
	files, _ := filepath.Glob("../../generator/test-*/*.templ")
	for _, f := range files {
		if data, err := os.ReadFile(f); err == nil {
			srcs[f] = string(data)
		}
	}
	var names []string
	for n := range srcs {
		names = append(names, n)
	}
	sort.Strings(names)
	// totality: every prefix of the crafted templates and of a few small repository templates (truncated input
	// ends inside every construct) parses, or is rejected, without a panic and without a hang
	prefixes := 0
	for _, n := range names {
		if !strings.HasPrefix(n, "crafted/") && len(srcs[n]) > 700 {
			continue
		}
		src := srcs[n]
		for cut := 0; cut <= len(src); cut++ {
			prefixes++
			done := make(chan string, 1)
			go func(in string) {
				defer func() {
					if p := recover(); p != nil {
						done <- fmt.Sprintf("panics: %v", p)
					}
				}()
				ParseString(in)
				done <- ""
			}(src[:cut])
			select {
			case msg := <-done:
				if msg != "" {
					fmt.Printf("REPLAY-CONFIRMED template %s cut after %d bytes (%q): the parser %s\n", n, cut, src[max(0, cut-30):cut], msg)
					return
				}
			case <-time.After(3 * time.Second):
				fmt.Printf("REPLAY-CONFIRMED template %s cut after %d bytes (%q): the parser does not return (3 s)\n", n, cut, src[max(0, cut-30):cut])
				return
			}
		}
	}
	total := 0
	for _, n := range names {
		src := srcs[n]
		tf, err := ParseString(src)
		if err != nil {
			continue
		}
		var es []Expression
		verifWalkE(reflect.ValueOf(tf), &es, 0)
		for _, e := range es {
			if e.Value == "" && e.Range.To.Index == 0 {
				continue
			}
			total++
			from, to := int(e.Range.From.Index), int(e.Range.To.Index)
			if from < 0 || to < from || to > len(src) {
				fmt.Printf("REPLAY-CONFIRMED template %s: expression %q has range %v outside the %d bytes of the input or unordered\n", n, e.Value, e.Range, len(src))
				return
			}
			if from+len(e.Value) > len(src) || src[from:from+len(e.Value)] != e.Value {
				fmt.Printf("REPLAY-CONFIRMED template %s: expression %q is recorded at offset %d, where the input holds %q\n", n, e.Value, from, src[from:min(len(src), from+len(e.Value))])
				return
			}
			for _, p := range []Position{e.Range.From, e.Range.To} {
				l, c := verifLineCol(src, int(p.Index))
				if int(p.Line) != l || int(p.Col) != c {
					fmt.Printf("REPLAY-CONFIRMED template %s: expression %q: offset %d is line %d column %d of the input, recorded as %d:%d\n", n, e.Value, p.Index, l, c, p.Line, p.Col)
					return
				}
			}
		}
	}
	fmt.Printf("REPLAY-NOT-REPRODUCED bounded search: %d expressions in %d templates are located; %d truncated inputs parse or fail without panic or hang\n", total, len(names), prefixes)
}
`

func replayC06(r *Run, o *Obligation) *ReplayResult {
	if r.replayOut == nil {
		r.replayOut = map[string]string{}
	}
	out, ok := r.replayOut["C06"]
	if !ok {
		out, _ = r.runReplayTest("parser/v2", c06Harness, map[string]string{}, "TestVerifReplayC06")
		r.replayOut["C06"] = out
	}
	okc, detail := replayVerdict(out)
	return &ReplayResult{Confirmed: okc, Input: "the real parser on the repository's templates and crafted ones", Detail: detail}
}
