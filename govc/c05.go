package main

import (
	"fmt"
	"strconv"
	"strings"
)

// replayC05: run the real sanitisers on candidate values (lemma witness, solver model, bounded search) and
// evaluate the specification languages on the real results.
func replayC05(r *Run, o *Obligation) *ReplayResult {
	safeV := r.e.langs.Get("CSS_VALUE_SAFE")
	safeN := r.e.langs.Get("CSS_NAME_SAFE")
	props := []string{"font-family", "background-image", "display", "color", "width", "unlisted-prop", "bad prop;",
		// adversarial names (a name that is not a plain identifier must be replaced by the innocuous one)
		"x;background-image:url(javascript:alert(1));color", "--x;position:fixed;height", "/*color", "a}body{display:none}b{color", "</style><script>alert(1)</script><style>a{color", "color:red;x", "-", "co lor", "color\n"}
	// property \x00 value encoded as one string
	fn := `func(in string) string { i := strings.IndexByte(in, 0); p, v := SanitizeCSS(in[:i], in[i+1:]); return p + "\x00" + v }`
	check := func(cands []string) (string, string, bool) {
		var ins []string
		for _, p := range props {
			for _, c := range cands {
				ins = append(ins, p+"\x00"+c)
			}
		}
		outs, err := r.evalStringFunc("safehtml", "safehtml", `	"strings"`, fn, ins)
		if err != nil {
			return "", err.Error(), false
		}
		for i, in := range ins {
			if strings.HasPrefix(outs[i], "PANIC:") {
				return in, "panic: " + outs[i], true
			}
			k := strings.IndexByte(outs[i], 0)
			if k < 0 {
				continue
			}
			p, v := outs[i][:k], outs[i][k+1:]
			ip := strings.IndexByte(in, 0)
			if !reMatch(safeN, p) {
				return in, fmt.Sprintf("SanitizeCSS(%s, %s) returned property name %s, which is not a plain CSS identifier", strconv.Quote(in[:ip]), strconv.Quote(in[ip+1:]), strconv.Quote(p)), true
			}
			if !reMatch(safeV, v) {
				return in, fmt.Sprintf("SanitizeCSS(%s, %s) returned value %s, which does not stay inside its declaration (not in CSS_VALUE_SAFE)", strconv.Quote(in[:ip]), strconv.Quote(in[ip+1:]), strconv.Quote(v)), true
			}
		}
		return "", "", false
	}
	if o != nil && o.HasWitness {
		if in, detail, bad := check([]string{o.Witness}); bad {
			return &ReplayResult{Confirmed: true, Input: "language-lemma witness " + strconv.Quote(o.Witness) + " as input " + strconv.Quote(in), Detail: "REPLAY-CONFIRMED " + detail}
		}
		// the shortest member of (left minus right) is not accepted by the real code (the left language
		// over-approximates what the code accepts): try further members
		more := reWitnesses(reAnd(o.LangLeft, reNot(o.LangRight)), 600, 20000)
		if in, detail, bad := check(more); bad {
			return &ReplayResult{Confirmed: true, Input: "member of the lemma's counterexample language as input " + strconv.Quote(in), Detail: "REPLAY-CONFIRMED " + detail}
		}
		return &ReplayResult{Confirmed: false, Input: fmt.Sprintf("%d members of the lemma's counterexample language", len(more)+1), Detail: "REPLAY-NOT-REPRODUCED"}
	}
	if r.replayCache == nil {
		r.replayCache = map[string]*ReplayResult{}
	}
	if rr, ok := r.replayCache["C05"]; ok {
		return rr
	}
	alpha := []string{";", ":", "{", "}", "(", ")", "\"", "'", "\\", "/", "*", "<", ">", ",", "@", "a", " ", "\n", "u"}
	cands := enumStrings(alpha, 3)
	cands = append(cands, "url(javascript:alert(1))", "url(\"javascript:x\")", "url(/a) ; } body { background:red ; (b)", "url(\"/a\"); color:red; x:url(\"b\")",
		"\"a\";color:red;\"b\"", "\"</style><script>alert(1)</script>\"", "expression(alert(1))", "red;}", "url(data:x)", "url('vbscript:x')", "a/**/b", "\"x\\\"", "url( \tJavaScript:x)", "serif\",\"", "url(/x)\n;", "\"\n\"")
	// flags and padding: a trailing !important (with and without leading white space of the payload's length), padding
	// around otherwise acceptable values
	for _, pay := range []string{";}</style><script>alert(1)</script><style>a{b:c", ";color:red", "}body{x:y"} {
		for _, base := range []string{"none", "red", "Arial", "1px", "url(/a.png)"} {
			cands = append(cands, base+pay+"!important", base+pay+" !important", strings.Repeat(" ", len(pay))+base+pay+"!important", strings.Repeat(" ", len(pay)+1)+base+" "+pay+"!important", strings.Repeat("\t", len(pay))+base+pay+" !IMPORTANT")
		}
	}
	cands = append(cands, "none !important", "red!important", "  none  ", "\tnone")
	// structured shapes: every wrapper prefix x inner text x wrapper suffix (also mismatched), quoted names, lists
	inners := []string{"", "x", "/a.png", "x y", ";", "a\"b", "a'b", "a)b", "a(b", "a\\b", "javascript:x", "}"}
	for _, p := range []string{"url(\"", "url('", "url(", "URL(\"", "\"", "'"} {
		for _, in := range inners {
			for _, sfx := range []string{"\")", "')", ")", "\"", "'", ""} {
				cands = append(cands, p+in+sfx, p+in+sfx+", url(\"/b.png\")", "url(\"/b.png\"), "+p+in+sfx, "serif, "+p+in+sfx)
			}
		}
	}
	in, detail, bad := check(cands)
	rr := &ReplayResult{Confirmed: bad, Input: fmt.Sprintf("bounded search: %d values (CSS-adversarial alphabet up to length 3 + vectors) x %d properties", len(cands), len(props)), Detail: "REPLAY-NOT-REPRODUCED"}
	if bad {
		rr.Input = "bounded search: " + strconv.Quote(in)
		rr.Detail = "REPLAY-CONFIRMED " + detail
	}
	r.replayCache["C05"] = rr
	return rr
}
