package main

import (
	"fmt"
	"go/ast"
	"go/token"
	"go/types"
	"path/filepath"
	"strings"

	"golang.org/x/tools/go/packages"
)

// catClosed: is the language closed under concatenation (L·L ⊆ L)? Decided by emptiness of L·L ∩ ¬L.
func (e *Engine) catClosed(lang string) bool {
	if e.catClosedMemo == nil {
		e.catClosedMemo = map[string]bool{}
	}
	if v, ok := e.catClosedMemo[lang]; ok {
		return v
	}
	re := e.langs.Get(lang)
	v := false
	if re != nil {
		_, found, _, err := reWitness(reAnd(reCat(re, re), reNot(re)), 20000)
		v = err == nil && !found
	}
	e.catClosedMemo[lang] = v
	return v
}

func (e *Engine) inL(s *Term, lang string) *Term {
	e.langUsed[lang] = true
	if s.IsStr() {
		// constant string: decide now ("by compute")
		return Bool(reMatch(e.langs.Get(lang), s.Str))
	}
	if s.Op == "ite" {
		return Ite(s.Args[0], e.inL(s.Args[1], lang), e.inL(s.Args[2], lang))
	}
	// a concatenation with a conditional piece: split on the condition (bounded), so that constant cases fold
	if s.Op == "str.++" {
		for k, a := range s.Args {
			if a.Op == "ite" && countIte(s) <= 4 {
				mkWith := func(x *Term) *Term {
					args := append(append(append([]*Term{}, s.Args[:k]...), x), s.Args[k+1:]...)
					return Concat(args...)
				}
				return Ite(a.Args[0], e.inL(mkWith(a.Args[1]), lang), e.inL(mkWith(a.Args[2]), lang))
			}
		}
	}
	re := e.langs.Get(lang) // must exist
	if (strings.HasPrefix(lang, "NONE_OF_") || strings.HasPrefix(lang, "PFX_") || strings.HasPrefix(lang, "SFX_") || (strings.HasPrefix(lang, "NO_") && strings.HasSuffix(lang, "_STAR") && len(lang) == 10)) && simpleLang(re) {
		// character-class stars and fixed affixes are given to the solver with their interpretation
		return &Term{Op: "str.in_re", Sort: SBool, Args: []*Term{s, {Op: "raw", Str: re.SMT(), Sort: &Sort{Kind: "RegLan"}}}}
	}
	return App("inL:"+lang, SBool, s)
}

// ProcessLangDirectives defines the code-derived languages declared in contract files.
func (e *Engine) ProcessLangDirectives() {
	for _, ld := range e.cs.LangDirs {
		func() {
			defer func() {
				if r := recover(); r != nil {
					e.rejected["lang:"+ld.Name] = fmt.Sprint(r)
				}
			}()
			pkg := e.pkgs[ld.Pkg]
			st := NewState()
			tableOf := func(name string) []string {
				obj, ok := pkg.Types.Scope().Lookup(name).(*types.Var)
				if !ok {
					panic(unsupported("lang %s: unknown table %s", ld.Name, name))
				}
				sv, ok := e.globalVar(st, obj).(*SliceV)
				if !ok || !sv.Len.IsInt() {
					panic(unsupported("lang %s: %s is not a constant table", ld.Name, name))
				}
				n := int(sv.Len.Int.Int64())
				out := make([]string, n)
				for i := 0; i < n; i++ {
					t, ok := sv.At(Int(int64(i))).(*Term)
					if !ok || !t.IsStr() {
						panic(unsupported("lang %s: %s[%d] is not a constant string", ld.Name, name, i))
					}
					out[i] = t.Str
				}
				return out
			}
			switch ld.Kind {
			case "entries":
				var alts []*Re
				for _, a := range ld.Args {
					if strings.HasPrefix(a, "\"") || strings.HasPrefix(a, "`") {
						lit, err := strconvUnquote(a)
						if err != nil {
							panic(unsupported("lang %s: bad literal %s", ld.Name, a))
						}
						alts = append(alts, reLit(lit))
						continue
					}
					for _, ent := range tableOf(a) {
						if ent != "" {
							alts = append(alts, reLit(ent))
						}
					}
				}
				e.langs.Define(ld.Name, reAlt(alts...), "(code) "+ld.Text)
			case "unmapped":
				var set byteSet
				var tables [][]string
				for _, a := range ld.Args {
					tables = append(tables, tableOf(a))
				}
				for b := 0; b < 0x80; b++ {
					free := true
					for _, t := range tables {
						if b < len(t) && t[b] != "" {
							free = false
						}
					}
					if free {
						set.add(byte(b))
					}
				}
				e.langs.Define(ld.Name, reSet(set), "(code) "+ld.Text)
			case "regexp":
				obj, ok := pkg.Types.Scope().Lookup(ld.Args[0]).(*types.Var)
				if !ok {
					panic(unsupported("lang %s: unknown variable %s", ld.Name, ld.Args[0]))
				}
				pat, ok := e.regexpLiteral(obj)
				if !ok {
					panic(unsupported("lang %s: %s is not regexp.MustCompile(<literal>)", ld.Name, ld.Args[0]))
				}
				re, err := FromGoRegexp(pat)
				if err != nil {
					panic(unsupported("lang %s: %v", ld.Name, err))
				}
				e.langs.Define(ld.Name, re, "(code) Go regexp "+strconvQuote(pat))
			default:
				panic(unsupported("lang %s: unknown kind %s", ld.Name, ld.Kind))
			}
		}()
	}
}

// regexpLiteral returns the pattern of  var x = regexp.MustCompile(`...`)
// provided x is never assigned elsewhere.
func (e *Engine) regexpLiteral(v *types.Var) (string, bool) {
	init := e.globalInitOf(v)
	call, ok := init.(*ast.CallExpr)
	if !ok || !e.neverAssigned(v) || len(call.Args) != 1 {
		return "", false
	}
	if exprString(call.Fun) != "regexp.MustCompile" {
		return "", false
	}
	pkg := e.pkgs[v.Pkg().Path()]
	tv, ok := pkg.TypesInfo.Types[call.Args[0]]
	if !ok || tv.Value == nil {
		return "", false
	}
	c := constToValue(tv.Value)
	t, ok := c.(*Term)
	if !ok || !t.IsStr() {
		return "", false
	}
	return t.Str, true
}

// globalVar: package-level variables. Variables that are never assigned in
// their package (checked syntactically over the loaded files) and have a
// composite-literal / constant initialiser are evaluated from the initialiser
// (mechanically extracted tables); others are unconstrained.
func (e *Engine) globalVar(st *State, v *types.Var) Value {
	key := "global:" + v.Pkg().Path() + "." + v.Name()
	if val, ok := st.ghost[key]; ok {
		return val
	}
	var val Value
	if init := e.globalInitOf(v); init != nil && e.neverAssigned(v) {
		pkg := e.pkgs[v.Pkg().Path()]
		fc := &FnCtx{e: e, pkg: pkg, info: pkg.TypesInfo, name: "init:" + v.Name(), counters: map[string]int{}, modified: map[types.Object]bool{}}
		ec := &evalCtx{fc: fc, st: st, info: pkg.TypesInfo, pkg: pkg}
		savedFailed, hadFailed := st.ghost[failedKey]
		defer func() {
			// package initialisation is not part of the function being verified
			if hadFailed {
				st.ghost[failedKey] = savedFailed
			} else {
				delete(st.ghost, failedKey)
			}
		}()
		func() {
			defer func() {
				if r := recover(); r != nil {
					if _, ok := r.(unsupportedErr); ok {
						val = nil
						return
					}
					panic(r)
				}
			}()
			val = ec.convertTo(ec.eval(init), pkg.TypesInfo.TypeOf(init), v.Type())
		}()
		if val != nil {
			e.notes = appendUnique(e.notes, fmt.Sprintf("package variable %s.%s read from its initialiser (never assigned in the package)", shortPkg(v.Pkg().Path()), v.Name()))
		}
	}
	if val == nil {
		val = e.freshNamed(st, key, v.Type(), 0)
	}
	st.ghost[key] = val
	return val
}

func appendUnique(xs []string, s string) []string {
	for _, x := range xs {
		if x == s {
			return xs
		}
	}
	return append(xs, s)
}

func (e *Engine) globalInitOf(v *types.Var) ast.Expr {
	pkg := e.pkgs[v.Pkg().Path()]
	if pkg == nil {
		return nil
	}
	for _, f := range pkg.Syntax {
		for _, d := range f.Decls {
			gd, ok := d.(*ast.GenDecl)
			if !ok || gd.Tok != token.VAR {
				continue
			}
			for _, sp := range gd.Specs {
				vs := sp.(*ast.ValueSpec)
				for i, n := range vs.Names {
					if pkg.TypesInfo.Defs[n] == v && i < len(vs.Values) && len(vs.Values) == len(vs.Names) {
						return vs.Values[i]
					}
				}
			}
		}
	}
	return nil
}

func (e *Engine) neverAssigned(v *types.Var) bool {
	if r, ok := e.globalsRO[v]; ok {
		return r
	}
	pkg := e.pkgs[v.Pkg().Path()]
	if pkg == nil {
		e.globalsRO[v] = true // a variable of a package outside the loaded set (library state): not ours to judge
		return true
	}
	ro := true
	for _, f := range pkg.Syntax {
		ast.Inspect(f, func(n ast.Node) bool {
			switch s := n.(type) {
			case *ast.AssignStmt:
				for _, l := range s.Lhs {
					if rootIdentObj(pkg.TypesInfo, l) == v {
						ro = false
					}
				}
			case *ast.IncDecStmt:
				if rootIdentObj(pkg.TypesInfo, s.X) == v {
					ro = false
				}
			case *ast.UnaryExpr:
				if s.Op == token.AND && rootIdentObj(pkg.TypesInfo, s.X) == v {
					ro = false
				}
			}
			return true
		})
	}
	// exported variables can be assigned from other packages of the module:
	// checked over all loaded packages.
	if v.Exported() {
		for _, p := range e.pkgs {
			if p == pkg {
				continue
			}
			for _, f := range p.Syntax {
				ast.Inspect(f, func(n ast.Node) bool {
					if s, ok := n.(*ast.AssignStmt); ok {
						for _, l := range s.Lhs {
							if rootIdentObj(p.TypesInfo, l) == v {
								ro = false
							}
						}
					}
					return true
				})
			}
		}
	}
	e.globalsRO[v] = ro
	return ro
}

func rootIdentObj(info *types.Info, e ast.Expr) types.Object {
	switch x := e.(type) {
	case *ast.Ident:
		return info.Uses[x]
	case *ast.ParenExpr:
		return rootIdentObj(info, x.X)
	case *ast.IndexExpr:
		return rootIdentObj(info, x.X)
	case *ast.SliceExpr:
		return rootIdentObj(info, x.X)
	case *ast.SelectorExpr:
		if info.Selections[x] == nil {
			return info.Uses[x.Sel]
		}
		return rootIdentObj(info, x.X)
	case *ast.StarExpr:
		return rootIdentObj(info, x.X)
	}
	return nil
}

// ---------------------------------------------------------------------------
// interfaces, type assertions, type switches

func (ec *evalCtx) evalTypeAssert(x *ast.TypeAssertExpr, commaOk bool) Value {
	v := ec.eval(x.X)
	to := ec.info.TypeOf(x.Type)
	iv, ok := v.(*IfaceV)
	if !ok {
		panic(unsupported("type assertion on %T", v))
	}
	okT, payload := ec.assertTo(iv, to)
	if commaOk {
		zero := ec.e().zeroValue(ec.st, to)
		return &TupleV{Vs: []Value{mergeValue(okT, payload, zero), okT}}
	}
	ec.oblige("typeassert", okT, x.Pos(), "type assertion "+exprText(x.X)+".("+types.TypeString(to, nil)+")")
	return payload
}

// assertTo returns (dynamic type is `to`, payload as `to`).
func (ec *evalCtx) assertTo(iv *IfaceV, to types.Type) (*Term, Value) {
	if _, isIface := to.Underlying().(*types.Interface); isIface {
		// interface-to-interface: holds iff dynamic type implements `to`: unknown
		name := types.TypeString(to, nil)
		ok := App("implements:"+name, SBool, iv.Tag)
		return And(Not(Eq(iv.Tag, Int(0))), ok), iv
	}
	name := types.TypeString(to, nil)
	tag := ec.e().typeTag(name)
	okT := Eq(iv.Tag, Int(tag))
	payload, have := iv.Payloads[name]
	if !have {
		payload = ec.e().freshNamed(ec.st, ec.e().fresher.name("payload:"+shortTypeName(name)), to, 0)
		// the payload of a given interface value is a function of its identity: for scalars, and for values built
		// from scalars (structs, strings, slices) - so that the code and a contract looking at the same interface
		// value see the same payload
		if t, ok := payload.(*Term); ok {
			payload = App("payload:"+name, t.Sort, iv.Id)
		} else {
			switch to.Underlying().(type) {
			case *types.Struct, *types.Slice:
				if !foreignStruct(to) {
					payload = ec.e().elemAt("payload:"+name, to, iv.Id, 1)
					// a value that enters from outside: its type invariants are assumed (as freshNamed does)
					for _, inv := range ec.e().typeInvTerms(payload, to, "payload:"+name, 0) {
						ec.st.Assume(inv)
					}
				}
			}
		}
		iv.Payloads[name] = payload
	}
	return okT, payload
}

func shortTypeName(s string) string {
	for i := len(s) - 1; i >= 0; i-- {
		if s[i] == '/' {
			return s[i+1:]
		}
	}
	return s
}

func (fc *FnCtx) execTypeSwitch(st *State, x *ast.TypeSwitchStmt) []Outcome {
	if x.Init != nil {
		st = fc.exec(st, x.Init)[0].st
	}
	var subject ast.Expr
	var bindName *ast.Ident
	switch a := x.Assign.(type) {
	case *ast.ExprStmt:
		subject = a.X.(*ast.TypeAssertExpr).X
	case *ast.AssignStmt:
		subject = a.Rhs[0].(*ast.TypeAssertExpr).X
		bindName = a.Lhs[0].(*ast.Ident)
	}
	_ = bindName
	v := fc.ec(st).eval(subject)
	iv, ok := v.(*IfaceV)
	if !ok {
		panic(unsupported("type switch on %T", v))
	}
	var clauses []*ast.CaseClause
	var def *ast.CaseClause
	for _, s := range x.Body.List {
		cc := s.(*ast.CaseClause)
		if cc.List == nil {
			def = cc
		} else {
			clauses = append(clauses, cc)
		}
	}
	var rec func(s *State, k int) []Outcome
	rec = func(s *State, k int) []Outcome {
		if k == len(clauses) {
			if def != nil {
				if obj := fc.info.Implicits[def]; obj != nil {
					s.Declare(obj, iv)
				}
				return fc.execBlock(s, def.Body)
			}
			return []Outcome{{kind: oFall, st: s}}
		}
		cc := clauses[k]
		ec := fc.ec(s)
		var conds []*Term
		var payload Value
		for _, te := range cc.List {
			if id, ok := te.(*ast.Ident); ok && id.Name == "nil" {
				conds = append(conds, Eq(iv.Tag, Int(0)))
				payload = iv
				continue
			}
			t := fc.info.TypeOf(te)
			okT, p := ec.assertTo(iv, t)
			conds = append(conds, okT)
			payload = p
		}
		if len(cc.List) != 1 {
			payload = iv
		}
		return fc.branch(s, Or(conds...), func(t *State) []Outcome {
			if obj := fc.info.Implicits[cc]; obj != nil {
				t.Declare(obj, payload)
			}
			return fc.execBlock(t, cc.Body)
		}, func(t *State) []Outcome { return rec(t, k+1) })
	}
	outs := rec(st, 0)
	lbl := fc.labels[x]
	var res []Outcome
	for _, o := range outs {
		if o.kind == oBreak && (o.label == "" || o.label == lbl) {
			o.kind = oFall
			o.label = ""
		}
		res = append(res, o)
	}
	return res
}

// ifaceContract: contract attached to an interface method (e.g. Component.Render).
func (e *Engine) ifaceContract(fn *types.Func) *Contract {
	sig, ok := fn.Type().(*types.Signature)
	if !ok || sig.Recv() == nil {
		return nil
	}
	if _, isIface := sig.Recv().Type().Underlying().(*types.Interface); !isIface {
		return nil
	}
	if n, ok := sig.Recv().Type().(*types.Named); ok && fn.Pkg() != nil {
		return e.cs.Contracts[contractKey(n.Obj().Pkg().Path(), n.Obj().Name(), fn.Name())]
	}
	return nil
}

// ---------------------------------------------------------------------------
// closures

func (ec *evalCtx) evalFuncLit(x *ast.FuncLit) Value {
	return &FuncV{Name: "closure", Id: Var(ec.e().fresher.name("closure"), SInt), Lit: x, Fc: ec.fc}
}

// callClosure executes the body of a function literal of the enclosing function at the call (captured variables are
// the enclosing function's own variables, so the body runs in the caller's state). A closure variable that holds
// different literals on different paths is called under the corresponding case split.
func (ec *evalCtx) callClosure(fv *FuncV, call *ast.CallExpr, args []Value) Value {
	if fv.AltC != nil {
		base := ec.st
		run := func(f *FuncV, cond *Term) (*State, Value) {
			st := base.Clone()
			st.Assume(cond)
			sub := *ec
			sub.st = st
			var r Value
			switch {
			case f.AltC != nil || f.Lit != nil:
				r = sub.callClosure(f, call, args)
			default:
				panic(unsupported("call of a function value that is a closure on one path and unknown on another"))
			}
			return sub.st, r
		}
		stA, rA := run(fv.AltA, fv.AltC)
		stB, rB := run(fv.AltB, Not(fv.AltC))
		ms := mergeStates(fv.AltC, stA, stB, base)
		*ec.st = *ms
		if rA == nil || rB == nil {
			return nil
		}
		return mergeValue(fv.AltC, rA, rB)
	}
	if fv.Lit == nil {
		panic(unsupported("call of closure value without a body"))
	}
	if ec.fc.depth > 8 {
		panic(unsupported("closure call depth"))
	}
	e := ec.e()
	lit := fv.Lit
	pkg, info := ec.fc.pkg, ec.fc.info
	sub := &FnCtx{e: e, pkg: pkg, info: info, decl: ec.fc.decl, body: lit.Body, c: nil, name: ec.fc.name + ">closure", firedWhere: map[string]bool{},
		counters: ec.fc.counters, modified: map[types.Object]bool{}, depth: ec.fc.depth + 1}
	sig, _ := info.TypeOf(lit).(*types.Signature)
	sub.sig = sig
	sub.index()
	st := ec.st
	savedNames := make(map[string]types.Object, len(st.names))
	for k, v := range st.names {
		savedNames[k] = v
	}
	i := 0
	if lit.Type.Params != nil {
		for _, fld := range lit.Type.Params.List {
			for _, n := range fld.Names {
				if obj := info.Defs[n]; obj != nil && i < len(args) {
					st.Declare(obj, args[i])
				}
				i++
			}
		}
	}
	sub.results = namedResults(info, lit.Type)
	for _, r := range sub.results {
		if r != nil {
			st.Declare(r, e.zeroValue(st, r.Type()))
		}
	}
	outs := sub.execBlock(st, lit.Body.List)
	var rets []Outcome
	for _, o := range outs {
		switch o.kind {
		case oReturn:
			rets = append(rets, o)
		case oFall:
			var rv []Value
			for _, r := range sub.results {
				if r != nil {
					rv = append(rv, o.st.vars[r])
				}
			}
			rets = append(rets, Outcome{kind: oReturn, st: o.st, rets: rv})
		default:
			panic(unsupported("closure: stray break/continue"))
		}
	}
	if len(rets) == 0 {
		ec.st.Assume(False)
		return nil
	}
	merged := rets[len(rets)-1]
	base := ec.st
	nb := len(base.pc)
	for k := len(rets) - 2; k >= 0; k-- {
		o := rets[k]
		cond := And(o.st.pc[nb:]...)
		ms := mergeStates(cond, o.st, merged.st, base)
		var mr []Value
		for j := range o.rets {
			mr = append(mr, mergeValue(cond, o.rets[j], merged.rets[j]))
		}
		merged = Outcome{kind: oReturn, st: ms, rets: mr}
	}
	*ec.st = *merged.st
	ec.st.names = savedNames
	// results converted to the declared result types (e.g. a concrete reader returned as io.Reader)
	if sig != nil {
		for j := range merged.rets {
			if j < sig.Results().Len() && merged.rets[j] != nil {
				merged.rets[j] = ec.convertTo(merged.rets[j], nil, sig.Results().At(j).Type())
			}
		}
	}
	switch len(merged.rets) {
	case 0:
		return nil
	case 1:
		return merged.rets[0]
	}
	return &TupleV{Vs: merged.rets}
}

// renderCV returns the pointer to the per-render context value (templ.contextValue).
// Assumption (stated in the evidence): all context.Context values that flow
// through one render carry the same *contextValue (templ.InitializeContext at the
// top of every generated component establishes it).
func (e *Engine) renderCV(st *State) *PtrV {
	if e.cvObj == 0 {
		e.cvObj = e.allocObj(nil, nil)
	}
	if _, ok := st.heap[e.cvObj]; !ok {
		pkg := e.pkgs[modulePath]
		if pkg == nil {
			panic(unsupported("cv(): package %s is not loaded", modulePath))
		}
		obj := pkg.Types.Scope().Lookup("contextValue")
		if obj == nil {
			panic(unsupported("cv(): type contextValue not found"))
		}
		st.heap[e.cvObj] = e.freshNamed(st, "cv", obj.Type(), 0)
	}
	e.trusted["one render = one shared templ.contextValue: every context that flows through a render carries the same *contextValue (getContext / InitializeContext are trusted with this contract)"] = true
	return &PtrV{Nil: False, Obj: e.cvObj}
}

func countIte(t *Term) int {
	n := 0
	if t.Op == "ite" {
		n++
	}
	for _, a := range t.Args {
		n += countIte(a)
	}
	return n
}

// simpleLang: C* for a byte class C, or lit·Σ*, or Σ*·lit.
func simpleLang(r *Re) bool {
	isAnyStar := func(x *Re) bool {
		return x.key == reAll.key || (x.op == "star" && x.subs[0].op == "set" && x.subs[0].set.full())
	}
	if r.op == "star" && r.subs[0].op == "set" {
		return true
	}
	if r.op == "cat" && len(r.subs) >= 2 && len(r.subs) <= 10 {
		lits := func(xs []*Re) bool {
			for _, x := range xs {
				if x.op != "set" {
					return false
				}
			}
			return true
		}
		if isAnyStar(r.subs[len(r.subs)-1]) && lits(r.subs[:len(r.subs)-1]) {
			return true
		}
		if isAnyStar(r.subs[0]) && lits(r.subs[1:]) {
			return true
		}
	}
	return false
}

// mapEverWritten: is there an assignment through an index expression rooted at the package-level map v?
func (e *Engine) mapEverWritten(v *types.Var) bool {
	pkg := e.pkgs[v.Pkg().Path()]
	if pkg == nil {
		return true
	}
	found := false
	for _, f := range pkg.Syntax {
		ast.Inspect(f, func(n ast.Node) bool {
			if s, ok := n.(*ast.AssignStmt); ok {
				for _, l := range s.Lhs {
					if ix, ok := l.(*ast.IndexExpr); ok && rootIdentObj(pkg.TypesInfo, ix.X) == v {
						found = true
					}
				}
			}
			if c, ok := n.(*ast.CallExpr); ok {
				if id, ok := c.Fun.(*ast.Ident); ok && id.Name == "delete" && len(c.Args) > 0 && rootIdentObj(pkg.TypesInfo, c.Args[0]) == v {
					found = true
				}
			}
			return !found
		})
	}
	return found
}

// SweepConcurrency: the rely side of the channel and lock invariants. A channel invariant is assumed at every
// receive because every send proves it, and a lock invariant is assumed at every acquisition because every release
// proves it - so every send statement on such a channel, every close of one, and every access to a protected field
// anywhere in the package (test files aside) has to be inside a function that is under contract for this property.
func (e *Engine) SweepConcurrency(prop string) {
	if e.cs == nil || (len(e.cs.ChanInvs) == 0 && len(e.cs.LockInvs) == 0 && len(e.cs.NeverClosed) == 0 && len(e.cs.Closable) == 0) {
		return
	}
	under := map[string]bool{}
	for _, c := range e.ContractsFor(prop) {
		under[contractKey(c.Pkg, c.Recv, strings.SplitN(c.Name, "$", 2)[0])] = true
	}
	pkgs := map[string]bool{}
	for _, ci := range e.cs.ChanInvs {
		pkgs[ci.Pkg] = true
	}
	for _, li := range e.cs.LockInvs {
		pkgs[li.Pkg] = true
	}
	for k := range e.cs.NeverClosed {
		pkgs[k[:strings.LastIndex(k, ".")]] = true
	}
	for k := range e.cs.Closable {
		pkgs[k[:strings.LastIndex(k, ".")]] = true
	}
	n := 0
	fail := func(pkg *packages.Package, pos token.Pos, fn, what string) {
		n++
		p := pkg.Fset.Position(pos)
		e.addObl(&Obligation{Name: fmt.Sprintf("%s#rely.%d", fn, n), Kind: "site", Func: fn, Goal: False, Verdict: "sat", Solver: "engine",
			Pos: fmt.Sprintf("%s:%d", p.Filename, p.Line), Note: what})
	}
	checked := 0
	for path := range pkgs {
		pkg := e.pkgs[path]
		if pkg == nil {
			continue
		}
		for _, file := range pkg.Syntax {
			if strings.HasSuffix(pkg.Fset.Position(file.Pos()).Filename, "_test.go") {
				continue
			}
			for _, d := range file.Decls {
				fd, ok := d.(*ast.FuncDecl)
				if !ok || fd.Body == nil {
					continue
				}
				recv := ""
				if fd.Recv != nil && len(fd.Recv.List) == 1 {
					t := fd.Recv.List[0].Type
					if st, ok := t.(*ast.StarExpr); ok {
						t = st.X
					}
					if id, ok := t.(*ast.Ident); ok {
						recv = id.Name
					}
				}
				fn := contractKey(path, recv, fd.Name.Name)
				covered := under[fn]
				// uses of a protected map / slice / pointer field that keep it in place: indexing, ranging, len, delete,
				// assignment to it. Any other use copies the reference out of the critical section (maps are modelled by
				// value, so the executor would not see what happens through the copy).
				inPlace := map[ast.Expr]bool{}
				ast.Inspect(fd.Body, func(nd ast.Node) bool {
					switch x := nd.(type) {
					case *ast.IndexExpr:
						inPlace[ast.Unparen(x.X)] = true
					case *ast.RangeStmt:
						inPlace[ast.Unparen(x.X)] = true
					case *ast.AssignStmt:
						for _, l := range x.Lhs {
							inPlace[ast.Unparen(l)] = true
						}
					case *ast.CallExpr:
						if id, ok := x.Fun.(*ast.Ident); ok && (id.Name == "len" || id.Name == "delete") && len(x.Args) > 0 {
							inPlace[ast.Unparen(x.Args[0])] = true
						}
					case *ast.BinaryExpr:
						// comparison with nil
						inPlace[ast.Unparen(x.X)] = true
						inPlace[ast.Unparen(x.Y)] = true
					}
					return true
				})
				ast.Inspect(fd.Body, func(nd ast.Node) bool {
					switch x := nd.(type) {
					case *ast.SendStmt:
						if ct, ok := pkg.TypesInfo.TypeOf(x.Chan).Underlying().(*types.Chan); ok && e.closableElem(ct.Elem()) {
							checked++
							if !covered {
								fail(pkg, x.Pos(), fn, "send on a closable channel in a function that is not under contract (that the channel is still open is not proved here)")
							}
						}
						if ct, ok := pkg.TypesInfo.TypeOf(x.Chan).Underlying().(*types.Chan); ok {
							if ci := e.chanInvForElem(ct.Elem()); ci != nil {
								checked++
								if !covered {
									fail(pkg, x.Pos(), fn, "send on a channel of "+ci.Elem+" in a function that is not under contract: the channel invariant ("+ci.Text+") that receivers rely on is not proved here")
								}
							}
						}
					case *ast.CallExpr:
						if id, ok := x.Fun.(*ast.Ident); ok && id.Name == "close" && len(x.Args) == 1 {
							if _, isBuiltin := pkg.TypesInfo.Uses[id].(*types.Builtin); isBuiltin {
								if ct, ok := pkg.TypesInfo.TypeOf(x.Args[0]).Underlying().(*types.Chan); ok {
									if ci := e.chanInvForElem(ct.Elem()); ci != nil {
										fail(pkg, x.Pos(), fn, "close of a channel of "+ci.Elem+": receivers assume the channel invariant of every value received, a closed channel delivers zero values")
									}
									if e.neverClosedElem(ct.Elem()) {
										checked++
										fail(pkg, x.Pos(), fn, "close of a channel whose element type is declared neverclosed: goroutines send on such channels without holding any lock")
									}
									if e.closableElem(ct.Elem()) {
										checked++
										if !covered {
											fail(pkg, x.Pos(), fn, "close of a closable channel in a function that is not under contract (ownership and single close are not proved here)")
										}
									}
								}
							}
						}
					case *ast.SelectorExpr:
						sel := pkg.TypesInfo.Selections[x]
						if sel == nil || sel.Kind() != types.FieldVal {
							return true
						}
						t := sel.Recv()
						if p, ok := t.Underlying().(*types.Pointer); ok {
							t = p.Elem()
						}
						nt, ok := t.(*types.Named)
						if !ok || nt.Obj().Pkg() == nil {
							return true
						}
						for _, li := range e.cs.LockInvs {
							if li.Pkg != nt.Obj().Pkg().Path() || li.Type != nt.Obj().Name() {
								continue
							}
							for _, f := range li.Protects {
								if f == x.Sel.Name {
									checked++
									switch sel.Type().Underlying().(type) {
									case *types.Map, *types.Slice, *types.Pointer:
										if !inPlace[x] {
											fail(pkg, x.Pos(), fn, "field "+li.Type+"."+f+" is protected by "+li.Mutex+" and refers to shared memory: here the reference itself is copied (assigned, passed or returned), so it can be used after the lock is released")
										}
									}
									if !covered {
										fail(pkg, x.Pos(), fn, "field "+li.Type+"."+f+" is protected by "+li.Mutex+" (lock invariant "+li.Text+") but is accessed in a function that is not under contract")
									}
								}
							}
						}
					}
					return true
				})
			}
		}
	}
	e.notes = appendUnique(e.notes, fmt.Sprintf("rely sweep: %d send statements / protected-field accesses in the package are all inside functions under contract", checked))
}

// SweepCallSites: a contract with `callsite requires` clauses puts an obligation at every call in verified code; a
// call of the same function from a function of the contract's package (or, for an interface contract, of the package
// that declares the interface) that is *not* under contract would escape it - such a call is a failed obligation.
func (e *Engine) SweepCallSites(prop string) {
	under := map[string]bool{}
	for _, c := range e.ContractsFor(prop) {
		under[contractKey(c.Pkg, c.Recv, strings.SplitN(c.Name, "$", 2)[0])] = true
	}
	n := 0
	for _, c := range e.ContractsFor(prop) {
		active := false
		for _, cl := range c.CallSite {
			if e.applies(cl) {
				active = true
			}
		}
		if !active {
			continue
		}
		pkg := e.pkgs[c.Pkg]
		if pkg == nil || !strings.HasPrefix(c.Pkg, modulePath) {
			continue
		}
		for _, file := range pkg.Syntax {
			if strings.HasSuffix(pkg.Fset.Position(file.Pos()).Filename, "_test.go") {
				continue
			}
			for _, d := range file.Decls {
				fd, ok := d.(*ast.FuncDecl)
				if !ok || fd.Body == nil {
					continue
				}
				recv := ""
				if fd.Recv != nil && len(fd.Recv.List) == 1 {
					t := fd.Recv.List[0].Type
					if st, ok := t.(*ast.StarExpr); ok {
						t = st.X
					}
					if ix, ok := t.(*ast.IndexExpr); ok {
						t = ix.X
					}
					if id, ok := t.(*ast.Ident); ok {
						recv = id.Name
					}
				}
				fn := contractKey(c.Pkg, recv, fd.Name.Name)
				if under[fn] {
					continue
				}
				ast.Inspect(fd.Body, func(nd ast.Node) bool {
					call, ok := nd.(*ast.CallExpr)
					if !ok {
						return true
					}
					f := calleeFunc(pkg.TypesInfo, call)
					if f == nil || f.Pkg() == nil {
						return true
					}
					cc := e.contractForFunc(f)
					if cc == nil {
						cc = e.ifaceContract(f)
					}
					if cc != c {
						return true
					}
					n++
					p := pkg.Fset.Position(call.Pos())
					e.addObl(&Obligation{Name: fmt.Sprintf("%s#callsite-sweep.%d", fn, n), Kind: "site", Func: fn, Goal: False, Verdict: "sat", Solver: "engine",
						Pos: fmt.Sprintf("%s:%d", p.Filename, p.Line), Note: "call of " + shortName(c) + " in " + fd.Name.Name + ", which is not under contract: the call-site clause (" + c.CallSite[0].Text + ") is not proved here"})
					return true
				})
			}
		}
	}
}

// SweepGlobals (C14): the confinement obligations are generated inside the functions under contract. A function of the
// render-path packages that is *not* under contract (a new helper, say) would escape them, so: every use of a
// package-level variable that is assigned anywhere after initialisation (element writes, field writes and & included)
// outside the functions under contract - test files, init functions and variable initialisers aside - is a failed
// obligation. sync.Pool / sync.Mutex / sync.Once values are exempt (safe for concurrent use by their documentation).
func (e *Engine) SweepGlobals(prop string, pkgPaths []string) {
	under := map[string]bool{}
	for _, c := range e.ContractsFor(prop) {
		under[contractKey(c.Pkg, c.Recv, strings.SplitN(c.Name, "$", 2)[0])] = true
	}
	n, seen := 0, 0
	for _, path := range pkgPaths {
		pkg := e.pkgs[path]
		if pkg == nil {
			continue
		}
		for _, file := range pkg.Syntax {
			if strings.HasSuffix(pkg.Fset.Position(file.Pos()).Filename, "_test.go") {
				continue
			}
			for _, d := range file.Decls {
				fd, ok := d.(*ast.FuncDecl)
				if !ok || fd.Body == nil || (fd.Recv == nil && fd.Name.Name == "init") {
					continue
				}
				recv := ""
				if fd.Recv != nil && len(fd.Recv.List) == 1 {
					t := fd.Recv.List[0].Type
					if st, ok := t.(*ast.StarExpr); ok {
						t = st.X
					}
					if ix, ok := t.(*ast.IndexExpr); ok {
						t = ix.X
					}
					if id, ok := t.(*ast.Ident); ok {
						recv = id.Name
					}
				}
				fn := contractKey(path, recv, fd.Name.Name)
				if under[fn] {
					continue
				}
				reported := map[*types.Var]bool{}
				// &v handed to a sync/atomic function is an atomic access
				atomicUse := map[*ast.Ident]bool{}
				ast.Inspect(fd.Body, func(nd ast.Node) bool {
					call, ok := nd.(*ast.CallExpr)
					if !ok {
						return true
					}
					if f := calleeFunc(pkg.TypesInfo, call); f != nil && f.Pkg() != nil && f.Pkg().Path() == "sync/atomic" {
						for _, a := range call.Args {
							if ue, ok := ast.Unparen(a).(*ast.UnaryExpr); ok && ue.Op == token.AND {
								if id, ok := ast.Unparen(ue.X).(*ast.Ident); ok {
									atomicUse[id] = true
								}
							}
						}
					}
					return true
				})
				ast.Inspect(fd.Body, func(nd ast.Node) bool {
					id, ok := nd.(*ast.Ident)
					if !ok || atomicUse[id] {
						return true
					}
					v, ok := pkg.TypesInfo.Uses[id].(*types.Var)
					if !ok || v.Pkg() == nil || v.Parent() != v.Pkg().Scope() || reported[v] {
						return true
					}
					seen++
					ts := types.TypeString(v.Type(), nil)
					if strings.HasPrefix(ts, "sync.") || strings.HasPrefix(ts, "*sync.") || strings.HasPrefix(ts, "sync/atomic.") {
						return true
					}
					if e.neverAssigned(v) {
						return true
					}
					reported[v] = true
					n++
					p := pkg.Fset.Position(id.Pos())
					e.addObl(&Obligation{Name: fmt.Sprintf("%s#confine-sweep.%s", fn, v.Name()), Kind: "confine", Func: fn, Goal: False, Verdict: "sat", Solver: "engine",
						Pos: fmt.Sprintf("%s:%d", p.Filename, p.Line), Note: "package-level variable " + v.Name() + " is assigned somewhere after initialisation and is used in " + fd.Name.Name + ", which is not under contract: that every use happens with its guard held (guarded directive) is not proved here"})
					return true
				})
			}
		}
	}
	e.notes = appendUnique(e.notes, fmt.Sprintf("confinement sweep over %s: %d uses of package-level variables in functions that are not under contract, all of variables that are never assigned after initialisation", strings.Join(pkgPaths, ", "), seen))
}

// SweepStyleWriters (C05): the style-attribute path writes into one strings.Builder through a handful of helpers in
// runtime/styleattribute.go. The helpers that write names and values of declarations are under contract; a helper
// that is neither under contract nor one of the four that are outside the property by design (plain strings are
// CSS-string-escaped as a whole, SafeCSS is trusted by type, the dispatcher and the two reflection walkers only hand
// values on) would write to the attribute unseen - it is a failed obligation.
func (e *Engine) SweepStyleWriters(prop string) {
	path := modulePath + "/runtime"
	pkg := e.pkgs[path]
	if pkg == nil {
		return
	}
	under := map[string]bool{}
	for _, c := range e.ContractsFor(prop) {
		if c.Pkg == path {
			under[c.Name] = true
		}
	}
	outside := map[string]string{
		"sanitizeStyleAttributeValue": "dispatcher", "processSafeCSS": "SafeCSS is trusted by type", "processString": "plain strings are escaped as a whole (outside the property)",
		"handleFuncWithReflection": "hands the function's result to the dispatcher", "handleSliceWithReflection": "hands the elements to the dispatcher",
	}
	n := 0
	for _, file := range pkg.Syntax {
		if !strings.HasSuffix(pkg.Fset.Position(file.Pos()).Filename, "styleattribute.go") {
			continue
		}
		for _, d := range file.Decls {
			fd, ok := d.(*ast.FuncDecl)
			if !ok || fd.Body == nil || fd.Recv != nil {
				continue
			}
			takesBuilder := false
			for _, p := range fd.Type.Params.List {
				if t := pkg.TypesInfo.TypeOf(p.Type); t != nil && types.TypeString(t, nil) == "*strings.Builder" {
					takesBuilder = true
				}
			}
			if !takesBuilder {
				continue
			}
			n++
			if under[fd.Name.Name] || outside[fd.Name.Name] != "" {
				continue
			}
			p := pkg.Fset.Position(fd.Pos())
			e.addObl(&Obligation{Name: fmt.Sprintf("runtime.%s#style-writer", fd.Name.Name), Kind: "site", Func: "runtime." + fd.Name.Name, Goal: False, Verdict: "sat", Solver: "engine",
				Pos: fmt.Sprintf("%s:%d", p.Filename, p.Line), Note: "runtime." + fd.Name.Name + " writes into the style attribute's builder but is not under contract: that the names and values it writes come from the sanitisers is not proved"})
		}
	}
	e.notes = appendUnique(e.notes, fmt.Sprintf("style writers: %d functions of runtime/styleattribute.go take the builder; each is under contract or one of the 5 that only dispatch / handle values outside the property", n))
}

// SweepExpressionList (C16): SourceMap.Expressions is what HasChanged compares to decide whether an edit needs a
// recompilation: it has to hold the text of every Go expression of the generated code, as written. Outside
// SourceMap.Add the list may only grow by the Value of an expression ( x.Expressions = append(x.Expressions, e.Value) );
// every other write to it - an element assignment, an append of something else, a reslice - is a failed obligation.
func (e *Engine) SweepExpressionList(prop string) {
	n := 0
	for _, path := range []string{modulePath + "/generator", modulePath + "/parser/v2"} {
		pkg := e.pkgs[path]
		if pkg == nil {
			continue
		}
		isList := func(x ast.Expr) bool {
			sel, ok := ast.Unparen(x).(*ast.SelectorExpr)
			if !ok || sel.Sel.Name != "Expressions" {
				return false
			}
			t := pkg.TypesInfo.TypeOf(sel.X)
			if t == nil {
				return false
			}
			if p, ok := t.(*types.Pointer); ok {
				t = p.Elem()
			}
			return types.TypeString(t, nil) == modulePath+"/parser/v2.SourceMap"
		}
		for _, file := range pkg.Syntax {
			fname := pkg.Fset.Position(file.Pos()).Filename
			if strings.HasSuffix(fname, "_test.go") {
				continue
			}
			for _, d := range file.Decls {
				fd, ok := d.(*ast.FuncDecl)
				if !ok || fd.Body == nil {
					continue
				}
				fname := fd.Name.Name
				if fd.Recv != nil && len(fd.Recv.List) > 0 {
					fname = recvTypeName(fd.Recv.List[0].Type) + "." + fname
				}
				if path == modulePath+"/parser/v2" && fname == "SourceMap.Add" {
					continue // under contract
				}
				k := 0
				ast.Inspect(fd.Body, func(x ast.Node) bool {
					as, ok := x.(*ast.AssignStmt)
					if !ok {
						return true
					}
					for i, l := range as.Lhs {
						target := l
						if ix, ok := ast.Unparen(l).(*ast.IndexExpr); ok {
							target = ix.X
						}
						if !isList(target) {
							continue
						}
						k++
						n++
						good := false
						if target == l && len(as.Rhs) == len(as.Lhs) {
							if call, ok := ast.Unparen(as.Rhs[i]).(*ast.CallExpr); ok && exprString(call.Fun) == "append" && len(call.Args) == 2 && !call.Ellipsis.IsValid() && exprString(call.Args[0]) == exprString(l) {
								if sel, ok := ast.Unparen(call.Args[1]).(*ast.SelectorExpr); ok && sel.Sel.Name == "Value" {
									if t := pkg.TypesInfo.TypeOf(sel.X); t != nil && strings.HasSuffix(types.TypeString(t, nil), "/parser/v2.Expression") {
										good = true
									}
								}
							}
						}
						p := pkg.Fset.Position(as.Pos())
						o := &Obligation{Name: fmt.Sprintf("%s.%s#exprlist.%d", filepath.Base(path), fname, k), Kind: "site", Func: fname, Goal: True, Verdict: "unsat", Solver: "engine", Pos: fmt.Sprintf("%s:%d", p.Filename, p.Line),
							Note: "the expression list of the source map grows by the text of an expression"}
						if !good {
							o.Goal, o.Verdict = False, "sat"
							o.Note = "the expression list that HasChanged compares is written outside SourceMap.Add by something other than appending an expression's text: an edit of that expression may then go unnoticed (no recompilation)"
						}
						e.addObl(o)
					}
					return true
				})
			}
		}
	}
	e.notes = appendUnique(e.notes, fmt.Sprintf("expression list: %d writes to SourceMap.Expressions outside SourceMap.Add, each an append of an expression's text", n))
}

// SweepContextValueMaps (C14): the registries of a render (contextValue.ss, contextValue.onceHandles) belong to one
// context value. They may only ever be given a map made on the spot (a composite literal or make) - assigning a map
// that lives elsewhere (a field of a middleware, a package variable, a parameter) shares one render's registry with
// other renders: their output then depends on each other and concurrent renders write one map.
func (e *Engine) SweepContextValueMaps(prop string) {
	pkg := e.pkgs[modulePath]
	if pkg == nil {
		return
	}
	n := 0
	isRegistry := func(x ast.Expr) (string, bool) {
		sel, ok := ast.Unparen(x).(*ast.SelectorExpr)
		if !ok || (sel.Sel.Name != "ss" && sel.Sel.Name != "onceHandles") {
			return "", false
		}
		t := pkg.TypesInfo.TypeOf(sel.X)
		if t == nil {
			return "", false
		}
		if p, ok := t.(*types.Pointer); ok {
			t = p.Elem()
		}
		return sel.Sel.Name, types.TypeString(t, nil) == modulePath+".contextValue"
	}
	fresh := func(x ast.Expr) bool {
		switch y := ast.Unparen(x).(type) {
		case *ast.CompositeLit:
			return true
		case *ast.CallExpr:
			return exprString(y.Fun) == "make"
		case *ast.Ident:
			return y.Name == "nil"
		}
		return false
	}
	for _, file := range pkg.Syntax {
		if strings.HasSuffix(pkg.Fset.Position(file.Pos()).Filename, "_test.go") {
			continue
		}
		for _, d := range file.Decls {
			fd, ok := d.(*ast.FuncDecl)
			if !ok || fd.Body == nil {
				continue
			}
			fname := fd.Name.Name
			if fd.Recv != nil && len(fd.Recv.List) > 0 {
				fname = recvTypeName(fd.Recv.List[0].Type) + "." + fname
			}
			k := 0
			report := func(pos token.Pos, field string, rhs ast.Expr) {
				k++
				n++
				p := pkg.Fset.Position(pos)
				o := &Obligation{Name: fmt.Sprintf("templ.%s#ctxmap.%d", fname, k), Kind: "confine", Func: "templ." + fname, Goal: True, Verdict: "unsat", Solver: "engine", Pos: fmt.Sprintf("%s:%d", p.Filename, p.Line),
					Note: "the registry " + field + " of a context value is given a map made on the spot"}
				if !fresh(rhs) {
					o.Goal, o.Verdict = False, "sat"
					o.Note = "the registry " + field + " of a context value is given the map " + exprText(rhs) + ", which lives outside this render: renders that receive it share one registry (their output depends on each other, and concurrent renders write one map)"
				}
				e.addObl(o)
			}
			ast.Inspect(fd.Body, func(x ast.Node) bool {
				switch y := x.(type) {
				case *ast.AssignStmt:
					if len(y.Lhs) == len(y.Rhs) {
						for i, l := range y.Lhs {
							if f, ok := isRegistry(l); ok {
								report(y.Pos(), f, y.Rhs[i])
							}
						}
					}
				case *ast.CompositeLit:
					if t := pkg.TypesInfo.TypeOf(y); t != nil && strings.HasSuffix(types.TypeString(t, nil), modulePath+".contextValue") {
						for _, el := range y.Elts {
							if kv, ok := el.(*ast.KeyValueExpr); ok {
								if id, ok := kv.Key.(*ast.Ident); ok && (id.Name == "ss" || id.Name == "onceHandles") {
									report(kv.Pos(), id.Name, kv.Value)
								}
							}
						}
					}
				}
				return true
			})
		}
	}
	e.notes = appendUnique(e.notes, fmt.Sprintf("context value registries: %d assignments to contextValue.ss / onceHandles, each of a map made on the spot", n))
}
