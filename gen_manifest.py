#!/usr/bin/env python3
"""Regenerates MANIFEST.json from the table below (kept in one place so that it stays valid)."""
import json, subprocess

CLAIMED = {
 "C17": dict(
   level="proof",
   text="Functional contract on Document.Apply (line-splice of the clamped range, taken from the property statement) and on every primitive it uses (normalize, Insert, Delete, Overwrite, InsertLines, DeleteLines, LineLengths, Len, Replace, NewDocument); every obligation (postconditions, call-site preconditions, loop invariant, slice/index bounds, nil dereference, frame) is generated from the typed AST of /repo's current source and discharged by SMT for all documents, ranges and texts (no bound). One edit step is proved; the statement about edit sequences follows by induction over the sequence because the postcondition re-establishes the precondition (len(Lines) >= 1).",
   note="govc VC generator and SMT solvers; Go subset semantics (mathematical int, exact uint32 wrap); slices have value semantics (no aliasing between the receiver's lines and the argument slice); strings.Split assumed via len>=1 / single-part facts; LSP Character treated as byte offset (templ's representation); Join/Split inverse lemma relating line splice to byte splice is assumed (code independent). Documents with >= 2^31 lines or a line >= 2^31 bytes are excluded by precondition.",
   technique="contract-based deductive verification: weakest-precondition style symbolic execution of the real Go functions against //@ contracts, obligations discharged by z3/z3-new/cvc5; counterexample models replayed on the real code with go test -overlay",
   design="5.C17"),
}

CLAIMED["C04"] = dict(
   level="proof",
   text="Contract on templ.URL taken from the property statement: the result is the fixed failure URL, or it is the input and the input lies in URL_BROWSER_OK = not(HAS_SCHEME) | ALLOWED, a regular language written from the WHATWG URL scheme-extraction rules (leading C0/space stripped, TAB/LF/CR removed anywhere, ASCII case-insensitive). The function VC is quantifier-free over the real body (library calls by assumed contracts that turn IndexRune / ContainsRune / EqualFold into language facts; EqualFold's language is the simple-fold closure computed from unicode.SimpleFold on each run, so it contains e.g. the long s and the Kelvin sign); the three 'returned unchanged' paths are closed by regular-language inclusions decided for all strings by a derivative-automaton emptiness search (cross-checked by z3-new's regex solver in the thorough tier). The generator half of the property (href/action only through SafeURL + attribute escaping) is not yet under contract and is not claimed.",
   note="govc + solvers; URL_BROWSER_OK is my formalisation of the WHATWG scheme state machine (sanity-checked on every run against member/non-member examples, including every input the repository's url_test.go expects to pass); assumed contracts for strings.IndexRune, ContainsRune, EqualFold; character references are not decoded by URL parsing (the value is attribute-escaped on output, C01)",
   technique="contract-based deductive verification: function VC over the typed AST + regular-language inclusion lemmas (Brzozowski derivatives, z3-new cross-check); sat models / lemma witnesses replayed on the real templ.URL",
   design="5.C04")
CLAIMED["C03"] = dict(
   level="proof",
   text="Loop contract on the real in-literal escaper runtime.replace (invariant: output so far is in JS_STR_OUT, the unflushed segment consists of pass-through bytes) with the replacement tables extracted mechanically from the source on each run; postcondition result in JS_STR_OUT = (JS_PASS | JS_ESC_UNITS)* where both component languages are computed from the tables. The property is then four regular-language inclusions against specification languages written from the ECMAScript lexical grammar and the HTML script-data tokenizer: the output cannot close a '...', \"...\" or `...` literal, cannot leave a dangling backslash, cannot contain ${, </script or <!--; plus by-compute lemmas that every escape unit denotes exactly the rune it replaces (so the literal evaluates back to the string). All strings, no bound. Positions outside a string literal (json.Marshal output) and the attribute/call forms are covered only through the assumed encoding/json contract and are listed as assumptions; the generator's choice of escaper per position is not yet under contract.",
   note="govc + solvers; js.lang specification languages (sanity examples checked every run); assumed contract of utf8.DecodeRuneInString; U+2028/U+2029 handled at rune level by two switch arms (checked) but not distinguishable at byte level; encoding/json assumed",
   technique="contract-based deductive verification: loop invariants on the real function, lemma instantiation, regular-language inclusion lemmas, compute lemmas over the extracted tables; lemma witnesses mapped back to inputs and replayed on the real code",
   design="5.C03")

CLAIMED["C11"] = dict(
   level="proof",
   text="Contract on ComponentHandler.ServeHTTPBuffered over a ghost trace of every operation on the http.ResponseWriter (Header().Set, WriteHeader, Write, http.Error, delegation to the configured error handler), taken from the property statement: with D the bytes the component rendered into the pooled buffer, a successful render extends the trace by exactly [Set(Content-Type), WriteHeader(Status) if configured, Write(D)]; a failed render by exactly [Set(Content-Type), delegate to ErrorHandler(r, err)] or [http.Error(500)] - no byte of D, no success status. The component is arbitrary (only the Component.Render interface contract is assumed: append-only output, non-nil error iff a callee failed), so this holds for every component, every fault point and every handler configuration. Pool resource invariant (every pooled buffer is empty) is an obligation at Put and an assumption at Get. The streaming handler carries the documented weaker contract.",
   note="govc + solvers; ResponseWriter modelled by its operation trace; what the configured error handler itself writes is one opaque delegate event; sync.Pool semantics assumed (Get returns New() or a value that was Put)",
   technique="contract-based deductive verification with ghost trace state; interface contract for Component.Render; bounded search on the real handler as replay",
   design="5.C11")
CLAIMED["C18"] = dict(
   level="other",
   text="Partial (framing half of the property only): (1) stream.Write: on success the connection received exactly \"Content-Length: \" + decimal(len(data)) + CRLF CRLF + data, with data the json.Marshal bytes - the header counts bytes of exactly what follows; (2) stream.Read: no index/slice/allocation panic on any input (safety sweep), and success only if a positive Content-Length was parsed and exactly that many bytes after the blank line were consumed and handed to DecodeMessage; every truncated / colon-less / non-numeric / zero / negative / missing length path returns a non-nil error; (3) conn.write: the whole frame is written while writeMu is held (ghost lock flag). Proved for all inputs by SMT over the real function bodies. NOT decided: JSON round trip, call/response matching, cancellation, hangs, interleavings (schedules/liveness are outside this family).",
   note="govc + solvers; assumed contracts: bufio.Reader.ReadString, io.ReadFull, strconv.ParseInt, strings.TrimSpace, fmt.Fprintf(%s %v), json.Marshal, io.Writer; chunking hidden behind the bufio.Reader contract; termination not proved",
   technique="contract-based deductive verification (function contracts, loop invariant, ghost input/output streams, ghost lock flag); bounded search on the real stream as replay",
   design="5.C18")

CLAIMED["C10"] = dict(
   level="proof",
   text="No-swallowed-error / append-only contracts on every layer of rendering. Ghost state: bytes accepted by each writer, pending bytes and sticky error of bufio writers, and a flag failedDuring set whenever any callee (writer, flush, nested component, expression, context) reports an error. (1) runtime.Buffer.{Reset,Write,WriteString,Flush}, runtime.GetBuffer (reuse or reset-on-acquisition of the pooled buffer), runtime.ReleaseBuffer (flush error is the result), runtime.WriteString; (2) the interface contract of Component.Render (result nil iff nothing failed; output append-only) proved for Join, Raw, Flush, Once, ComponentScript, JSONScriptElement, writeStrings, writeScriptHeader, ToGoHTML; (3) the generated-code contract (contracts/generated.contract) proved for every closure passed to GeneratedTemplate in a corpus regenerated on each run with the current parser+generator (all generator/test-* templates plus /verif/corpus), in two variants (arbitrary writer / *runtime.Buffer): result nil implies no callee failed, a non-nil result implies a failure, output of the writer only grows, a cancelled context returns ctx.Err() before any output. All fault points and writers are symbolic (no bound); programs are bounded by the corpus.",
   note="govc + solvers; assumed: io.Writer contract (accepts a prefix; all iff nil error), bufio.Writer contract, sync.Pool, interface contract of Render for user components, SanitizeStyleAttributeValues error propagation (trusted), user expressions deterministic and free of effects on the writer; the prefix order is abstracted to an uninterpreted order with its axioms for the long write chains of generated code; exactness of the document (what should be written) is C02 and not claimed",
   technique="contract-based deductive verification: ghost writer state, interface contracts, generated-code contract applied to a regenerated corpus, running invariants; obligations discharged by z3-new (batched) / z3 / cvc5",
   design="5.C10")
CLAIMED["C13"] = dict(
   level="proof",
   text="Children-slot protocol contract: the slot lives in the per-render context value; WithChildren installs exactly the block, ClearChildren empties it, GetChildren returns it; at every component call without a block in generated code the obligation 'slot is empty' must hold, every generated template leaves the slot empty on success, child-block closures require an empty slot on entry, hand-written wrappers (Flush, Once) must hand their children an empty slot. Proved over the regenerated corpus (including /verif/corpus/children-shapes, which contains every call shape the property names). The check reports two genuine defects as KNOWN-FINDINGs (a callee that ignores its block leaves it in the slot for the next sibling; Once renders its children with the slot still set) and one defect was repaired (Flush).",
   note="govc + solvers; one render = one shared context value (getContext/InitializeContext trusted); Component.Render interface contract for components not under contract (may clear the slot, never install one); programs bounded by the corpus; 'rendered where the callee places its slot / evaluated in the caller's scope' is C02 territory and not claimed",
   technique="contract-based deductive verification with ghost slot state and call-site obligations on regenerated code; replay by rendering the corpus templates with the real generated code and runtime",
   design="5.C13")

CLAIMED["C01"] = dict(
   level="proof",
   text="(1) Runtime sinks: templ.EscapeString is the stdlib escaper (assumed: result in HTML_ESCAPED, unescape inverts it); RenderAttributes appends, on success, a run of ' name' / ' name=\"value\"' items whose names and values are in HTML_ESCAPED (loop contract over the sorted keys, one lemma use per case of the type switch: string, *string, bool, *bool, KeyValue forms, func); writeScriptHeader and JSONScriptElement.Render emit '<script' + optional id/type/nonce attributes with escaped values + '>' (regular-language postconditions over the bytes appended). (2) Generated code: a ghost HTML tokenizer context is computed from the constant literals each generated closure writes; at every dynamic write the obligation is that the value lies in the language that is safe in that context (text: TEXT_SAFE, double-quoted attribute: DQ_ATTR_SAFE, script positions: C03 languages; no dynamic write in any other state; spread attributes only inside a tag; components / style / script elements only in the data state), discharged from the escaper's contract and the inclusion lemmas HTML_ESCAPED ⊆ TEXT_SAFE, ⊆ DQ_ATTR_SAFE (decided for all strings by automaton emptiness). Strings are unbounded and symbolic; programs are the regenerated corpus (all generator/test-* templates + /verif/corpus).",
   note="govc + solvers; HTML tokenizer facts (html.lang, sanity examples every run); html.EscapeString assumed; the literal-driven tokenizer model in htmlctx.go is part of the trusted generator of obligations; CR/NUL input-stream preprocessing outside the claim; corpus-bounded for generated sinks",
   technique="contract-based deductive verification: regular-language postconditions on the runtime sinks, ghost HTML context + sink preconditions on regenerated code, language-inclusion lemmas",
   design="5.C01")
CLAIMED["C12"] = dict(
   level="proof",
   text="Per-operation contracts on the per-context registry with the key sets of contextValue.ss / onceHandles as abstract view: addScript/addClass/setHasBeenRendered add exactly one key, the has* queries leave the view unchanged; RenderScriptItems is proved equal to the recursive specification 'emit if absent, then record' over its argument list (regFold / emitFold, loop invariant per prefix) - exactly the definitions of the scripts not yet registered and not earlier in the list are emitted, in order, and all names are recorded; OnceHandle.Once records the handle before rendering and renders nothing if it was recorded; CSS emission site: emit only if absent, record immediately, registry monotone; CSSMiddleware registers every class of the global stylesheet before calling the next handler. 'Before use' on generated code: at every attribute sink that writes a script call, the script's name is in the registry (established by the hoisted RenderScriptItems; corpus of script/css templates in the quick tier, full corpus in the thorough tier). At-most-once over histories and independence of contexts follow by induction from these contracts plus monotonicity (argument written in DESIGN.md, not mechanised). Not under contract: the positive half for nested CSS container forms (renderCSSItemsToBuilder recursion).",
   note="govc + solvers; one render = one shared context value (getContext/InitializeContext trusted); script template functions / JSFuncCall are pure functions of their arguments; interface contract of Render includes registry monotonicity for user components; corpus-bounded for the before-use obligation",
   technique="contract-based deductive verification with map views, recursive specification functions unfolded per loop step, ghost registry obligations at generated sinks",
   design="5.C12")

CLAIMED["C05"] = dict(
   level="proof",
   text="Contracts on every CSS sanitiser against specification languages written from CSS Syntax 3 and the property text (css.lang: CSS_NAME_SAFE; CSS_VALUE_SAFE = top-level characters, complete string tokens, url() calls with relative / http / https / mailto arguments; no ';', braces, other functions, '<', escapes or comment openers at top level). Regex validators (SanitizeCSSProperty incl. lower-casing, sanitizeEnum, sanitizeRegular): MatchString = membership in the language of the pattern literal (re-derived from the source on each run, `$` under `*` handled exactly) + an inclusion lemma decided for all strings by automaton emptiness. Code validators (sanitizeFontFamily, sanitizeBackgroundImage, urlIsSafe): loop contracts over the comma-separated parts (quantified invariant, TrimSpace / HasPrefix / TrimPrefix / ContainsAny / url.Parse by assumed contracts, the constant prefix table unrolled), closing lemma PART (\",\" PART)* ⊆ CSS_VALUE_SAFE. Dispatcher SanitizeCSSValue: call through the function table is case-split over every function stored in it (all must have a contract). Wrappers: SanitizeCSS, templ.SanitizeCSS (one declaration name:value;), processStringKV / processStringMap / processSafeCSSPropertyMap (every write is the escaped sanitised name/value). Two genuine defects found by failing lemmas, replayed on the real code, and repaired (font-family, background-image).",
   note="govc + solvers; css.lang is my formalisation (sanity examples incl. every value the repository's tests expect to pass); byte-level translation of Go regexps (non-ASCII members of negated classes over-approximated); assumed library contracts (strings.Split join fact, TrimSpace, url.Parse scheme detection, ToLower on ASCII); plain style strings are CSS-string-escaped by design and outside the property; reflection-based cases of sanitizeStyleAttributeValue not under contract",
   technique="contract-based deductive verification: language postconditions, code-derived regular languages, inclusion lemmas, loop invariants over Split parts; lemma witnesses replayed on the real sanitisers",
   design="5.C05")

CLAIMED["C07"] = dict(
   level="proof",
   text="(1) SourceMap.Add (parser/v2): quantified table contract proved for all expressions, ranges and previous table contents: for every line j of the expression and every rune start k of that line (and the position just past its end) the forward table holds (tgt.From.Index + off(j) + k, tgt.From.Line + j, tgtCol0(j) + k) at (src line + j, srcCol0(j) + k) and the reverse table holds the mirror entry - same byte offset on both sides, consecutive positions to consecutive positions, reverse inverts forward - plus the frame: every entry outside the rectangle of this expression is kept (two nested loops, quantified invariants, nested map model). Lookups return exactly the table entries; AddSymbolRange records the pair in both directions and keeps every other symbol. (2) RangeWriter (generator): write/Write/WriteIndent/closeLiteral/writeErrorHandler keep the invariant rwOK (Current.Index = bytes written, Current.Line = line feeds written, Current.Col = bytes after the last line feed), only append, and return a range whose From is the line/column/offset of the first byte of the text just written and whose To is the position after it; for well-formed UTF-8 exactly the bytes of the argument are appended. (3) Generator: a default contract (methods block) is proved for every method of *generator (61 functions): rwOK and the table invariants are preserved and output is append-only; at each of the 26 g.sourceMap.Add(expr, r) call sites the call-site clause of Add is proved: the bytes of the output at r.From.Index are expr.Value, r.From is the line/column of that offset, and expr has a source range. The whole-file statement (every mapped source byte = the target byte) follows from (1)-(3) and the parser's own invariant that Expression.Range locates Expression.Value in the source (assumed, see note). Two genuine defects found by failing obligations, replayed on the real generator and repaired (symbol ranges lost for declarations sharing a line; a synthesised class expression filed at source 0:0).",
   note="govc + solvers; assumed: parser invariant 'Expression.Range.From locates Expression.Value in the templ source' and 'parser expressions have a non-empty range' (type invariant, assumed for values entering verified code); expressions are well-formed UTF-8 (Go source); line/column/index counters do not wrap (files far below 2 GiB); spec functions nlCount/lineStart: step facts per rune, distribution over concatenation and prefix stability are axioms (listed); strings.Split offsets model; inner maps are not aliased; utf8.EncodeRune/DecodeRune models; all facts on the generator side are stated for runs in which no writer failed (ghost failedDuring); coverage ('every Go expression is mapped') is only checked by the bounded replay oracle, not by a contract; no panic-freedom sweep on generator methods",
   technique="contract-based deductive verification: quantified loop invariants over a nested map model, ghost writer output, default method contracts, call-site clauses evaluated in the caller, axiomatised spec functions; weaker-query portfolio (string abstraction, local hypotheses) for discharge; replay oracle = real parser+generator on templates, tables compared byte by byte",
   design="5.C07")

CLAIMED["C16"] = dict(
   level="proof",
   text="(1) Literal protocol, proved: static text reaches RangeWriter.WriteStringLiteral only in a form without raw line feeds (obligation at each of the 25 call sites of the generator, discharged from strconv.Quote's assumed contract via escapeQuotes, html.EscapeString, constants and the parser's name character sets as type invariants); closeLiteral gives the pending literal the next number k, records it as Literals[k-1], keeps every earlier literal, and the text it emits contains the call WriteString(buffer, k, \"literal\") with that number and that literal; Write/WriteIndent flush at most one pending literal and change nothing else about the literals; every generator method keeps len(Literals) == index and 'all literals are line-feed free' (61 functions, default method contract). runtime.WriteString: outside development mode it writes the compiled literal, in development mode it writes unquote('\"' + lines[index-1] + '\"') of the watched file, for index >= 1. With the two library facts listed in the note this gives 'development text file rendering = compiled rendering'. (2) Edit classification: the contract of generator.HasChanged - 'no recompilation' only if the Go code of the two outputs is the same apart from literal bodies (ghost attribute skeleton) - cannot be discharged from what HasChanged compares; the failing obligation is replayed on the real generator (title={x} -> href={x} and others) and recorded as a KNOWN-FINDING, not repaired.",
   note="govc + solvers; assumed: strconv.Unquote agrees with the Go compiler on an interpreted string literal; strings.Split(strings.Join(L, '\\n'), '\\n') == L for line-feed-free parts; strconv.Quote's result body has no raw line feed; html.EscapeString neither adds nor removes line feeds; parser type invariants (names without line feed, TrailingSpace one of three constants); FSEventHandler.generate (writes Join(Literals) to the text file, calls HasChanged) is outside the executor's subset and read off the code; file system, runtime.Caller and the 100 ms cache of the watched file are environment; literal validity as Go syntax (the generated file compiles) is C02 and not claimed",
   technique="contract-based deductive verification: regular-language preconditions at call sites, representation invariant of the literal collector over a default method contract, ghost attribute for the code of a generator output; replay = real parser/generator/HasChanged on templates and edit pairs",
   design="5.C16")

CLAIMED["C20"] = dict(
   level="other",
   text="Partial. Proved on Handler.modifyResponse over a ghost model of the response (in(r.Body) = bytes still to be read, headers(r.Header) = canonical key -> first value): (1) responses carrying the skip marker, responses whose Content-Type does not start with text/html and responses in a Content-Encoding other than '' / gzip / br leave exactly as they came - same body stream, nothing read from it, same ContentLength, same headers; (2) whenever the body is replaced, ContentLength and the Content-Length header are the number of bytes of the new body and the Content-Encoding header is unchanged (the body was produced by the writer selected by that same header value); (3) an error return leaves headers and ContentLength alone; (4) setShouldSkipResponseModificationHeader marks exactly the responses to HX-Request: true requests; (5) reloadScript carries the nonce attribute exactly when the nonce is non-empty, with that value; insertScriptTagIntoBody returns its input on every failure; parseNonce has no index / slice panic. The closures selected by the encoding switch are executed under a case split; readers and writers wrapped by gzip / brotli are tracked as wrappers of the stream they were created on. One genuine defect found (unsupported encodings were parsed and rewritten), replayed and repaired. NOT decided by this technique: that parse+render leaves 'the same document', that gzip / brotli decode(encode(x)) == x, that the script lands in the first body element, which nonce parseNonce picks (only its safety).",
   note="govc + solvers; assumed / modelled: net/http.Header as a map from canonical key to first value (Get, Set, Del, Add; any other Header method havocs the view), io.ReadAll, io.NopCloser, bytes.Buffer, gzip / brotli NewReader / NewWriter / Write / Close as opaque transformers tied to the wrapped stream, golang.org/x/net/html Parse / Render and htmlfind as uninterpreted functions; httputil.ReverseProxy calls modifyResponse with non-nil Request, URL, Header and Body (precondition)",
   technique="contract-based deductive verification with ghost streams and a ghost header view, closure calls executed under case split; bounded replay on the real handler (pass-through, 3 encodings x 4 CSP shapes, HTMX marker)",
   design="5.C20")

CLAIMED["C06"] = dict(
   level="other",
   text="Partial (position faithfulness of the expression-cutting layer only). Proved for all inputs and offsets, over a model of github.com/a-h/parse.Input read off its source: parseGo, parseGoSliceArgs and parseGoFuncDecl return an expression that is located - its range lies inside the input and is ordered, From / To carry the line and column of their byte offsets (number of line feeds before the offset, bytes since the last one), the input holds the expression text at the start of the range and To - From equals the length of the text - they advance the input exactly to the end of the expression and leave it untouched on error; NewExpression / NewRange copy the positions field by field (verified inline); goexpression.extract never returns an end beyond the text it was given nor a start beyond the end (the clamp that the callers' src[start:end] relies on), whatever go/parser reported. NOT decided by this technique: termination and absence of panics of the combinator parser on arbitrary bytes, the lower bound 0 <= start of the extractors (go/parser token positions), the other places that build expressions and name ranges (string / attribute / css / script parsers): for those the bounded replay oracle (every expression of the repository's and three crafted templates is located) is the only evidence, labelled bounded.",
   note="govc + solvers; assumed: the a-h/parse.Input model (Peek, Take, Index, Position, PositionAt), the extractor results 0 <= start <= end <= len(content) when err == nil (upper part proved on extract), goexpression.SliceArgs / Func return a prefix of their input, parse.Error is non-nil; inputs shorter than 2 GiB; spec functions nlCount / lineStart as in C07",
   technique="contract-based deductive verification of the three cutting functions against a library model; bounded replay = the real parser on templates with every Expression checked against the input bytes",
   design="5.C06")

CLAIMED["C14"] = dict(
   level="other",
   text="Partial (confinement and lock discipline; no interleaving semantics). Every function on the render path that is under contract for C10 (runtime buffer / pool / WriteString, templ's hand-written components, registry, handlers - 260 functions including every closure of the regenerated corpus) is executed symbolically once more with one extra kind of obligation: each read or write of a package-level variable that is ever assigned after initialisation must happen while the mutex declared for it (`guarded v by mu`) is held, and a variable without a declared guard must not be touched at all. Result on the current tree: the only such state is the watch-mode cache of text files (runtime and its deprecated copy in package templ); all its accesses are inside getWatchedStrings / cacheStrings with watchStateMutex held (Lock at entry, deferred Unlock on every return, cacheStrings only called with the lock held), no lock is acquired twice or released unheld. Variables never assigned after initialisation (tables, developmentMode, compiled regexps) are immutable; sync.Pool and sync.Mutex are safe for concurrent use by their documentation. From confinement, 'each goroutine gets the bytes it would get alone' and data-race freedom follow only by the Go memory model argument (not mechanised): a render touches its own context value, its own writer and a buffer it owns between Get and Put (C10). Replay: the real runtime under the Go race detector.",
   note="govc + solvers; no schedules are explored; assumed: sync.Pool / sync.Mutex / context.Context concurrency contracts, read-only use of never-assigned package variables, user expressions and components outside the claim; reads through pointers stored in package-level variables are not followed (none on this path)",
   technique="contract-based deductive verification of a confinement discipline (ghost lock state, guarded-variable obligations over the borrowed C10 contracts); replay = go test -race on 8 goroutines x 200 renders",
   design="5.C14")

NA = {
 "C02": "compiler correctness: needs a formal semantics of templ and of the emitted Go subset; no per-function contract can state 'denotes' without restating the generator (locally expressible parts are claimed under C01/C03/C04/C10/C16/C07)",
 "C08": "whole-formatter semantic preservation needs the same two semantics plus go/format; not expressible as function contracts",
 "C09": "idempotence is a two-run hyperproperty of parse∘print over unbounded trees through a combinator library and go/format; no conjunction of per-function contracts implies it",
 "C15": "quantifies over directory trees, worker counts and goroutine schedules of cmd.Run; file system and scheduler are outside any contract this VC generator can state",
 "C19": "liveness and crash-freedom under client churn need channel ownership reasoning across goroutines (concurrent separation logic); outside this family",
}
PENDING = {}

ALL = ["C%02d" % i for i in range(1, 21)]

def main():
    checks = []
    for pid in sorted(CLAIMED):
        c = CLAIMED[pid]
        checks.append({
            "property_id": pid,
            "quick_cmd": "./check %s quick" % pid,
            "thorough_cmd": "./check %s thorough" % pid,
            "evidence_file": "/verif/evidence/%s.json" % pid,
            "replay_cmd_template": "cat {path}",
            "engine": "govc",
            "level_claimed": {"category": c["level"], "text": c["text"], "design_ref": c["design"]},
            "level_note": c["note"],
            "technique": c["technique"],
        })
    na = []
    for pid in ALL:
        if pid in CLAIMED:
            continue
        if pid in NA:
            na.append({"property_id": pid, "reason": NA[pid]})
        else:
            na.append({"property_id": pid, "reason": PENDING.get(pid, "designed in DESIGN.md section 5 but the check is not built yet in this tree; not claimed until its obligations discharge")})
    hooks_commits = subprocess.run(["git", "-C", "/repo", "log", "--format=%h %s", "--grep=^verif:"], capture_output=True, text=True).stdout.strip().split("\n")
    m = {
        "version": 1,
        "setup_cmd": "./check build",
        "hooks": {
            "guard": "verif",
            "enable": "go build tag `verif` (go/packages is invoked with -tags=verif); the guarded files /repo/**/verif_contracts.go are comment-only contract files (//@ lines) and declare nothing",
            "baseline_off_cmd": "for m in $(cat /w/out/gomods.txt); do MF=$(cd /repo/$m && . /w/out/goenv.sh && gomodflag); (cd /repo/$m && go test $MF -json -vet=off -count=1 -timeout 25m ./...); done",
            "source_commits": [c for c in hooks_commits if c],
            "add_only": True,
        },
        "engines": [{
            "name": "govc",
            "path": "/verif/govc",
            "serves_properties": sorted(CLAIMED),
            "kind_free_text": "contract-based deductive verifier for Go written for this task: contracts as //@ comments in build-tag-guarded files in /repo, verification conditions generated by symbolic execution over go/ast+go/types of the real function bodies (modular: callees by contract), discharged by z3-new 5.1.0 / z3 4.8.12 / cvc5 1.0 raced per obligation; regular-language lemmas decided by a Brzozowski-derivative automaton search and cross-checked by z3-new; sat models replayed on the real code via go test -overlay",
        }],
        "checks": checks,
        "not_applicable": na,
        "notes": "See /verif/DESIGN.md. ./check selftest runs the must-fail corpus (seeded changes under /verif/seeded and /verif/selftest/mutants).",
    }
    json.dump(m, open("/verif/MANIFEST.json", "w"), indent=1, ensure_ascii=False)
    print("MANIFEST.json written:", len(checks), "checks,", len(na), "not_applicable")

main()
