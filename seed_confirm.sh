#!/bin/bash
# seed_confirm.sh <seed-id> <property> <agent-out-dir> <demo-dest-relative-path> "<demo test cmd>" "<existing tests cmd>" "<needs>"
# Confirms a seeded change in a scratch worktree (outside /repo and /verif): builds, existing tests pass with it,
# the demonstration fails with it and passes without it; then stores it under /verif/seeded/<id>/.
set -u
export GOFLAGS=-mod=mod GOPROXY=off GOSUMDB=off GOTOOLCHAIN=local
id="$1"; prop="$2"; out="$3"; dest="$4"; democmd="$5"; testcmd="$6"; needs="$7"
wt=$(mktemp -d /tmp/seedconf-XXXXXX); rmdir "$wt"
git -C /repo worktree add -q --detach "$wt" HEAD || exit 2
demo=$(ls "$out"/demo* | head -1)
cp "$demo" "$wt/$dest"
cd "$wt"
echo "== demo WITHOUT the change (must pass)"; bash -c "$democmd" > /tmp/seedconf.base.log 2>&1; base=$?
git apply "$out/patch.diff" || { echo "patch does not apply"; git -C /repo worktree remove --force "$wt"; exit 2; }
echo "== build"; go build ./... > /tmp/seedconf.build.log 2>&1; build=$?
echo "== demo WITH the change (must fail)"; bash -c "$democmd" > /tmp/seedconf.mut.log 2>&1; mut=$?
rm -f "$wt/$dest"
echo "== existing tests WITH the change (must pass)"; bash -c "$testcmd" > /tmp/seedconf.tests.log 2>&1; tests=$?
cd /; git -C /repo worktree remove --force "$wt"; git -C /repo worktree prune
echo "base=$base build=$build mutated=$mut existing_tests=$tests"
if [ $base -eq 0 ] && [ $build -eq 0 ] && [ $mut -ne 0 ] && [ $tests -eq 0 ]; then
  d=/verif/seeded/$id; mkdir -p "$d"
  cp "$out/patch.diff" "$d/patch.diff"; cp "$demo" "$d/$(basename "$demo")"
  [ -f "$out/notes.md" ] && cp "$out/notes.md" "$d/notes.md"
  python3 - "$d" "$prop" "$dest" "$democmd" "$testcmd" "$needs" <<'PY'
import json,sys
d,prop,dest,democmd,testcmd,needs=sys.argv[1:7]
json.dump({"property":prop,"needs_to_manifest":needs,"demo_file_destination":dest,"demo_cmd":democmd,"existing_tests_cmd":testcmd,
 "confirmed":{"builds_with_change":True,"existing_tests_pass_with_change":True,"demo_passes_without_change":True,"demo_fails_with_change":True},
 "origin":"independent sub-agent given only the property text and a scratch worktree"},open(d+"/meta.json","w"),indent=1)
PY
  echo "CONFIRMED -> $d"
else
  echo "NOT CONFIRMED (see /tmp/seedconf.*.log)"; tail -5 /tmp/seedconf.tests.log
fi
